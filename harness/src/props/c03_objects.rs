//! C03, second part — long-lived objects other than `Font`.
//!
//! Section `outline-objects`: one outline source (`LocaTable` + `GlyfTable`, `CFF`, or `CFF2`
//! behind `CFF2Outlines`) is parsed ONCE per case and then serves a generated history of calls
//! (outline visits of in-range / composite / deeply nested / out-of-range glyphs and of glyphs whose
//! data is broken so that the visit FAILS half-way; for `glyf` also `get_parsed_glyph`, the record
//! queries and `GlyfRecord::parse`, which turn records from `Present` into `Parsed`; for CFF2 a
//! different variation tuple per call). Oracle (metamorphic, as for `Font`): the probe call — and
//! one sampled history call — answers exactly as on an object freshly parsed from the same bytes,
//! and repeating the probe changes nothing. Both the `Result` and the complete sequence of sink
//! callbacks (f32 values rendered exactly) are compared.
//!
//! Inputs: C16's glyph-table generator (random tables and composite chains around the nesting
//! limit, cycles, dangling component indices) with 0-2 records damaged after encoding; C18's
//! CFF / CID / CFF2 generator (static and variable) with 0-3 byte faults; TrueType, CFF and CFF2
//! fixtures (a component of a composite damaged in some cases).

use super::tuple_pool;
use crate::engine::util::{mix64, pick, truncate};
use crate::engine::{fixtures, CaseResult, Fail, Rec};
use crate::fontgen::glyf::{build_glyf_loca, encode_glyph};
use crate::fontgen::sfnt::find_table;
use crate::fontgen::var::{fvar_table, AxisModel};
use crate::props::{c16, c18};
use allsorts::binary::read::ReadScope;
use allsorts::cff::cff2::CFF2;
use allsorts::cff::outline::CFF2Outlines;
use allsorts::cff::CFF;
use allsorts::outline::{OutlineBuilder, OutlineSink};
use allsorts::pathfinder_geometry::line_segment::LineSegment2F;
use allsorts::pathfinder_geometry::vector::Vector2F;
use allsorts::tables::glyf::{GlyfRecord, GlyfTable, Glyph};
use allsorts::tables::loca::LocaTable;
use allsorts::tables::variable_fonts::fvar::FvarTable;
use allsorts::tables::variable_fonts::OwnedTuple;
use allsorts::tables::{F2Dot14, IndexToLocFormat};
use proptest::prelude::*;
use std::fmt::Write as _;
use std::sync::OnceLock;

// ------------------------------------------------------------------ case model

#[derive(Clone, Debug)]
pub enum ObjFont {
    /// C16 glyph table; `breaks`: (record, how, r) applied to the encoded records
    Glyf { case: c16::Case, breaks: Vec<(u32, u8, u32)> },
    /// C18 CFF / CID / CFF2 table; `faults`: (position, how) applied to the table bytes
    Cff { case: c18::Case, faults: Vec<(u32, u8)> },
    /// a fixture (index into `fixture_sources()`); `damage`: break a component of a composite
    Fixture { which: u32, damage: Option<(u32, u32, u8)> },
}

#[derive(Clone, Debug)]
pub struct OSpec {
    /// 0 visit, 1 get_parsed_glyph, 2 record queries, 3 GlyfRecord::parse (glyf only; the CFF
    /// objects only have visits)
    pub kind: u8,
    pub gid: u32,
    pub tuple: u32,
    /// history op: take the glyph / the tuple from the probe
    pub same_gid: bool,
    pub same_tuple: bool,
}

#[derive(Clone, Debug)]
pub struct ObjCase {
    pub font: ObjFont,
    pub history: Vec<OSpec>,
    pub probe: OSpec,
    pub sample: u32,
}

fn c18_case() -> impl Strategy<Value = c18::Case> {
    let a = (
        any::<u64>(),
        prop_oneof![3 => Just(c18::Kind::NameKeyed), 2 => Just(c18::Kind::Cid), 5 => Just(c18::Kind::Cff2)],
        2usize..=7,
        prop_oneof![3 => Just(0u8), 2 => Just(1u8), 1 => Just(2u8), 2 => Just(3u8)],
        prop::bool::weighted(0.6),
        prop::bool::weighted(0.5),
        prop::bool::weighted(0.6),
        prop_oneof![2 => Just(0usize), 3 => 1usize..=4],
        prop_oneof![2 => Just(0usize), 3 => 1usize..=3],
        prop::bool::weighted(0.08),
    );
    let b = (1usize..=8, prop_oneof![20 => Just(0u8), 1 => 1u8..=4], 1usize..=3, prop::bool::weighted(0.7), 1usize..=3, any::<u8>(), prop_oneof![3 => Just(1u8), 1 => 2u8..=4], prop_oneof![3 => Just(0u8), 1 => 1u8..=3]);
    (a, b).prop_map(|((seed, kind, nglyphs, grid, hints, width, free_forms, nfrags, cuts, deep), (max_segs, pad, nfd, variable, axes, block_order, off_size, header_extra))| c18::Case {
        kind,
        seed,
        nglyphs,
        grid,
        hints,
        width: width && kind != c18::Kind::Cff2,
        free_forms,
        nfrags,
        cuts,
        deep,
        max_segs,
        pad,
        nfd: match kind {
            c18::Kind::NameKeyed => 1,
            c18::Kind::Cid => nfd.max(2),
            c18::Kind::Cff2 => nfd,
        },
        variable: variable && kind == c18::Kind::Cff2,
        axes,
        block_order,
        off_size,
        header_extra,
        via_sfnt: false,
    })
}

fn font_strategy() -> impl Strategy<Value = ObjFont> {
    let breaks = || prop_oneof![2 => Just(Vec::new()), 3 => proptest::collection::vec((any::<u32>(), 0u8..6, any::<u32>()), 1..=2)];
    let faults = prop_oneof![3 => Just(Vec::new()), 2 => proptest::collection::vec((any::<u32>(), 0u8..5), 1..=3)];
    prop_oneof![
        22 => (c16::case_strategy(), breaks()).prop_map(|(case, breaks)| ObjFont::Glyf { case, breaks }),
        22 => (c16::chain_strategy(), breaks()).prop_map(|(case, breaks)| ObjFont::Glyf { case, breaks }),
        32 => (c18_case(), faults).prop_map(|(case, faults)| ObjFont::Cff { case, faults }),
        24 => (any::<u32>(), proptest::option::weighted(0.4, (any::<u32>(), any::<u32>(), 0u8..3))).prop_map(|(which, damage)| ObjFont::Fixture { which, damage }),
    ]
}

fn ospec(probe: bool) -> impl Strategy<Value = OSpec> {
    let kind = prop_oneof![6 => Just(0u8), 1 => Just(1u8), 1 => Just(2u8), 1 => Just(3u8)];
    (kind, any::<u32>(), any::<u32>(), prop::bool::weighted(if probe { 0.0 } else { 0.35 }), prop::bool::weighted(if probe { 0.0 } else { 0.4 }))
        .prop_map(|(kind, gid, tuple, same_gid, same_tuple)| OSpec { kind, gid, tuple, same_gid, same_tuple })
}

pub fn case_strategy() -> impl Strategy<Value = ObjCase> {
    (font_strategy(), proptest::collection::vec(ospec(false), 0..10), ospec(true), any::<u32>()).prop_map(|(font, history, probe, sample)| ObjCase { font, history, probe, sample })
}

// ------------------------------------------------------------------ sources

#[derive(Clone, Copy, Debug, PartialEq)]
enum Flavour {
    Glyf,
    Cff,
    Cff2,
}

struct Src {
    label: String,
    class: &'static str,
    flavour: Flavour,
    /// glyf: the glyf table; otherwise the CFF / CFF2 table
    table: Vec<u8>,
    loca: Vec<u8>,
    long: bool,
    n: usize,
    /// CFF2: choice 0 = no tuple, choice i + 1 = tuples[i]
    tuples: Vec<OwnedTuple>,
    /// glyph ids worth asking for (composites, damaged glyphs and their users)
    hot: Vec<u16>,
    /// damaged on purpose: a panic is C16's / C18's business (case skipped and counted)
    tolerant: bool,
    damaged: bool,
}

struct FixtureSrc {
    name: String,
    flavour: Flavour,
    table: Vec<u8>,
    loca: Vec<u8>,
    long: bool,
    n: usize,
    /// normalised coordinates (raw F2Dot14) per tuple
    tuples: Vec<Vec<i16>>,
    /// glyf: (composite glyph, its components, (offset, length) of each component's record)
    composites: Vec<(u16, Vec<(u16, usize, usize)>)>,
}

fn rd_u16(b: &[u8], o: usize) -> Option<usize> {
    b.get(o..o + 2).map(|x| u16::from_be_bytes([x[0], x[1]]) as usize)
}

fn rd_u32(b: &[u8], o: usize) -> Option<usize> {
    b.get(o..o + 4).map(|x| u32::from_be_bytes([x[0], x[1], x[2], x[3]]) as usize)
}

/// (offset, length) of a glyph record, read from the loca bytes with my own arithmetic
fn loca_span(loca: &[u8], long: bool, gid: usize) -> Option<(usize, usize)> {
    let (a, b) = if long { (rd_u32(loca, 4 * gid)?, rd_u32(loca, 4 * gid + 4)?) } else { (2 * rd_u16(loca, 2 * gid)?, 2 * rd_u16(loca, 2 * gid + 2)?) };
    b.checked_sub(a).map(|l| (a, l))
}

fn fixture_sources() -> &'static Vec<FixtureSrc> {
    static S: OnceLock<Vec<FixtureSrc>> = OnceLock::new();
    S.get_or_init(|| {
        let mut out = Vec::new();
        for p in [
            "fonts/opentype/SFNT-TTF-Composite.ttf",
            "fonts/opentype/OpenSans-Regular.ttf",
            "fonts/opentype/test-font.ttf",
            "fonts/variable/Inter[slnt,wght].abc.ttf",
            "fonts/noto/NotoSansDevanagari-Regular.ttf",
            "fonts/opentype/Klei.otf",
            "fonts/opentype/cff2/SourceSans3.abc.otf",
            "fonts/opentype/cff2/SourceSansVariable-Roman.abc.otf",
        ] {
            let Some(bytes) = fixtures::read(p) else { continue };
            let n = match find_table(&bytes, b"maxp").and_then(|m| rd_u16(m, 4)) {
                Some(n) if n > 0 => n,
                _ => continue,
            };
            if let (Some(glyf), Some(loca), Some(head)) = (find_table(&bytes, b"glyf"), find_table(&bytes, b"loca"), find_table(&bytes, b"head")) {
                let long = rd_u16(head, 50) == Some(1);
                let mut f = FixtureSrc { name: p.to_string(), flavour: Flavour::Glyf, table: glyf.to_vec(), loca: loca.to_vec(), long, n, tuples: Vec::new(), composites: Vec::new() };
                // composite glyphs and their components: read with my own field arithmetic (only
                // used to choose which glyphs to ask for and which record to damage)
                for gid in 0..n.min(4000) {
                    let Some((o, l)) = loca_span(&f.loca, long, gid) else { break };
                    let Some(rec) = f.table.get(o..o + l) else { continue };
                    if l < 12 || (rd_u16(rec, 0).unwrap_or(0) as u16 as i16) >= 0 {
                        continue;
                    }
                    let mut comps = Vec::new();
                    let mut at = 10;
                    while let (Some(flags), Some(g)) = (rd_u16(rec, at), rd_u16(rec, at + 2)) {
                        if let Some((co, cl)) = loca_span(&f.loca, long, g) {
                            comps.push((g as u16, co, cl));
                        }
                        at += 4 + if flags & 1 != 0 { 4 } else { 2 } + if flags & 8 != 0 { 2 } else if flags & 0x40 != 0 { 4 } else if flags & 0x80 != 0 { 8 } else { 0 };
                        if flags & 0x20 == 0 || comps.len() > 16 {
                            break;
                        }
                    }
                    if !comps.is_empty() && f.composites.len() < 400 {
                        f.composites.push((gid as u16, comps));
                    }
                }
                out.push(f);
            } else if let Some(t) = find_table(&bytes, b"CFF ") {
                out.push(FixtureSrc { name: p.to_string(), flavour: Flavour::Cff, table: t.to_vec(), loca: Vec::new(), long: false, n, tuples: Vec::new(), composites: Vec::new() });
            } else if let Some(t) = find_table(&bytes, b"CFF2") {
                let tuples = tuple_pool(&bytes, None).0.iter().map(|t| t.iter().map(|x| x.raw_value()).collect()).collect();
                out.push(FixtureSrc { name: p.to_string(), flavour: Flavour::Cff2, table: t.to_vec(), loca: Vec::new(), long: false, n, tuples, composites: Vec::new() });
            }
        }
        out
    })
}

/// an OwnedTuple over `raw.len()` axes (the fvar table is only the vehicle allsorts requires)
fn owned_tuple(raw: &[i16]) -> Option<OwnedTuple> {
    let axes: Vec<AxisModel> = raw.iter().enumerate().map(|(i, _)| AxisModel { tag: [b'A', b'X', b'0', b'0' + (i % 10) as u8], min: -65536, default: 0, max: 65536, flags: 0, name_id: 256 + i as u16 }).collect();
    let bytes = fvar_table(&axes, &[], 0);
    let fvar = ReadScope::new(&bytes).read::<FvarTable<'_>>().ok()?;
    let vals: Vec<F2Dot14> = raw.iter().map(|v| F2Dot14::from_raw(*v)).collect();
    fvar.owned_tuple(&vals)
}

fn damage_record(rec: &mut Vec<u8>, how: u8, r: u32) -> Option<&'static str> {
    if rec.len() < 4 {
        return None;
    }
    Some(match how {
        0 => {
            let keep = (rec.len() / 2).max(2);
            rec.truncate(keep);
            "truncated to half"
        }
        1 => {
            rec[0] = 0x7F;
            rec[1] = 0xFF;
            "numberOfContours 32767"
        }
        2 => {
            let p = pick(rec.len(), r);
            rec[p] ^= 1 << (r % 8);
            "one bit flipped"
        }
        3 => {
            let p = 10 + pick(rec.len().saturating_sub(10).clamp(1, 6), r);
            if p >= rec.len() {
                return None;
            }
            rec[p] = 0xFF;
            "byte behind the header set to 0xFF"
        }
        4 => {
            rec.truncate(rec.len().min(11));
            "truncated behind the header"
        }
        _ => {
            // the last byte(s) go: the coordinate / instruction data ends early
            let cut = 1 + pick(3, r);
            let keep = rec.len().saturating_sub(cut).max(2);
            rec.truncate(keep);
            "last bytes cut"
        }
    })
}

fn build_src(font: &ObjFont) -> Result<Src, &'static str> {
    match font {
        ObjFont::Glyf { case, breaks } => {
            let glyphs = c16::build_glyphs(case);
            let mut records: Vec<Vec<u8>> = Vec::with_capacity(glyphs.len());
            for (i, g) in glyphs.iter().enumerate() {
                records.push(encode_glyph(g, &case.enc.for_item(i)).map_err(|_| "glyf:not-encodable")?);
            }
            let n = records.len();
            let mut hot: Vec<u16> = Vec::new();
            let mut what = Vec::new();
            for (target, how, r) in breaks {
                let t = pick(n, *target);
                if let Some(w) = damage_record(&mut records[t], *how, *r) {
                    what.push(format!("glyph {} {}", t, w));
                    hot.push(t as u16);
                }
            }
            // users of a damaged glyph, composites in general
            for (i, g) in glyphs.iter().enumerate() {
                if let crate::refmodel::glyf::Glyph::Composite(c) = g {
                    if c.components.iter().any(|k| hot.contains(&k.glyph)) {
                        hot.push(i as u16);
                    }
                    hot.push(i as u16);
                }
            }
            let (table, loca) = build_glyf_loca(&records, &case.layout).map_err(|_| "glyf:not-encodable")?;
            let chain = matches!(glyphs.first(), Some(crate::refmodel::glyf::Glyph::Simple(_))) && glyphs.len() >= 5 && case.simples.len() == 1;
            Ok(Src {
                label: format!("generated glyf table, {} glyphs{}", n, if what.is_empty() { String::new() } else { format!(", damaged: {}", what.join("; ")) }),
                class: if chain { "object:glyf-generated-chain" } else { "object:glyf-generated" },
                flavour: Flavour::Glyf,
                table,
                loca,
                long: case.layout.long_loca,
                n,
                tuples: Vec::new(),
                hot,
                tolerant: !what.is_empty(),
                damaged: !what.is_empty(),
            })
        }
        ObjFont::Cff { case, faults } => {
            let b = c18::build(case);
            let mut table = b.table;
            let mut what = Vec::new();
            for (pos, how) in faults {
                // the charstrings and subroutines live behind the header / name / top dict
                let lo = table.len() / 4;
                let p = lo + pick(table.len() - lo, *pos);
                let old = table[p];
                let new = match how {
                    0 => 0,
                    1 => 0xFF,
                    2 => old.wrapping_add(1),
                    3 => old ^ (1 << (pos % 8)),
                    _ => 14, // endchar (CFF) / reserved (CFF2)
                };
                if new != old {
                    table[p] = new;
                    what.push(format!("[{}] {:#04x} -> {:#04x}", p, old, new));
                }
            }
            let cff2 = case.kind == c18::Kind::Cff2;
            let mut tuples = Vec::new();
            let k = b.tuple.len();
            if cff2 {
                if b.vstore.is_some() && k > 0 {
                    let mut raws: Vec<Vec<i16>> = vec![b.tuple.clone(), vec![0; k], vec![16384; k], vec![-16384; k]];
                    raws.push((0..k).map(|i| ((mix64(case.seed ^ i as u64) % 32769) as i32 - 16384) as i16).collect());
                    raws.push((0..k).map(|i| if i % 2 == 0 { 8192 } else { -4096 }).collect());
                    for r in raws {
                        if let Some(t) = owned_tuple(&r) {
                            tuples.push(t);
                        }
                    }
                } else if let Some(t) = owned_tuple(&[8192]) {
                    // a tuple for a table without a VariationStore: an error every time
                    tuples.push(t);
                }
            }
            let n = b.glyphs.len();
            Ok(Src {
                label: format!("generated {:?} table, {} glyphs, {} bytes{}", case.kind, n, table.len(), if what.is_empty() { String::new() } else { format!(", faults {}", what.join(" ")) }),
                class: match (case.kind, b.vstore.is_some()) {
                    (c18::Kind::NameKeyed, _) => "object:cff-generated",
                    (c18::Kind::Cid, _) => "object:cid-generated",
                    (c18::Kind::Cff2, false) => "object:cff2-generated-static",
                    (c18::Kind::Cff2, true) => "object:cff2-generated-variable",
                },
                flavour: if cff2 { Flavour::Cff2 } else { Flavour::Cff },
                table,
                loca: Vec::new(),
                long: false,
                n,
                tuples,
                hot: Vec::new(),
                tolerant: !what.is_empty(),
                damaged: !what.is_empty(),
            })
        }
        ObjFont::Fixture { which, damage } => {
            let pool = fixture_sources();
            if pool.is_empty() {
                return Err("fixture:none-available");
            }
            let f = &pool[pick(pool.len(), *which)];
            let mut table = f.table.clone();
            let mut hot: Vec<u16> = f.composites.iter().take(64).map(|c| c.0).collect();
            let mut what = String::new();
            if let (Some((a, b, how)), false) = (damage, f.composites.is_empty()) {
                let (comp, parts) = &f.composites[pick(f.composites.len(), *a)];
                let (g, o, l) = parts[pick(parts.len(), *b)];
                if l >= 12 {
                    match how {
                        0 => {
                            table[o] = 0x7F;
                            table[o + 1] = 0xFF;
                        }
                        1 => {
                            // first endPtsOfContours (simple) / first component flags (composite)
                            table[o + 10] = 0xFF;
                            table[o + 11] = 0xFF;
                        }
                        _ => {
                            let p = o + pick(l, *a ^ *b);
                            table[p] ^= 0x55;
                        }
                    }
                    what = format!(", glyph {} (component of {}) damaged ({})", g, comp, how);
                    hot = vec![*comp, g, *comp, g];
                    hot.extend(f.composites.iter().filter(|c| c.1.iter().any(|k| k.0 == g)).take(8).map(|c| c.0));
                }
            }
            Ok(Src {
                label: format!("{}{}", f.name, what),
                class: match f.flavour {
                    Flavour::Glyf => "object:glyf-fixture",
                    Flavour::Cff => "object:cff-fixture",
                    Flavour::Cff2 => "object:cff2-fixture",
                },
                flavour: f.flavour,
                table,
                loca: f.loca.clone(),
                long: f.long,
                n: f.n,
                tuples: f.tuples.iter().filter_map(|t| owned_tuple(t)).collect(),
                hot,
                tolerant: !what.is_empty(),
                damaged: !what.is_empty(),
            })
        }
    }
}

// ------------------------------------------------------------------ objects and ops

enum Obj<'a> {
    Glyf(GlyfTable<'a>),
    Cff(CFF<'a>),
    Cff2(CFF2<'a>),
}

fn parse_loca(src: &Src) -> Result<Option<LocaTable<'_>>, String> {
    if src.flavour != Flavour::Glyf {
        return Ok(None);
    }
    let fmt = if src.long { IndexToLocFormat::Long } else { IndexToLocFormat::Short };
    ReadScope::new(&src.loca).read_dep::<LocaTable<'_>>((src.n, fmt)).map(Some).map_err(|e| format!("loca: {:?}", e))
}

fn parse_obj<'a>(src: &'a Src, loca: Option<&'a LocaTable<'a>>) -> Result<Obj<'a>, String> {
    match src.flavour {
        Flavour::Glyf => {
            let loca = loca.ok_or_else(|| "loca missing".to_string())?;
            ReadScope::new(&src.table).read_dep::<GlyfTable<'_>>(loca).map(Obj::Glyf).map_err(|e| format!("glyf: {:?}", e))
        }
        Flavour::Cff => ReadScope::new(&src.table).read::<CFF<'_>>().map(Obj::Cff).map_err(|e| format!("CFF: {:?}", e)),
        Flavour::Cff2 => ReadScope::new(&src.table).read::<CFF2<'_>>().map(Obj::Cff2).map_err(|e| format!("CFF2: {:?}", e)),
    }
}

#[derive(Clone, Debug, PartialEq)]
enum OOp {
    Visit { gid: u16, tuple: usize },
    Parsed(u16),
    Info(u16),
    ParseRecord(u16),
}

impl OOp {
    fn gid(&self) -> u16 {
        match self {
            OOp::Visit { gid, .. } | OOp::Parsed(gid) | OOp::Info(gid) | OOp::ParseRecord(gid) => *gid,
        }
    }
    fn name(&self) -> &'static str {
        match self {
            OOp::Visit { .. } => "visit",
            OOp::Parsed(_) => "get_parsed_glyph",
            OOp::Info(_) => "record-queries",
            OOp::ParseRecord(_) => "record-parse",
        }
    }
}

fn resolve_gid(src: &Src, r: u32) -> u16 {
    let n = src.n as u32;
    let sel = r % 16;
    let x = r / 16;
    match sel {
        0 => n as u16,
        1 => {
            if x % 2 == 0 {
                0xFFFF
            } else {
                (n + 1 + x % 7).min(0xFFFF) as u16
            }
        }
        2..=7 if !src.hot.is_empty() => src.hot[(x as usize) % src.hot.len()],
        _ => (x % n.max(1)) as u16,
    }
}

fn resolve(src: &Src, s: &OSpec, probe: &OSpec) -> OOp {
    let gid = resolve_gid(src, if s.same_gid { probe.gid } else { s.gid });
    let tuple = if src.flavour == Flavour::Cff2 { pick(src.tuples.len() + 1, if s.same_tuple { probe.tuple } else { s.tuple }) } else { 0 };
    match (src.flavour, s.kind) {
        (Flavour::Glyf, 1) => OOp::Parsed(gid),
        (Flavour::Glyf, 2) => OOp::Info(gid),
        (Flavour::Glyf, 3) => OOp::ParseRecord(gid),
        _ => OOp::Visit { gid, tuple },
    }
}

/// every callback with its arguments, f32 values rendered exactly ({:?} round-trips)
#[derive(Default)]
struct TextSink {
    s: String,
    n: usize,
}

impl OutlineSink for TextSink {
    fn move_to(&mut self, to: Vector2F) {
        self.n += 1;
        let _ = write!(self.s, "M {:?} {:?};", to.x(), to.y());
    }
    fn line_to(&mut self, to: Vector2F) {
        self.n += 1;
        let _ = write!(self.s, "L {:?} {:?};", to.x(), to.y());
    }
    fn quadratic_curve_to(&mut self, c: Vector2F, to: Vector2F) {
        self.n += 1;
        let _ = write!(self.s, "Q {:?} {:?} {:?} {:?};", c.x(), c.y(), to.x(), to.y());
    }
    fn cubic_curve_to(&mut self, c: LineSegment2F, to: Vector2F) {
        self.n += 1;
        let _ = write!(self.s, "C {:?} {:?} {:?} {:?} {:?} {:?};", c.from_x(), c.from_y(), c.to_x(), c.to_y(), to.x(), to.y());
    }
    fn close(&mut self) {
        self.n += 1;
        self.s.push_str("Z;");
    }
}

fn run(obj: &mut Obj<'_>, src: &Src, op: &OOp) -> String {
    match (obj, op) {
        (Obj::Glyf(g), OOp::Visit { gid, .. }) => {
            let mut sink = TextSink::default();
            let r = g.visit(*gid, &mut sink);
            format!("{:?} after {} callbacks: {}", r, sink.n, sink.s)
        }
        (Obj::Cff(c), OOp::Visit { gid, .. }) => {
            let mut sink = TextSink::default();
            let r = c.visit(*gid, &mut sink);
            format!("{:?} after {} callbacks: {}", r, sink.n, sink.s)
        }
        (Obj::Cff2(c), OOp::Visit { gid, tuple }) => {
            let mut sink = TextSink::default();
            let t = if *tuple == 0 { None } else { src.tuples.get(*tuple - 1) };
            let r = CFF2Outlines { table: c, tuple: t }.visit(*gid, &mut sink);
            format!("{:?} after {} callbacks: {}", r, sink.n, sink.s)
        }
        (Obj::Glyf(g), OOp::Parsed(gid)) => match g.get_parsed_glyph(*gid) {
            Ok(glyph) => format!("Ok({:?})", glyph),
            Err(e) => format!("Err({:?})", e),
        },
        (Obj::Glyf(g), OOp::Info(gid)) => match g.records().get(usize::from(*gid)) {
            None => format!("no record ({} glyphs)", g.num_glyphs()),
            Some(r) => format!("number_of_contours {} is_composite {} number_of_points {:?} of {} glyphs", r.number_of_contours(), r.is_composite(), r.number_of_points(), g.num_glyphs()),
        },
        (Obj::Glyf(g), OOp::ParseRecord(gid)) => match g.records_mut().get_mut(usize::from(*gid)) {
            None => "no record".to_string(),
            Some(r) => {
                let res = r.parse();
                let parsed = matches!(r, GlyfRecord::Parsed(_));
                format!("{:?} (parsed afterwards: {}; {})", res, parsed, match r {
                    GlyfRecord::Parsed(Glyph::Empty(_)) => "empty",
                    GlyfRecord::Parsed(Glyph::Simple(_)) => "simple",
                    GlyfRecord::Parsed(Glyph::Composite(_)) => "composite",
                    GlyfRecord::Present { .. } => "present",
                })
            }
        },
        _ => "not applicable".to_string(),
    }
}

fn run_guarded(obj: &mut Obj<'_>, src: &Src, op: &OOp) -> Option<String> {
    if src.tolerant {
        std::panic::catch_unwind(std::panic::AssertUnwindSafe(|| run(obj, src, op))).ok()
    } else {
        Some(run(obj, src, op))
    }
}

fn show(src: &Src, op: &OOp) -> String {
    match op {
        OOp::Visit { gid, tuple } => {
            if src.flavour == Flavour::Cff2 {
                let t = if *tuple == 0 { "None".to_string() } else { src.tuples.get(*tuple - 1).map(|t| format!("{:?}", t.iter().map(|x| x.raw_value()).collect::<Vec<i16>>())).unwrap_or_default() };
                format!("visit({}, tuple {})", gid, t)
            } else {
                format!("visit({})", gid)
            }
        }
        OOp::Parsed(g) => format!("get_parsed_glyph({})", g),
        OOp::Info(g) => format!("records()[{}].number_of_contours/is_composite/number_of_points", g),
        OOp::ParseRecord(g) => format!("records_mut()[{}].parse()", g),
    }
}

fn flavour_name(f: Flavour) -> &'static str {
    match f {
        Flavour::Glyf => "glyf",
        Flavour::Cff => "cff",
        Flavour::Cff2 => "cff2",
    }
}

/// `GlyfRecord::number_of_contours()` answers the raw header field while the record is `Present`
/// and -1 once a composite has been parsed: a composite stored with numberOfContours < -1 (legal:
/// "if negative, this is a composite glyph") changes its answer after any call that parses it.
pub const SIG_RAW_CONTOURS: &str = "C03:glyf-record-number-of-contours-raw-before-parse";

/// defect model: the used object's answer is the fresh object's answer with the raw negative
/// contour count replaced by -1, and nothing else differs
fn raw_contours_model(got: &str, exp: &str) -> bool {
    let raw = |s: &str| s.strip_prefix("number_of_contours ").and_then(|r| r.split(' ').next()).and_then(|n| n.parse::<i16>().ok());
    match (raw(got), raw(exp)) {
        (Some(-1), Some(a)) if a < -1 => got == exp.replacen(&format!("number_of_contours {}", a), "number_of_contours -1", 1),
        _ => false,
    }
}

/// A flag REPEAT run that runs past the last point of a simple glyph (malformed; FreeType
/// refuses the glyph, HarfBuzz clamps the run) is kept in full by `SimpleGlyph::read_dep`: the
/// parsed glyph has more coordinates than `endPtsOfContours` says, so
/// `GlyfRecord::number_of_points()` answers `last endPt + 1` while the record is `Present` and
/// the inflated count once it is `Parsed`.
pub const SIG_REPEAT_OVERSHOOT: &str = "C03:glyf-record-number-of-points-flag-repeat-overshoot";

/// my own walk over the flag array of a simple glyph record: (points per endPtsOfContours,
/// entries produced when every repeat run is kept in full)
fn flag_entries(src: &Src, gid: u16) -> Option<(usize, usize)> {
    let (o, l) = loca_span(&src.loca, src.long, usize::from(gid))?;
    let rec = src.table.get(o..o + l)?;
    let nc = rd_u16(rec, 0)?;
    if nc == 0 || nc >= 0x8000 {
        return None;
    }
    let npoints = rd_u16(rec, 10 + 2 * (nc - 1))? + 1;
    let ilen = rd_u16(rec, 10 + 2 * nc)?;
    let mut at = 12 + 2 * nc + ilen;
    let mut total = 0usize;
    while total < npoints {
        let f = *rec.get(at)?;
        at += 1;
        if f & 8 != 0 {
            total += usize::from(*rec.get(at)?) + 1;
            at += 1;
        } else {
            total += 1;
        }
    }
    Some((npoints, total))
}

/// defect model: the answers differ only in number_of_points, fresh = Ok(points), used =
/// Ok(entries with the overshooting run kept), entries > points
fn repeat_overshoot_model(src: &Src, gid: u16, got: &str, exp: &str) -> bool {
    match flag_entries(src, gid) {
        Some((points, entries)) if entries > points => {
            let a = format!("number_of_points Ok({})", points);
            let b = format!("number_of_points Ok({})", entries);
            exp.contains(&a) && got == exp.replacen(&a, &b, 1)
        }
        _ => false,
    }
}

pub fn check_case(case: &ObjCase, rec: &mut Rec) -> CaseResult {
    let src = match build_src(&case.font) {
        Ok(s) => s,
        Err(label) => {
            rec.class(&format!("skipped:{}", label));
            return Ok(());
        }
    };
    let probe = resolve(&src, &case.probe, &case.probe);
    let history: Vec<OOp> = case.history.iter().map(|s| resolve(&src, s, &case.probe)).collect();
    let sampled = if history.is_empty() { None } else { Some(pick(history.len(), case.sample)) };
    check_object(&src, &history, &probe, sampled, rec)
}

fn check_object(src: &Src, history: &[OOp], probe: &OOp, sampled: Option<usize>, rec: &mut Rec) -> CaseResult {
    rec.artefact("table", &src.table);
    if src.flavour == Flavour::Glyf {
        rec.artefact("loca", &src.loca);
    }
    rec.artefact(
        "ops",
        format!("{}\n{}\nprobe: {}", src.label, history.iter().map(|o| show(src, o)).collect::<Vec<_>>().join("\n"), show(src, probe)).as_bytes(),
    );
    let loca = match parse_loca(src) {
        Ok(l) => l,
        Err(_) => {
            rec.class("skipped:table-not-parsable");
            return Ok(());
        }
    };
    let mut used = match parse_obj(src, loca.as_ref()) {
        Ok(o) => o,
        Err(e) => {
            // damaged on purpose: nothing to ask; intact: the generators of C16 / C18 produce
            // tables their own checks insist are accepted
            if src.damaged {
                rec.class("skipped:table-not-parsable");
                return Ok(());
            }
            return Err(Fail::new("C03:harness-object-load", format!("{}: {}", src.label, e)));
        }
    };
    macro_rules! run_or_skip {
        ($obj:expr, $op:expr) => {
            match run_guarded($obj, src, $op) {
                Some(s) => s,
                None => {
                    rec.class("skipped:panic-on-damaged-table");
                    rec.class(src.class);
                    return Ok(());
                }
            }
        };
    }
    let differs = |what: &str, prefix: &[OOp], op: &OOp, got: &str, exp: &str| {
        let sig = if matches!(op, OOp::Info(_)) && raw_contours_model(got, exp) {
            SIG_RAW_CONTOURS.to_string()
        } else if matches!(op, OOp::Info(_)) && repeat_overshoot_model(src, op.gid(), got, exp) {
            SIG_REPEAT_OVERSHOOT.to_string()
        } else { format!("C03:{}-{}-differs-from-fresh-object", flavour_name(src.flavour), op.name()) };
        Fail::new(
            sig,
            format!(
                "{}: {} — after [{}] on one object the call {} returned\n  used : {}\n  fresh: {}",
                src.label,
                what,
                prefix.iter().map(|o| show(src, o)).collect::<Vec<_>>().join("; "),
                show(src, op),
                truncate(got, 1200),
                truncate(exp, 1200)
            ),
        )
    };
    let mut failed_before = false;
    let mut evals = 0u64;
    for (i, op) in history.iter().enumerate() {
        let got = run_or_skip!(&mut used, op);
        failed_before |= got.starts_with("Err");
        if sampled == Some(i) {
            let mut fresh = parse_obj(src, loca.as_ref()).map_err(|e| Fail::new("C03:harness-object-load", e))?;
            let exp = run_or_skip!(&mut fresh, op);
            evals += 1;
            if got != exp {
                return Err(differs("history call differs from the same call on a fresh object", &history[..i], op, &got, &exp));
            }
        }
    }
    let got = run_or_skip!(&mut used, probe);
    let mut fresh = parse_obj(src, loca.as_ref()).map_err(|e| Fail::new("C03:harness-object-load", e))?;
    let exp = run_or_skip!(&mut fresh, probe);
    if got != exp {
        return Err(differs("probe differs from the same call on a fresh object", history, probe, &got, &exp));
    }
    let again = run_or_skip!(&mut used, probe);
    evals += 1;
    if again != got {
        let mut h = history.to_vec();
        h.push(probe.clone());
        return Err(differs("repeating the probe on the same object changed its result", &h, probe, &again, &exp));
    }
    rec.evaluations(evals);

    // classification
    let other = history.iter().any(|h| h != probe);
    rec.set_nontrivial(other);
    rec.class(src.class);
    rec.class(&format!("object-probe:{}", probe.name()));
    rec.class_if(src.damaged, "object:damaged-data");
    let probe_err = got.starts_with("Err");
    rec.class_if(probe_err, "object-probe:error");
    rec.class_if(failed_before, "object-history:has-failed-call");
    rec.class_if(failed_before && !probe_err, "object-probe:ok-after-failed-call");
    rec.class_if(failed_before && probe_err, "object-probe:error-after-failed-call");
    rec.class_if(history.iter().any(|h| h.gid() == probe.gid() && h != probe), "object-probe:same-glyph-other-call-before");
    rec.class_if(history.iter().any(|h| h == probe), "object-probe:same-call-before");
    rec.class_if(usize::from(probe.gid()) >= src.n, "object-probe:glyph-out-of-range");
    if let OOp::Visit { tuple, .. } = probe {
        if src.flavour == Flavour::Cff2 {
            rec.class_if(history.iter().any(|h| matches!(h, OOp::Visit { tuple: t, .. } if t != tuple)), "cff2:other-tuple-before");
            rec.class_if(history.iter().any(|h| matches!(h, OOp::Visit { tuple: t, gid } if t != tuple && *gid == probe.gid())), "cff2:same-glyph-other-tuple-before");
        }
    }
    if src.flavour == Flavour::Glyf {
        rec.class_if(got.contains("Q ") || got.contains("L "), "object-probe:draws");
        rec.class_if(src.hot.contains(&probe.gid()), "object-probe:composite-or-damaged-glyph");
    }
    rec.sample(|| format!("{}: [{}] then {}", src.label, history.iter().map(|o| show(src, o)).collect::<Vec<_>>().join("; "), show(src, probe)));
    Ok(())
}

// ====================================================================== pure operations, wider
//
// Section `pure-wide`: pure operations the `pure-twice` section does not reach — a supplied Mac
// Roman cmap as subsetting target, `variations::instance` of C12's generated variable fonts at
// their generated coordinates, decoding of generated WOFF (C10) and WOFF2 (C11: transformed glyf /
// hmtx, collections) containers table by table, and the CFF / CFF2 / glyf writers on generated
// tables — each run twice from freshly parsed input with unrelated work in between, and where a
// long-lived object exists (one `Woff2Font`, one WOFF provider, one parsed CFF, one provider for
// instancing) twice on that object as well. All outputs must be byte-identical.

use crate::fontgen::container::encode_woff;
use crate::fontgen::woff2 as w2;
use crate::props::{c10, c11, c12};
use allsorts::binary::write::{WriteBinary, WriteBinaryDep, WriteBuffer};
use allsorts::font_data::FontData;
use allsorts::subset::prince::PrinceCmapTarget;
use allsorts::tables::{Fixed, FontTableProvider};

#[derive(Clone, Debug)]
pub enum WideOp {
    PrinceSuppliedCmap { font: u32, r: [u32; 8], cmap_seed: u64, convert: bool },
    InstanceGenerated { case: Box<c12::Case>, which: u32 },
    Woff2Generated { case: Box<c11::Case>, xf: u8, hm: u8, chunk: u32 },
    WoffGenerated { case: Box<c10::Case> },
    CffWrite { case: c18::Case },
    GlyfWrite { case: c16::Case, long: bool },
}

#[derive(Clone, Debug)]
pub struct WideCase {
    pub op: WideOp,
    pub between: u8,
}

pub fn wide_strategy() -> impl Strategy<Value = WideCase> {
    let op = prop_oneof![
        3 => (any::<u32>(), proptest::array::uniform8(any::<u32>()), any::<u64>(), any::<bool>()).prop_map(|(font, r, cmap_seed, convert)| WideOp::PrinceSuppliedCmap { font, r, cmap_seed, convert }),
        2 => (c12::case_strategy(), any::<u32>()).prop_map(|(c, which)| WideOp::InstanceGenerated { case: Box::new(c), which }),
        3 => (c11::case_strategy(), any::<u8>(), any::<u8>(), prop_oneof![Just(65536u32), 64u32..5000]).prop_map(|(c, xf, hm, chunk)| WideOp::Woff2Generated { case: Box::new(c), xf, hm, chunk }),
        2 => c10::case_strategy(c10::Kind::Woff).prop_map(|c| WideOp::WoffGenerated { case: Box::new(c) }),
        3 => c18_case().prop_map(|case| WideOp::CffWrite { case }),
        3 => (prop_oneof![c16::case_strategy().boxed(), c16::chain_strategy().boxed()], any::<bool>()).prop_map(|(case, long)| WideOp::GlyfWrite { case, long }),
    ];
    (op, any::<u8>()).prop_map(|(op, between)| WideCase { op, between })
}

type Out = Result<Vec<u8>, String>;

/// every table a provider serves, tags sorted (their order is not promised)
fn dump_provider(p: &impl FontTableProvider) -> Out {
    let mut tags = p.table_tags().ok_or_else(|| "no tags".to_string())?;
    tags.sort();
    let mut out = Vec::new();
    for t in tags {
        out.extend_from_slice(&t.to_be_bytes());
        match p.table_data(t) {
            Ok(Some(d)) => {
                out.extend_from_slice(&(d.len() as u32).to_be_bytes());
                out.extend_from_slice(&d);
            }
            Ok(None) => out.extend_from_slice(b"none"),
            Err(e) => out.extend_from_slice(format!("{:?}", e).as_bytes()),
        }
        out.extend_from_slice(if p.has_table(t) { b"+" } else { b"-" });
    }
    Ok(out)
}

/// the WOFF2 file of a C11 font model: glyph groups transformed per bit of `xf`, hmtx transformed
/// with the legal subset of `hm` where its group is transformed
fn encode_c11(b: &c11::Built, xf: u8, hm: u8, chunk: u32) -> (Vec<u8>, bool) {
    let mut ch = w2::Choices::new(&[xf, hm, xf ^ hm]);
    let mut st = w2::XStats::new();
    let group_xf: Vec<bool> = (0..b.groups.len()).map(|g| xf >> (g % 8) & 1 == 1).collect();
    let mut order: Vec<usize> = Vec::new();
    for (i, t) in b.dtables.iter().enumerate() {
        match t.kind {
            c11::DKind::Loca(_) => {}
            c11::DKind::Glyf(g) => {
                order.push(i);
                if let Some(l) = b.dtables.iter().position(|t| matches!(t.kind, c11::DKind::Loca(x) if x == g)) {
                    order.push(l);
                }
            }
            _ => order.push(i),
        }
    }
    let mut dir_pos = vec![0u16; b.dtables.len()];
    let mut tabs = Vec::with_capacity(order.len());
    for (pos, &i) in order.iter().enumerate() {
        dir_pos[i] = pos as u16;
        let t = &b.dtables[i];
        tabs.push(match &t.kind {
            c11::DKind::Plain => w2::EncTable::plain(t.tag, &t.data, false),
            c11::DKind::Glyf(g) if group_xf[*g] => {
                let grp = &b.groups[*g];
                let data = w2::transform_glyf(&grp.glyphs, if grp.long { 1 } else { 0 }, w2::BboxPolicy::ElideWhenEqual, None, &mut ch, &mut st);
                w2::EncTable::transformed(t.tag, 0, t.data.len() as u32, data, false)
            }
            c11::DKind::Loca(g) if group_xf[*g] => w2::EncTable::transformed(t.tag, 0, t.data.len() as u32, Vec::new(), false),
            c11::DKind::Glyf(_) | c11::DKind::Loca(_) => w2::EncTable::plain(t.tag, &t.data, false),
            c11::DKind::Hmtx { group, metrics, nhm, legal } => {
                let flags = if group.map(|g| group_xf[g]).unwrap_or(false) { hm & legal } else { 0 };
                if flags != 0 {
                    w2::EncTable::transformed(t.tag, 1, t.data.len() as u32, w2::transform_hmtx(metrics, *nhm, flags), false)
                } else {
                    w2::EncTable::plain(t.tag, &t.data, false)
                }
            }
        });
    }
    let total: usize = tabs.iter().map(|t| t.data.len()).sum();
    let opts = w2::ContainerOpts {
        brotli: w2::BrotliOpts { wbits: 16, chunks: vec![if total > 8192 { chunk.max(64) } else { chunk.max(1) }], meta_every: 0, meta_skip: 0 },
        major: 1,
        minor: 0,
        metadata: None,
        private: Vec::new(),
    };
    let any_xf = group_xf.iter().any(|x| *x);
    let bytes = if b.members.len() == 1 {
        w2::encode_woff2(b.members[0].flavour, &tabs, None, &opts, &mut ch, &mut st)
    } else {
        let fonts = b
            .members
            .iter()
            .map(|m| {
                let mut idx: Vec<u16> = m.tables.iter().map(|t| dir_pos[*t]).collect();
                idx.sort_by_key(|i| b.dtables[order[*i as usize]].tag);
                (m.flavour, idx)
            })
            .collect();
        let col = w2::EncCollection { version: 0x0001_0000, fonts };
        w2::encode_woff2(0x7474_6366, &tabs, Some(&col), &opts, &mut ch, &mut st)
    };
    (bytes, any_xf)
}

/// The prepared input of a wide operation (built once per case: building is not what is tested).
enum WideInput {
    Prince { font: usize, ids: Vec<u16>, cmap: Box<[u8; 256]>, convert: bool },
    Instance { font: Vec<u8>, user: Vec<i32> },
    Container { bytes: Vec<u8>, members: usize, class: &'static str },
    Cff { table: Vec<u8>, cff2: bool },
    Glyf { glyf: Vec<u8>, loca: Vec<u8>, long_in: bool, n: usize, long_out: bool },
}

fn prepare(op: &WideOp) -> Result<WideInput, &'static str> {
    Ok(match op {
        WideOp::PrinceSuppliedCmap { font, r, cmap_seed, convert } => {
            let pool = super::pure_fonts();
            if pool.is_empty() {
                return Err("no-fonts");
            }
            let fi = pick(pool.len(), *font);
            let ids = super::pure_ids(&pool[fi], r, r[7] % 16 != 0);
            let mut cmap = Box::new([0u8; 256]);
            for (i, c) in cmap.iter_mut().enumerate() {
                let h = mix64(*cmap_seed ^ i as u64);
                // sparse: most codes unmapped, the rest point into the new glyph ids
                *c = if h % 3 == 0 { (h >> 8) as u8 % (ids.len().max(1) as u8 + 1) } else { 0 };
            }
            WideInput::Prince { font: fi, ids, cmap, convert: *convert }
        }
        WideOp::InstanceGenerated { case, which } => {
            let (font, users) = c12::generated_font_and_users(case);
            if users.is_empty() {
                return Err("instance:no-coordinates");
            }
            let user = users[pick(users.len(), *which)].clone();
            WideInput::Instance { font, user }
        }
        WideOp::Woff2Generated { case, xf, hm, chunk } => {
            let b = c11::build(case);
            let (bytes, any_xf) = encode_c11(&b, *xf, *hm, *chunk);
            WideInput::Container { bytes, members: b.members.len(), class: if any_xf { "wide:woff2-generated:transformed" } else { "wide:woff2-generated:null-transform" } }
        }
        WideOp::WoffGenerated { case } => {
            let model = c10::build_model(case);
            if model.members.is_empty() {
                return Err("woff:no-member");
            }
            let stored = model.member_tables(0);
            let enc = encode_woff(model.members[0].flavour, &stored, &case.woff);
            WideInput::Container { bytes: enc.bytes, members: 1, class: "wide:woff-generated" }
        }
        WideOp::CffWrite { case } => WideInput::Cff { table: c18::build(case).table, cff2: case.kind == c18::Kind::Cff2 },
        WideOp::GlyfWrite { case, long } => {
            let glyphs = c16::build_glyphs(case);
            let mut records = Vec::with_capacity(glyphs.len());
            for (i, g) in glyphs.iter().enumerate() {
                records.push(encode_glyph(g, &case.enc.for_item(i)).map_err(|_| "glyf:not-encodable")?);
            }
            let (glyf, loca) = build_glyf_loca(&records, &case.layout).map_err(|_| "glyf:not-encodable")?;
            WideInput::Glyf { glyf, loca, long_in: case.layout.long_loca, n: records.len(), long_out: *long }
        }
    })
}

/// Run the operation from freshly parsed input. Result 0: the operation; further results: the
/// same operation again on the long-lived object the first one used.
fn run_wide(input: &WideInput) -> Vec<Out> {
    match input {
        WideInput::Prince { font, ids, cmap, convert } => {
            let f = &super::pure_fonts()[*font];
            let go = || -> Out {
                let fd = ReadScope::new(&f.bytes).read::<FontData<'_>>().map_err(|e| format!("{:?}", e))?;
                let prov = fd.table_provider(0).map_err(|e| format!("{:?}", e))?;
                allsorts::subset::prince::subset(&prov, ids, PrinceCmapTarget::MacRomanCmap(cmap.clone()), *convert).map_err(|e| format!("{:?}", e))
            };
            vec![go()]
        }
        WideInput::Instance { font, user } => {
            let coords: Vec<Fixed> = user.iter().map(|c| Fixed::from_raw(*c)).collect();
            let prov = match ReadScope::new(font).read::<FontData<'_>>().map_err(|e| format!("{:?}", e)).and_then(|fd| fd.table_provider(0).map_err(|e| format!("{:?}", e))) {
                Ok(p) => p,
                Err(e) => return vec![Err(e)],
            };
            let go = || -> Out {
                allsorts::variations::instance(&prov, &coords)
                    .map(|(mut b, t)| {
                        for x in t.iter() {
                            b.extend_from_slice(&x.raw_value().to_be_bytes());
                        }
                        b
                    })
                    .map_err(|e| format!("{:?}", e))
            };
            vec![go(), go()]
        }
        WideInput::Container { bytes, members, .. } => {
            let fd = match ReadScope::new(bytes).read::<FontData<'_>>() {
                Ok(fd) => fd,
                Err(e) => return vec![Err(format!("{:?}", e))],
            };
            // one container object serves every member, twice
            let pass = |fd: &FontData<'_>| -> Out {
                let mut out = Vec::new();
                for m in 0..=*members {
                    match fd.table_provider(m) {
                        Ok(p) => {
                            let d = dump_provider(&p)?;
                            out.extend_from_slice(&(d.len() as u32).to_be_bytes());
                            out.extend_from_slice(&d);
                            // and the same provider object again
                            if dump_provider(&p)? != d {
                                return Err(format!("member {}: one provider served different tables on the second request", m));
                            }
                        }
                        Err(e) => out.extend_from_slice(format!("member {}: {:?};", m, e).as_bytes()),
                    }
                }
                Ok(out)
            };
            vec![pass(&fd), pass(&fd)]
        }
        WideInput::Cff { table, cff2 } => {
            if *cff2 {
                let go = |c: CFF2<'_>| -> Out {
                    let mut w = WriteBuffer::new();
                    CFF2::write(&mut w, c).map_err(|e| format!("{:?}", e))?;
                    Ok(w.into_inner())
                };
                match ReadScope::new(table).read::<CFF2<'_>>() {
                    Ok(c) => vec![go(c.clone()), go(c)],
                    Err(e) => vec![Err(format!("{:?}", e))],
                }
            } else {
                match ReadScope::new(table).read::<CFF<'_>>() {
                    Ok(c) => {
                        let go = || -> Out {
                            let mut w = WriteBuffer::new();
                            CFF::write(&mut w, &c).map_err(|e| format!("{:?}", e))?;
                            Ok(w.into_inner())
                        };
                        vec![go(), go()]
                    }
                    Err(e) => vec![Err(format!("{:?}", e))],
                }
            }
        }
        WideInput::Glyf { glyf, loca, long_in, n, long_out } => {
            let go = || -> Out {
                let fmt = if *long_in { IndexToLocFormat::Long } else { IndexToLocFormat::Short };
                let loca = ReadScope::new(loca).read_dep::<LocaTable<'_>>((*n, fmt)).map_err(|e| format!("{:?}", e))?;
                let table = ReadScope::new(glyf).read_dep::<GlyfTable<'_>>(&loca).map_err(|e| format!("{:?}", e))?;
                let mut w = WriteBuffer::new();
                let out_fmt = if *long_out { IndexToLocFormat::Long } else { IndexToLocFormat::Short };
                let new_loca = GlyfTable::write_dep(&mut w, table, out_fmt).map_err(|e| format!("{:?}", e))?;
                let mut out = w.into_inner();
                for o in new_loca.offsets.iter() {
                    out.extend_from_slice(&o.to_be_bytes());
                }
                Ok(out)
            };
            vec![go()]
        }
    }
}

/// a sibling of the operation: same kind, same structure, different content or arguments
fn sibling(op: &WideOp) -> WideOp {
    match op {
        WideOp::PrinceSuppliedCmap { font, r, cmap_seed, convert } => WideOp::PrinceSuppliedCmap { font: *font, r: *r, cmap_seed: cmap_seed.wrapping_add(1), convert: *convert },
        WideOp::InstanceGenerated { case, which } => WideOp::InstanceGenerated { case: case.clone(), which: which.wrapping_add(0x2000_0000) },
        WideOp::Woff2Generated { case, xf, hm, chunk } => WideOp::Woff2Generated { case: case.clone(), xf: !*xf, hm: *hm ^ 3, chunk: *chunk },
        WideOp::WoffGenerated { case } => {
            let mut c = case.clone();
            for b in c.pool.iter_mut() {
                b.seed ^= 0x5a5a;
            }
            WideOp::WoffGenerated { case: c }
        }
        WideOp::CffWrite { case } => {
            let mut c = case.clone();
            c.seed = c.seed.wrapping_add(1);
            WideOp::CffWrite { case: c }
        }
        WideOp::GlyfWrite { case, long } => WideOp::GlyfWrite { case: case.clone(), long: !*long },
    }
}

fn wide_name(op: &WideOp) -> &'static str {
    match op {
        WideOp::PrinceSuppliedCmap { .. } => "prince-subset-supplied-cmap",
        WideOp::InstanceGenerated { .. } => "instance-generated-font",
        WideOp::Woff2Generated { .. } => "decode-generated-woff2",
        WideOp::WoffGenerated { .. } => "decode-generated-woff",
        WideOp::CffWrite { .. } => "cff-writer",
        WideOp::GlyfWrite { .. } => "glyf-writer",
    }
}

pub fn check_wide(c: &WideCase, rec: &mut Rec) -> CaseResult {
    let name = wide_name(&c.op);
    let input = match prepare(&c.op) {
        Ok(i) => i,
        Err(label) => {
            rec.class(&format!("skipped:wide:{}", label));
            return Ok(());
        }
    };
    match &input {
        WideInput::Container { bytes, .. } => {
            rec.artefact("file", bytes);
            rec.guard_alloc(bytes.len());
        }
        WideInput::Instance { font, .. } => rec.artefact("font", font),
        WideInput::Cff { table, .. } => rec.artefact("table", table),
        WideInput::Glyf { glyf, loca, .. } => {
            rec.artefact("glyf", glyf);
            rec.artefact("loca", loca);
        }
        WideInput::Prince { .. } => {}
    }
    let first = run_wide(&input);
    // unrelated work in between
    let mut keep: Vec<Vec<u8>> = Vec::new();
    match c.between % 4 {
        0 => {}
        1 => {
            // the same kind of operation on a sibling input (same shape and sizes, other content
            // / other arguments): whatever the first run left behind in a memo keyed too coarsely
            // is overwritten before the second run
            if let Ok(other) = prepare(&sibling(&c.op)) {
                for r in run_wide(&other) {
                    if let Ok(b) = r {
                        keep.push(b);
                    }
                }
            }
        }
        2 => {
            let pool = super::fonts();
            if !pool.is_empty() {
                let e = &pool[(c.between as usize >> 2) % pool.len()];
                if let Ok(mut font) = super::load(&e.bytes, 0) {
                    let g = font.map_glyphs("office 1/2 abc", allsorts::tag::LATN, allsorts::font::MatchingPresentation::NotRequired);
                    let _ = std::panic::catch_unwind(std::panic::AssertUnwindSafe(|| {
                        let _ = font.shape(g, allsorts::tag::LATN, None, &allsorts::gsub::Features::Mask(allsorts::gsub::FeatureMask::default()), None, true);
                    }));
                }
            }
        }
        _ => {
            for i in 0..(8 + (c.between >> 2) as usize) {
                keep.push(vec![i as u8; 100 + 37 * i]);
            }
            let mut m = std::collections::HashMap::new();
            for i in 0..64u32 {
                m.insert(i ^ c.between as u32, vec![0u8; (i % 7) as usize * 16]);
            }
            keep.push(vec![m.len() as u8]);
        }
    }
    let second = run_wide(&input);
    drop(keep);
    let describe = |r: &Out| match r {
        Ok(b) => format!("Ok({} bytes, fnv {:016x})", b.len(), crate::engine::util::fnv1a(b)),
        Err(e) => format!("Err({})", truncate(e, 300)),
    };
    let reference = &first[0];
    for (label, other) in first.iter().skip(1).map(|o| ("again on the same long-lived object", o)).chain(second.iter().enumerate().map(|(i, o)| (if i == 0 { "second run from freshly parsed input" } else { "second run, again on its long-lived object" }, o))) {
        if other != reference {
            let at = match (reference, other) {
                (Ok(a), Ok(b)) => a.iter().zip(b.iter()).position(|(x, y)| x != y).map(|p| format!(", first difference at byte {}", p)).unwrap_or_default(),
                _ => String::new(),
            };
            return Err(Fail::new(format!("C03:{}-not-deterministic", name), format!("{}: first run {} but {} {}{}", name, describe(reference), label, describe(other), at)));
        }
    }
    rec.evaluations((first.len() + second.len() - 1) as u64);
    rec.set_nontrivial(matches!(reference, Ok(b) if !b.is_empty()));
    rec.class(&format!("wide:{}", name));
    rec.class_if(reference.is_err(), &format!("wide:{}:error", name));
    if let WideInput::Container { class, members, .. } = &input {
        rec.class(class);
        rec.class_if(*members > 1, "wide:woff2-generated:collection");
    }
    if let WideInput::Cff { cff2, .. } = &input {
        rec.class(if *cff2 { "wide:cff-writer:cff2" } else { "wide:cff-writer:cff" });
    }
    rec.sample(|| format!("{} -> {}", name, describe(reference)));
    Ok(())
}
