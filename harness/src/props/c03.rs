//! C03 — results depend only on the arguments, not on earlier calls; pure operations are
//! deterministic.
//!
//! Stateful / model-based: a generated *history* of queries is executed on one `Font`, then a
//! probe query; the oracle is the same probe on a `Font` freshly loaded from the same bytes
//! (metamorphic). One sampled history op is additionally compared with its own fresh font (so
//! every prefix is a history too). Pure operations (subset, whole_font, prince::subset,
//! instance, container decoding) are run twice in one process with unrelated work in between
//! and must give byte-identical output.

use crate::engine::util::{fnv1a, pick, truncate};
use crate::engine::{fixtures, CaseResult, Ctx, Fail, Property, Rec};
use crate::fontgen::basic::BasicFont;
use crate::fontgen::fv_font::{self, FvFont, Regime};
use allsorts::binary::read::ReadScope;
use allsorts::binary::write::{WriteBinary, WriteBuffer};
use allsorts::bitmap::{BitDepth, Bitmap, BitmapGlyph, EncapsulatedFormat};
use allsorts::font::{Font, GlyphTableFlags, MatchingPresentation};
use allsorts::font_data::{DynamicFontTableProvider, FontData};
use allsorts::glyph_position::{GlyphLayout, TextDirection};
use allsorts::gsub::{FeatureInfo, FeatureMask, Features};
use allsorts::subset::prince::PrinceCmapTarget;
use allsorts::tables::os2::Os2;
use allsorts::tables::variable_fonts::avar::AvarTable;
use allsorts::tables::variable_fonts::fvar::{FvarTable, OwnedTuple};
use allsorts::tables::{Fixed, FontTableProvider};
use allsorts::tag;
use allsorts::unicode::VariationSelector;
use proptest::prelude::*;
use std::sync::OnceLock;

pub struct C03;

#[path = "c03_objects.rs"]
pub mod objects;

type F<'a> = Font<DynamicFontTableProvider<'a>>;

const SIG_DOTTED_CIRCLE: &str = "C03:dotted-circle-cache-ignores-arguments";
const SIG_TUPLE_KEY: &str = "C03:lookup-list-cache-ignores-variation-tuple";

// ------------------------------------------------------------------ font pool

pub struct FontEntry {
    pub name: String,
    pub bytes: Vec<u8>,
    pub home_scripts: Vec<u32>,
    /// scripts used when an op does not take a home script
    pub other_scripts: Vec<u32>,
    pub langs: Vec<Option<u32>>,
    /// tuple pool; choice 0 means "no tuple", choice i+1 means tuples[i]
    pub tuples: Vec<OwnedTuple>,
    pub tuple_labels: Vec<String>,
    pub num_glyphs: u16,
    /// GSUB or GPOS has a FeatureVariations table
    pub has_fv: bool,
    pub fv: Option<FvFont>,
    pub weight: u32,
    pub kind: &'static str,
    /// characters to spell texts from (generated fonts with their own glyph universe)
    pub alphabet: Vec<char>,
    /// further texts (witness strings of the generators)
    pub extra_texts: Vec<String>,
    /// feature selections naming the font's own feature tags
    pub extra_feats: Vec<FeatSel>,
    /// where the layout tables can be made non-canonical / faulted (bare sfnt fonts only)
    pub sites: Sites,
    /// non-canonical or faulted layout data: a panic is property C02's business, the case is
    /// skipped and counted
    pub tolerant: bool,
}

/// One font object under test: the entry's pools with possibly mutated bytes.
pub struct Target<'a> {
    pub e: &'a FontEntry,
    pub bytes: &'a [u8],
    pub label: String,
    pub tolerant: bool,
}

fn tag_str(t: u32) -> String {
    let b = t.to_be_bytes();
    b.iter().map(|c| if c.is_ascii_graphic() || *c == b' ' { *c as char } else { '?' }).collect()
}

fn load<'a>(bytes: &'a [u8], filter: u8) -> Result<F<'a>, String> {
    let fd = ReadScope::new(bytes).read::<FontData<'_>>().map_err(|e| format!("FontData: {:?}", e))?;
    let prov = fd.table_provider(0).map_err(|e| format!("table_provider: {:?}", e))?;
    let mut font = Font::new(prov).map_err(|e| format!("Font::new: {:?}", e))?;
    // configuration, not a query: applied identically to every font object of a case, right
    // after construction
    apply_filter(&mut font, filter);
    Ok(font)
}

/// The embedded-image filter is configuration: the fresh font of a comparison gets the filter
/// that is in force on the used font at that point (`Op::SetImageFilter` changes it mid-history).
fn apply_filter(font: &mut F<'_>, filter: u8) {
    match filter {
        0 => {}
        1 => font.set_embedded_image_filter(GlyphTableFlags::SBIX),
        2 => font.set_embedded_image_filter(GlyphTableFlags::SVG),
        3 => font.set_embedded_image_filter(GlyphTableFlags::CBDT | GlyphTableFlags::EBDT),
        4 => font.set_embedded_image_filter(GlyphTableFlags::empty()),
        5 => font.set_embedded_image_filter(GlyphTableFlags::SVG | GlyphTableFlags::SBIX | GlyphTableFlags::CBDT),
        _ => font.set_embedded_image_filter(GlyphTableFlags::all()),
    }
}

/// user-space tuples over the font's axes, normalised the documented way (fvar + avar)
fn tuple_pool(bytes: &[u8], user: Option<&[i32]>) -> (Vec<OwnedTuple>, Vec<String>) {
    let mut out = Vec::new();
    let mut labels = Vec::new();
    let fd = match ReadScope::new(bytes).read::<FontData<'_>>() {
        Ok(f) => f,
        Err(_) => return (out, labels),
    };
    let prov = match fd.table_provider(0) {
        Ok(p) => p,
        Err(_) => return (out, labels),
    };
    let fvar_data = match prov.table_data(tag::FVAR) {
        Ok(Some(d)) => d,
        _ => return (out, labels),
    };
    let fvar = match ReadScope::new(&fvar_data).read::<FvarTable<'_>>() {
        Ok(f) => f,
        Err(_) => return (out, labels),
    };
    let avar_data = prov.table_data(tag::AVAR).ok().flatten();
    let avar = avar_data.as_ref().and_then(|d| ReadScope::new(d).read::<AvarTable<'_>>().ok());
    let axes: Vec<(i32, i32, i32)> =
        fvar.axes().map(|a| (a.min_value.raw_value(), a.default_value.raw_value(), a.max_value.raw_value())).collect();
    if axes.is_empty() {
        return (out, labels);
    }
    let mut users: Vec<Vec<i32>> = Vec::new();
    match user {
        Some(vals) => {
            for v in vals {
                users.push(vec![*v]);
            }
        }
        None => {
            let mid = |a: i32, b: i32| ((a as i64 + b as i64) / 2) as i32;
            users.push(axes.iter().map(|a| a.1).collect());
            users.push(axes.iter().map(|a| a.0).collect());
            users.push(axes.iter().map(|a| a.2).collect());
            users.push(axes.iter().map(|a| mid(a.0, a.1)).collect());
            users.push(axes.iter().map(|a| mid(a.1, a.2)).collect());
            users.push(axes.iter().enumerate().map(|(i, a)| if i == 0 { a.2 } else { a.0 }).collect());
        }
    }
    for u in users {
        if let Ok(t) = fvar.normalize(u.iter().map(|v| Fixed::from_raw(*v)), avar.as_ref()) {
            labels.push(format!("{:?}", t.iter().map(|x| x.raw_value()).collect::<Vec<i16>>()));
            out.push(t);
        }
    }
    (out, labels)
}

/// normalise the given user-space tuples (raw 16.16 per axis) with the font's fvar / avar
fn tuple_pool_users(bytes: &[u8], users: &[Vec<i32>]) -> (Vec<OwnedTuple>, Vec<String>) {
    let mut out = Vec::new();
    let mut labels = Vec::new();
    let fd = match ReadScope::new(bytes).read::<FontData<'_>>() {
        Ok(f) => f,
        Err(_) => return (out, labels),
    };
    let prov = match fd.table_provider(0) {
        Ok(p) => p,
        Err(_) => return (out, labels),
    };
    let fvar_data = match prov.table_data(tag::FVAR) {
        Ok(Some(d)) => d,
        _ => return (out, labels),
    };
    if let Ok(fvar) = ReadScope::new(&fvar_data).read::<FvarTable<'_>>() {
        for u in users {
            if let Ok(t) = fvar.normalize(u.iter().map(|v| Fixed::from_raw(*v)), None) {
                labels.push(format!("{:?}", t.iter().map(|x| x.raw_value()).collect::<Vec<i16>>()));
                out.push(t);
            }
        }
    }
    (out, labels)
}

fn make_entry(name: &str, bytes: Vec<u8>, home: &[u32], weight: u32, kind: &'static str, fv: Option<FvFont>) -> Option<FontEntry> {
    let (num_glyphs, has_fv, langs) = {
        let mut font = load(&bytes, 0).ok()?;
        let mut has_fv = false;
        let mut lang_tags: Vec<u32> = Vec::new();
        if let Ok(Some(c)) = font.gsub_cache() {
            has_fv |= c.layout_table.opt_feature_variations.is_some();
            if let Some(sl) = &c.layout_table.opt_script_list {
                for s in sl.script_records() {
                    for l in s.script_table().langsys_records() {
                        if !lang_tags.contains(&l.langsys_tag) {
                            lang_tags.push(l.langsys_tag);
                        }
                    }
                }
            }
        }
        if let Ok(Some(c)) = font.gpos_cache() {
            has_fv |= c.layout_table.opt_feature_variations.is_some();
        }
        lang_tags.sort();
        lang_tags.truncate(4);
        let mut langs: Vec<Option<u32>> = vec![None, Some(tag::from_string("ENG ").unwrap_or(0))];
        for l in lang_tags {
            if !langs.contains(&Some(l)) {
                langs.push(Some(l));
            }
        }
        let trk = Some(tag::from_string("TRK ").unwrap_or(0));
        if !langs.contains(&trk) {
            langs.push(trk);
        }
        (font.num_glyphs(), has_fv, langs)
    };
    let sites = layout_sites(&bytes);
    let user: Option<Vec<i32>> = fv.as_ref().map(|_| [400, 100, 900, 250, 650, 325, 525, 475].iter().map(|v: &i32| v << 16).collect());
    let (tuples, tuple_labels) = tuple_pool(&bytes, user.as_deref());
    Some(FontEntry {
        name: name.to_string(),
        bytes,
        home_scripts: home.to_vec(),
        // The syllable-based shapers (Indic, Khmer, Myanmar) panic on glyphs already substituted
        // by `rvrn` (GlyphOrigin::Direct, src/scripts/mod.rs:57; property C02's business): keep
        // them away from the generated font, whose `rvrn` lookups fire on plain letters.
        other_scripts: if fv.is_some() {
            vec![tag::LATN, tag::CYRL, tag::DFLT, tag::THAI, tag::GREK, tag::ARAB, tag::SYRC, tag::LAO]
        } else {
            SCRIPTS.to_vec()
        },
        langs,
        tuples,
        tuple_labels,
        num_glyphs,
        has_fv,
        fv,
        weight,
        kind,
        alphabet: Vec::new(),
        extra_texts: Vec::new(),
        extra_feats: Vec::new(),
        sites,
        tolerant: false,
    })
}

const NC_FONTS: u64 = 48;

/// feature selections over a font's own feature tags: everything as a custom list, everything
/// as a mask, and two halves as custom lists
fn own_feature_selections(tags: &[[u8; 4]]) -> Vec<FeatSel> {
    let mut t: Vec<u32> = tags.iter().map(|x| u32::from_be_bytes(*x)).collect();
    t.sort();
    t.dedup();
    if t.is_empty() {
        return Vec::new();
    }
    let mask = t.iter().fold(FeatureMask::empty(), |m, x| m | FeatureMask::from_tag(*x));
    let all: Vec<(u32, Option<usize>)> = t.iter().map(|x| (*x, None)).collect();
    let mut out = vec![FeatSel::Custom(all.clone()), FeatSel::Mask((FeatureMask::default() | mask).bits())];
    if t.len() >= 2 {
        out.push(FeatSel::Custom(all[..t.len() / 2].to_vec()));
        out.push(FeatSel::Custom(all[t.len() / 2..].iter().rev().cloned().collect()));
        out.push(FeatSel::Custom(vec![(t[0], Some(1)), (t[t.len() - 1], None)]));
    }
    out
}

pub fn fonts() -> &'static Vec<FontEntry> {
    static FONTS: OnceLock<Vec<FontEntry>> = OnceLock::new();
    FONTS.get_or_init(|| {
        let mut v = Vec::new();
        for variant in 0..fv_font::VARIANTS {
            let m = FvFont::new(variant);
            let bytes = m.build();
            if let Some(e) = make_entry(&format!("generated:fv-font-{}", variant), bytes, &[tag::LATN, tag::CYRL, tag::DFLT, tag::THAI], 6, "fv-generated", Some(m)) {
                v.push(e);
            }
        }
        // fonts with non-canonical but accepted layout encodings (no model: metamorphic only)
        for seed in 0..NC_FONTS {
            let nc = fv_font::NcFont::new(seed);
            let mut tags = nc.gsub_feature_tags.clone();
            tags.extend(nc.gpos_feature_tags.iter().cloned());
            if let Some(mut e) = make_entry(&format!("generated:noncanonical-{}", seed), nc.bytes, &[tag::LATN, tag::CYRL, tag::DFLT], 2, "noncanonical-generated", None) {
                e.alphabet = fv_font::nc_alphabet();
                e.other_scripts = vec![tag::LATN, tag::CYRL, tag::DFLT, tag::GREK, tag::THAI, tag::ARAB];
                e.extra_feats = own_feature_selections(&tags);
                e.tolerant = true;
                v.push(e);
            }
        }
        // a complete font whose optional tables are all unreadable: every lazy slot of Font
        // takes its error path (errors must be reported the same way on every call)
        {
            let mut f = BasicFont::with_glyphs(30);
            for i in 0..26u32 {
                f.cmap.insert('a' as u32 + i, (i + 1) as u16);
            }
            f.cmap.insert(0x25CC, 28);
            f.extra.push((*b"GDEF", vec![0, 1, 0, 0, 0xFF, 0xFF, 0, 0, 0, 0, 0, 0]));
            f.extra.push((*b"GPOS", vec![0, 1, 0, 0, 0]));
            f.extra.push((*b"GSUB", vec![0, 1, 0, 0, 0, 10, 0xFF, 0xF0, 0, 0]));
            f.extra.push((*b"kern", vec![0, 0, 0, 1, 0, 0]));
            f.extra.push((*b"vhea", vec![0, 1, 0, 0, 1]));
            f.extra.push((*b"vmtx", vec![0, 1]));
            f.extra.push((*b"SVG ", vec![0, 0, 0, 0, 0xFF]));
            if let Some(e) = make_entry("generated:broken-optional-tables", f.build(), &[tag::LATN], 3, "broken-tables", None) {
                v.push(e);
            }
        }
        let fx: &[(&str, &[u32], u32, &'static str)] = &[
            ("fonts/opentype/Klei.otf", &[tag::LATN], 6, "latin"),
            ("fonts/opentype/OpenSans-Regular.ttf", &[tag::LATN, tag::CYRL, tag::GREK], 6, "latin"),
            ("fonts/noto/NotoNaskhArabic-Regular.ttf", &[tag::ARAB], 5, "arabic"),
            ("fonts/arabic/amiri-regular.ttf", &[tag::ARAB, tag::LATN], 2, "arabic"),
            ("fonts/noto/NotoSansDevanagari-Regular.ttf", &[tag::DEVA], 5, "devanagari"),
            ("fonts/devanagari/lohit_hi.ttf", &[tag::DEVA], 2, "devanagari"),
            ("fonts/khmer/Battambang-Regular.ttf", &[tag::KHMR], 4, "khmer"),
            ("fonts/myanmar/Padauk-Regular.ttf", &[tag::MYMR], 4, "myanmar"),
            ("fonts/noto/NotoSansThai-Regular.ttf", &[tag::THAI], 4, "thai"),
            ("fonts/variable/Inter[slnt,wght].abc.ttf", &[tag::LATN], 4, "variable"),
            ("fonts/variable/Zycon.ttf", &[tag::LATN], 3, "variable"),
            ("fonts/variable/UnderlineTest-VF.ttf", &[tag::LATN], 2, "variable"),
            ("fonts/opentype/NotoSans-VF.abc.ttf", &[tag::LATN], 3, "variable"),
            ("fonts/opentype/cff2/SourceSansVariable-Roman.abc.otf", &[tag::LATN], 3, "variable"),
            ("fonts/sbix/sbix-dupe.ttf", &[tag::LATN], 4, "images"),
            ("fonts/svg/gzipped.ttf", &[tag::LATN], 4, "images"),
            ("fonts/woff1/chromacheck-sbix.woff", &[tag::LATN], 3, "images"),
            ("fonts/woff2/SFNT-TTF-Composite.woff2", &[tag::LATN], 3, "woff2"),
            ("fonts/opentype/SymbolTest-Regular.ttf", &[tag::LATN], 3, "symbol"),
            ("fonts/opentype/test-font.ttf", &[tag::LATN], 1, "latin"),
            ("fonts/opentype/TerminusTTF-4.47.0.ttf", &[tag::LATN, tag::CYRL], 2, "images"),
        ];
        for (p, home, w, kind) in fx {
            if let Some(b) = fixtures::read(p) {
                if let Some(e) = make_entry(p, b, home, *w, kind, None) {
                    v.push(e);
                }
            }
        }
        // fonts with SEVERAL image tables (the filter then decides which table answers): a base fixture with
        // the image tables of other fixtures added
        {
            use crate::fontgen::sfnt::{build_sfnt, find_table};
            use crate::props::c01::faults::sfnt_tables;
            let combos: &[(&str, &str, &[(&str, &[u8; 4])])] = &[
                ("generated:images-sbix+svg", "fonts/sbix/sbix-dupe.ttf", &[("fonts/svg/gzipped.ttf", b"SVG ")]),
                ("generated:images-sbix+svg+ebdt", "fonts/sbix/sbix-dupe.ttf", &[("fonts/svg/gzipped.ttf", b"SVG "), ("fonts/opentype/TerminusTTF-4.47.0.ttf", b"EBLC"), ("fonts/opentype/TerminusTTF-4.47.0.ttf", b"EBDT")]),
                ("generated:images-ebdt+svg", "fonts/opentype/TerminusTTF-4.47.0.ttf", &[("fonts/svg/gzipped.ttf", b"SVG ")]),
                ("generated:images-svg+ebdt", "fonts/svg/gzipped.ttf", &[("fonts/opentype/TerminusTTF-4.47.0.ttf", b"EBLC"), ("fonts/opentype/TerminusTTF-4.47.0.ttf", b"EBDT")]),
            ];
            for (name, base, adds) in combos {
                let made = (|| -> Option<Vec<u8>> {
                    let (flavour, mut tabs) = sfnt_tables(&fixtures::read(base)?)?;
                    for (src, t) in adds.iter() {
                        let data = find_table(&fixtures::read(src)?, t)?.to_vec();
                        tabs.retain(|(x, _)| x != *t);
                        tabs.push((**t, data));
                    }
                    Some(build_sfnt(flavour, &tabs))
                })();
                if let Some(bytes) = made {
                    if let Some(e) = make_entry(name, bytes, &[tag::LATN], 4, "images", None) {
                        v.push(e);
                    }
                }
            }
        }
        v
    })
}

fn pick_weighted(r: u32, weights: &[u32]) -> usize {
    let total: u64 = weights.iter().map(|w| *w as u64).sum();
    if total == 0 {
        return 0;
    }
    let mut x = (r as u64 * total) >> 32;
    for (i, w) in weights.iter().enumerate() {
        if x < *w as u64 {
            return i;
        }
        x -= *w as u64;
    }
    weights.len() - 1
}

// ------------------------------------------------------------------ argument pools

const SCRIPTS: &[u32] = &[
    tag::LATN, tag::ARAB, tag::DEVA, tag::KHMR, tag::MYMR, tag::THAI, tag::CYRL, tag::DFLT, tag::DEV2, tag::SYRC, tag::LAO, tag::BENG,
    tag::TAML, tag::GREK,
];

/// well-formed words / simple strings per script
const TEXTS: &[(u32, &[&str])] = &[
    (
        tag::LATN,
        &[
            "abcdefgh", "Shaping in a jiffy.", "office affine", "AVATAR Wave To.", "1/2 and 3/4", "fi fl ffi", "badge cafe", "hgfedcba 0/1",
            "a\u{0301}e\u{0308}", "abc", "\u{25CC}", "a\u{25CC}\u{FE0F}b", "\u{25CC}\u{FE0E}", "\u{25CC}\u{0301}x", "\u{263A}\u{FE0F}a", "",
            "ab cd ef gh", "A",
        ],
    ),
    (tag::CYRL, &["Привет", "мир", "abcd"]),
    (tag::GREK, &["αβγ", "λόγος"]),
    (tag::ARAB, &["السلام عليكم", "بِسْمِ ٱللَّهِ", "محمد", "لا إله", "كتاب", "\u{25CC}\u{064E}", "ﷲ"]),
    (tag::SYRC, &["ܫܠܡܐ", "ܐܒܓ"]),
    (tag::DEVA, &["हिन्दी", "क्षत्रिय", "कर्म", "श्री", "ि", "प्रार्थना", "\u{25CC}\u{093F}", "किताब"]),
    (tag::BENG, &["বাংলা", "ক্ষ"]),
    (tag::TAML, &["தமிழ்", "கொ"]),
    (tag::KHMR, &["ភាសាខ្មែរ", "ស្រុក", "កម្ពុជា", "្ក", "កេ"]),
    (tag::MYMR, &["မြန်မာ", "ကျွန်ုပ်", "ဘာသာ", "ြ", "ကို"]),
    (tag::THAI, &["ภาษาไทย", "น้ำ", "กำ", "ที่", "abcdef"]),
    (tag::LAO, &["ພາສາລາວ", "ນ້ຳ"]),
    // pools used by the `script-histories` section only (these scripts are in no other pool)
    (tag::GUJR, &["ગુજરાતી", "ક્ષ", "કિ", "પ્રાર્થના", "\u{25CC}\u{0ABF}"]),
    (tag::MLYM, &["മലയാളം", "ക്ഷ", "കൊ", "ന്റെ", "\u{25CC}\u{0D3F}"]),
    (tag::TELU, &["తెలుగు", "క్ష", "కొ", "స్త్రీ"]),
    (tag::KNDA, &["ಕನ್ನಡ", "ಕ್ಷ", "ಕೊ"]),
    (tag::SINH, &["සිංහල", "ක්‍ෂ", "කො", "ශ්‍රී"]),
];

fn texts_for(script: u32) -> &'static [&'static str] {
    let s = match script {
        tag::DFLT => tag::LATN,
        tag::DEV2 => tag::DEVA,
        x => x,
    };
    TEXTS.iter().find(|t| t.0 == s).map(|t| t.1).unwrap_or(TEXTS[0].1)
}

#[derive(Clone, Debug, PartialEq)]
pub enum FeatSel {
    Mask(u64),
    Custom(Vec<(u32, Option<usize>)>),
}

impl FeatSel {
    fn to_features(&self) -> Features {
        match self {
            FeatSel::Mask(m) => Features::Mask(FeatureMask::from_bits_truncate(*m)),
            FeatSel::Custom(l) => Features::Custom(l.iter().map(|(t, a)| FeatureInfo { feature_tag: *t, alternate: *a }).collect()),
        }
    }
}

fn feature_pool() -> Vec<FeatSel> {
    let d = FeatureMask::default().bits();
    vec![
        FeatSel::Mask(d),
        FeatSel::Mask(0),
        FeatSel::Mask(d | FeatureMask::SMCP.bits()),
        FeatSel::Mask(d | FeatureMask::FRAC.bits()),
        FeatSel::Mask(FeatureMask::LIGA.bits()),
        FeatSel::Mask(FeatureMask::CALT.bits()),
        FeatSel::Mask(d | FeatureMask::ONUM.bits() | FeatureMask::C2SC.bits()),
        FeatSel::Mask(FeatureMask::all().bits()),
        FeatSel::Mask(d | FeatureMask::RVRN.bits()),
        FeatSel::Custom(vec![(tag::LIGA, None)]),
        FeatSel::Custom(vec![(tag::CALT, None), (tag::LIGA, None)]),
        FeatSel::Custom(vec![(tag::RVRN, None), (tag::CALT, None), (tag::SMCP, None)]),
        FeatSel::Custom(vec![]),
        FeatSel::Custom(vec![(tag::SMCP, None), (tag::KERN, None)]),
        FeatSel::Custom(vec![(u32::from_be_bytes(*b"salt"), Some(1)), (tag::LIGA, None)]),
        FeatSel::Custom(vec![(tag::FINA, None), (tag::INIT, None)]),
    ]
}

const CHARS: &[char] = &['\u{25CC}', 'a', 'A', ' ', 'ك', 'क', '\u{263A}', '\u{1F600}', '\u{F020}', 'é', '\u{F041}', '0'];
const PPEMS: &[u16] = &[100, 0, 16, 20, 128, 300, 65535];
const DEPTHS: &[BitDepth] = &[BitDepth::ThirtyTwo, BitDepth::One, BitDepth::Two, BitDepth::Four, BitDepth::Eight];

// ------------------------------------------------------------------ ops

#[derive(Clone, Debug, PartialEq)]
pub struct ShapeArgs {
    pub text: String,
    pub script: u32,
    pub required: bool,
    pub lang: Option<u32>,
    pub feat: FeatSel,
    /// 0 = None, i+1 = entry.tuples[i]
    pub tuple: usize,
    pub kerning: bool,
}

#[derive(Clone, Debug, PartialEq)]
pub enum Op {
    MapGlyphs { text: String, script: u32, required: bool },
    Shape(ShapeArgs),
    Positions { args: ShapeArgs, rtl: bool, vertical: bool },
    LookupGlyph { ch: char, required: bool, vs: u8 },
    HAdvance(u16),
    VAdvance(u16),
    GlyphNames(Vec<u16>),
    LookupImage { gid: u16, ppem: u16, depth: usize },
    HasImages,
    Os2,
    Axes,
    Tables,
    /// reconfiguration in the middle of a history (`set_embedded_image_filter`): not a query;
    /// from here on the fresh font of every comparison is configured with this filter
    SetImageFilter(u8),
}

/// kind numbers used by the generator
const K_MAP: u8 = 0;
const K_SHAPE: u8 = 1;
const K_POS: u8 = 2;
const K_LOOKUP: u8 = 3;
const K_HADV: u8 = 4;
const K_VADV: u8 = 5;
const K_NAMES: u8 = 6;
const K_IMAGE: u8 = 7;
const K_HASIMG: u8 = 8;
const K_OS2: u8 = 9;
const K_AXES: u8 = 10;
const K_TABLES: u8 = 11;
const K_SETFILTER: u8 = 12;
const K_SAME: u8 = 255;

#[derive(Clone, Debug)]
pub struct OpSpec {
    pub kind: u8,
    pub r: [u32; 7],
    pub flags: u8,
    /// history ops of the probe's kind: bit i set = take r[i] from the probe (bit 7: flags), so
    /// that arguments collide with the probe's on some components and differ on others
    pub copy: u8,
}

#[derive(Clone, Debug)]
pub struct Case {
    pub font: u32,
    pub filter: u8,
    pub history: Vec<OpSpec>,
    pub probe: OpSpec,
    pub sample: u32,
    /// make the layout tables non-canonical / faulted before loading (bare sfnt fonts)
    pub mutation: Option<Mutation>,
}

fn pres(required: bool) -> MatchingPresentation {
    if required {
        MatchingPresentation::Required
    } else {
        MatchingPresentation::NotRequired
    }
}

fn vs_of(v: u8) -> Option<VariationSelector> {
    match v {
        1 => Some(VariationSelector::VS16),
        2 => Some(VariationSelector::VS15),
        3 => Some(VariationSelector::VS01),
        _ => None,
    }
}

fn gid_pool(e: &FontEntry, r: u32) -> u16 {
    let n = e.num_glyphs;
    let fixed = [0u16, 1, 2, n.saturating_sub(1), n, 0xFFFF, n / 2, 3];
    let i = pick(12, r);
    if i < fixed.len() {
        fixed[i]
    } else {
        // spread over the glyph range
        ((r as u64 * 2654435761u64 >> 7) % (n.max(1) as u64)) as u16
    }
}

fn resolve_shape(e: &FontEntry, s: &OpSpec) -> ShapeArgs {
    // script: 65 % a home script of the font
    let script = if s.flags & 0b11 != 0 { e.home_scripts[pick(e.home_scripts.len(), s.r[0])] } else { e.other_scripts[pick(e.other_scripts.len(), s.r[0])] };
    // text: 75 % from the pool of that script, else from the pool of a home script
    let pool = if s.flags & 0b1100 != 0 { texts_for(script) } else { texts_for(e.home_scripts[0]) };
    let text = if !e.alphabet.is_empty() && s.r[1] % 16 != 0 {
        if !e.extra_texts.is_empty() && s.r[1] % 4 == 1 {
            e.extra_texts[pick(e.extra_texts.len(), s.r[1])].clone()
        } else {
            synth_text(&e.alphabet, s.r[1])
        }
    } else {
        pool[pick(pool.len(), s.r[1])].to_string()
    };
    let mut feats = feature_pool();
    // the font's own feature tags first (twice: they are the productive ones)
    if !e.extra_feats.is_empty() {
        let mut v = e.extra_feats.clone();
        v.extend(e.extra_feats.iter().cloned());
        v.extend(feats);
        feats = v;
    }
    ShapeArgs {
        text,
        script,
        required: s.flags & 0b1_0000 != 0 && s.flags & 0b10_0000 != 0,
        lang: e.langs[pick(e.langs.len(), s.r[2])],
        feat: feats[pick(feats.len(), s.r[3])].clone(),
        tuple: pick(e.tuples.len() + 1, s.r[4]),
        kerning: s.flags & 0b100_0000 == 0,
    }
}

/// A text over a few letters of the font's own alphabet, alternating between them: glyphs
/// served by different ranges / subtables follow each other, which exposes per-object cursors.
fn synth_text(alphabet: &[char], r: u32) -> String {
    let mut rng = fv_font::NcRng(r as u64 ^ 0x7e57);
    let k = 2 + rng.below(3);
    let letters: Vec<char> = (0..k).map(|_| alphabet[rng.below(alphabet.len())]).collect();
    let len = 1 + rng.below(10);
    (0..len).map(|_| letters[rng.below(letters.len())]).collect()
}

/// History ops of the probe's kind, one time in four: same script / language / tuple as the probe
/// and a feature selection that differs from the probe's in exactly one mask bit (or one Custom
/// entry) — selections whose lookup lists are related (frac and its complement, rvrn, ...) are
/// where a cache derived from another cache entry would show.
fn neighbour_features(e: &FontEntry, s: &OpSpec, probe: &OpSpec, mut a: ShapeArgs) -> ShapeArgs {
    if s.kind != K_SAME || s.r[6] % 4 != 0 || !matches!(probe.kind, K_SAME | K_SHAPE | K_POS | K_MAP) {
        return a;
    }
    let p = resolve_shape(e, probe);
    const BITS: [FeatureMask; 8] = [
        FeatureMask::FRAC,
        FeatureMask::FRAC,
        FeatureMask::FRAC,
        FeatureMask::AFRC,
        FeatureMask::RVRN,
        FeatureMask::CALT,
        FeatureMask::LIGA,
        FeatureMask::SMCP,
    ];
    a.feat = match &p.feat {
        FeatSel::Mask(m) => FeatSel::Mask(*m ^ BITS[pick(BITS.len(), (s.r[6] / 4).wrapping_mul(2654435761))].bits()),
        FeatSel::Custom(l) => {
            let mut l = l.clone();
            if l.is_empty() || s.r[6] & 4 == 0 {
                l.push((u32::from_be_bytes(*b"frac"), None));
            } else {
                l.pop();
            }
            FeatSel::Custom(l)
        }
    };
    a.script = p.script;
    a.lang = p.lang;
    a.tuple = p.tuple;
    a
}

fn resolve(e: &FontEntry, s: &OpSpec, probe: &OpSpec) -> Op {
    let probe_kind = if probe.kind == K_SAME { K_SHAPE } else { probe.kind };
    let kind = if s.kind == K_SAME { probe_kind } else { s.kind };
    let mut merged = s.clone();
    if s.kind == K_SAME {
        for i in 0..7 {
            if s.copy >> i & 1 == 1 {
                merged.r[i] = probe.r[i];
            }
        }
        if s.copy >> 7 & 1 == 1 {
            merged.flags = probe.flags;
        }
    }
    let s = &merged;
    match kind {
        K_MAP => {
            let a = resolve_shape(e, s);
            Op::MapGlyphs { text: a.text, script: a.script, required: s.flags & 0b1_0000 != 0 }
        }
        K_SHAPE => Op::Shape(neighbour_features(e, s, probe, resolve_shape(e, s))),
        K_POS => Op::Positions { args: neighbour_features(e, s, probe, resolve_shape(e, s)), rtl: s.r[5] & 1 == 1, vertical: s.r[5] & 6 == 6 },
        K_LOOKUP => {
            // biased to DOTTED CIRCLE
            let ch = if s.flags & 1 == 1 { '\u{25CC}' } else { CHARS[pick(CHARS.len(), s.r[0])] };
            Op::LookupGlyph { ch, required: s.flags & 2 == 2, vs: pick(4, s.r[1]) as u8 }
        }
        K_HADV => Op::HAdvance(gid_pool(e, s.r[0])),
        K_VADV => Op::VAdvance(gid_pool(e, s.r[0])),
        K_NAMES => {
            let n = pick(6, s.r[0]);
            Op::GlyphNames((0..n).map(|i| gid_pool(e, s.r[1 + i])).collect())
        }
        K_IMAGE => Op::LookupImage { gid: gid_pool(e, s.r[0]), ppem: PPEMS[pick(PPEMS.len(), s.r[1])], depth: pick(DEPTHS.len(), s.r[2]) },
        K_HASIMG => Op::HasImages,
        K_OS2 => Op::Os2,
        K_AXES => Op::Axes,
        K_SETFILTER => Op::SetImageFilter(1 + pick(6, s.r[0]) as u8),
        _ => Op::Tables,
    }
}

fn render_bitmap(r: Result<Option<BitmapGlyph>, allsorts::error::ParseError>) -> String {
    match r {
        Err(e) => format!("Err({:?})", e),
        Ok(None) => "Ok(None)".to_string(),
        Ok(Some(g)) => {
            let bm = match &g.bitmap {
                Bitmap::Embedded(b) => {
                    format!("Embedded {}x{} {:?} len {} fnv {:016x}", b.width, b.height, b.format, b.data.len(), fnv1a(&b.data))
                }
                Bitmap::Encapsulated(b) => {
                    let f = match b.format {
                        EncapsulatedFormat::Jpeg => "jpeg".to_string(),
                        EncapsulatedFormat::Png => "png".to_string(),
                        EncapsulatedFormat::Tiff => "tiff".to_string(),
                        EncapsulatedFormat::Svg => "svg".to_string(),
                        EncapsulatedFormat::Other(t) => format!("other({:08x})", t),
                    };
                    format!("Encapsulated {} len {} fnv {:016x}", f, b.data.len(), fnv1a(&b.data))
                }
            };
            format!("Ok(Some(ppem {:?}x{:?} metrics {:?} {}))", g.ppem_x, g.ppem_y, g.metrics, bm)
        }
    }
}

fn tuple_of<'a>(e: &'a FontEntry, choice: usize) -> Option<allsorts::tables::variable_fonts::fvar::Tuple<'a>> {
    if choice == 0 {
        None
    } else {
        e.tuples.get(choice - 1).map(|t| t.as_tuple())
    }
}

fn do_shape(font: &mut F<'_>, e: &FontEntry, a: &ShapeArgs) -> (String, Vec<allsorts::gpos::Info>) {
    let glyphs = font.map_glyphs(&a.text, a.script, pres(a.required));
    let feats = a.feat.to_features();
    match font.shape(glyphs, a.script, a.lang, &feats, tuple_of(e, a.tuple), a.kerning) {
        Ok(infos) => (format!("Ok({:?})", infos), infos),
        Err((err, infos)) => (format!("Err({:?}, {:?})", err, infos), infos),
    }
}

/// Execute `op` on `font` and render the result canonically.
fn run(font: &mut F<'_>, e: &FontEntry, op: &Op) -> String {
    match op {
        Op::MapGlyphs { text, script, required } => format!("{:?}", font.map_glyphs(text, *script, pres(*required))),
        Op::Shape(a) => do_shape(font, e, a).0,
        Op::Positions { args, rtl, vertical } => {
            let (s, infos) = do_shape(font, e, args);
            let dir = if *rtl { TextDirection::RightToLeft } else { TextDirection::LeftToRight };
            let pos = GlyphLayout::new(font, &infos, dir, *vertical).glyph_positions();
            format!("{:?} / shape {:016x}", pos, fnv1a(s.as_bytes()))
        }
        Op::LookupGlyph { ch, required, vs } => format!("{:?}", font.lookup_glyph_index(*ch, pres(*required), vs_of(*vs))),
        Op::HAdvance(g) => format!("{:?}", font.horizontal_advance(*g)),
        Op::VAdvance(g) => format!("{:?}", font.vertical_advance(*g)),
        Op::GlyphNames(ids) => format!("{:?}", font.glyph_names(ids)),
        Op::LookupImage { gid, ppem, depth } => render_bitmap(font.lookup_glyph_image(*gid, *ppem, DEPTHS[*depth])),
        Op::HasImages => format!("images {} outlines {}", font.has_embedded_images(), font.has_glyph_outlines()),
        Op::Os2 => match font.os2_table() {
            Err(e) => format!("Err({:?})", e),
            Ok(None) => "Ok(None)".to_string(),
            Ok(Some(t)) => {
                let mut w = WriteBuffer::new();
                match Os2::write(&mut w, &t) {
                    Ok(()) => format!("Ok(Some({}))", hex::encode(w.into_inner())),
                    Err(e) => format!("Ok(Some(unwritable {:?} v{} first {} last {}))", e, t.version, t.us_first_char_index, t.us_last_char_index),
                }
            }
        },
        Op::Axes => format!("variable {} axes {:?} names {:?}", font.is_variable(), font.variation_axes(), font.axis_names()),
        Op::Tables => {
            let gdef = font.gdef_table().map(|o| o.is_some());
            let gsub = font.gsub_cache().map(|o| o.is_some());
            let gpos = font.gpos_cache().map(|o| o.is_some());
            let kern = font.kern_table().map(|o| o.is_some());
            let morx = font.morx_table().map(|o| o.is_some());
            let vhea = font.vhea_table();
            format!(
                "n {} gdef {:?} gsub {:?} gpos {:?} kern {:?} morx {:?} vhea {:?} flags {:?} enc {:?} head {:?} hhea {:?} maxp {:?}",
                font.num_glyphs(),
                gdef,
                gsub,
                gpos,
                kern,
                morx,
                vhea,
                font.glyph_table_flags.bits(),
                font.cmap_subtable_encoding,
                font.head_table,
                font.hhea_table,
                font.maxp_table
            )
        }
        Op::SetImageFilter(k) => {
            apply_filter(font, *k);
            "filter set".to_string()
        }
    }
}

/// Only the character-mapping part of an op (what can touch the DOTTED CIRCLE glyph cache).
fn replay_mapping(font: &mut F<'_>, op: &Op) {
    match op {
        Op::MapGlyphs { text, script, required } => {
            font.map_glyphs(text, *script, pres(*required));
        }
        Op::Shape(a) | Op::Positions { args: a, .. } => {
            font.map_glyphs(&a.text, a.script, pres(a.required));
            font.lookup_glyph_index('\u{25CC}', MatchingPresentation::NotRequired, None);
        }
        Op::LookupGlyph { ch, required, vs } => {
            font.lookup_glyph_index(*ch, pres(*required), vs_of(*vs));
        }
        _ => {}
    }
}

fn show_op(e: &FontEntry, op: &Op) -> String {
    let sa = |a: &ShapeArgs| {
        let feat = match &a.feat {
            FeatSel::Mask(m) => format!("Mask({:?})", FeatureMask::from_bits_truncate(*m)),
            FeatSel::Custom(l) => format!(
                "Custom[{}]",
                l.iter().map(|(t, alt)| if let Some(x) = alt { format!("{}={}", tag_str(*t), x) } else { tag_str(*t) }).collect::<Vec<_>>().join(",")
            ),
        };
        format!(
            "{:?} script {} pres {} lang {} features {} tuple {} kerning {}",
            a.text,
            tag_str(a.script),
            if a.required { "Required" } else { "NotRequired" },
            a.lang.map(tag_str).unwrap_or_else(|| "None".into()),
            feat,
            if a.tuple == 0 { "None".to_string() } else { e.tuple_labels.get(a.tuple - 1).cloned().unwrap_or_default() },
            a.kerning
        )
    };
    match op {
        Op::MapGlyphs { text, script, required } => format!("map_glyphs({:?}, {}, {})", text, tag_str(*script), if *required { "Required" } else { "NotRequired" }),
        Op::Shape(a) => format!("shape({})", sa(a)),
        Op::Positions { args, rtl, vertical } => format!("positions({}; rtl {} vertical {})", sa(args), rtl, vertical),
        Op::LookupGlyph { ch, required, vs } => {
            format!("lookup_glyph_index(U+{:04X}, {}, {:?})", *ch as u32, if *required { "Required" } else { "NotRequired" }, vs_of(*vs))
        }
        Op::HAdvance(g) => format!("horizontal_advance({})", g),
        Op::VAdvance(g) => format!("vertical_advance({})", g),
        Op::GlyphNames(ids) => format!("glyph_names({:?})", ids),
        Op::LookupImage { gid, ppem, depth } => format!("lookup_glyph_image({}, {}, {:?})", gid, ppem, DEPTHS[*depth]),
        Op::HasImages => "has_embedded_images/has_glyph_outlines".into(),
        Op::Os2 => "os2_table".into(),
        Op::Axes => "variation_axes/axis_names".into(),
        Op::Tables => "table accessors".into(),
        Op::SetImageFilter(k) => format!("set_embedded_image_filter(#{})", k),
    }
}

fn shape_args(op: &Op) -> Option<&ShapeArgs> {
    match op {
        Op::Shape(a) => Some(a),
        Op::Positions { args, .. } => Some(args),
        _ => None,
    }
}

fn family(op: &Op) -> u8 {
    match op {
        Op::MapGlyphs { .. } => 0,
        Op::Shape(_) | Op::Positions { .. } => 1,
        Op::LookupGlyph { .. } => 2,
        Op::HAdvance(_) | Op::VAdvance(_) => 3,
        Op::GlyphNames(_) => 4,
        Op::LookupImage { .. } | Op::HasImages => 5,
        Op::Os2 => 6,
        Op::Axes => 7,
        Op::Tables => 8,
        Op::SetImageFilter(_) => 9,
    }
}

fn kind_name(op: &Op) -> &'static str {
    match op {
        Op::MapGlyphs { .. } => "map_glyphs",
        Op::Shape(_) => "shape",
        Op::Positions { .. } => "positions",
        Op::LookupGlyph { .. } => "lookup_glyph_index",
        Op::HAdvance(_) => "horizontal_advance",
        Op::VAdvance(_) => "vertical_advance",
        Op::GlyphNames(_) => "glyph_names",
        Op::LookupImage { .. } => "lookup_glyph_image",
        Op::HasImages => "has_embedded_images",
        Op::Os2 => "os2_table",
        Op::Axes => "variation_axes",
        Op::Tables => "table_accessors",
        Op::SetImageFilter(_) => "set_embedded_image_filter",
    }
}

fn regime_of(e: &FontEntry, tuple: usize) -> Option<Regime> {
    let fv = e.fv.as_ref()?;
    let coord = if tuple == 0 { None } else { e.tuples.get(tuple - 1).and_then(|t| t.first().map(|x| x.raw_value())) };
    Some(fv.regime(coord))
}

/// A used font answered `got`, a fresh one `exp`: decide the failure signature. Two known
/// defects are attributed by a defect model (a fresh font on which only the state the defect
/// is about has been reproduced answers exactly like the used font); anything else gets the
/// generic signature of the probe's kind.
fn triage(t: &Target<'_>, filter: u8, prefix: &[Op], op: &Op, got: &str, exp: &str, what: &str) -> Fail {
    let e = t.e;
    let hist: Vec<String> = prefix.iter().map(|o| show_op(e, o)).collect();
    let detail = format!(
        "font {} (image filter {}): {} — after history [{}] the call {} returned\n  used : {}\n  fresh: {}",
        t.label,
        filter,
        what,
        hist.join("; "),
        show_op(e, op),
        truncate(got, 1500),
        truncate(exp, 1500)
    );
    // defect model 1: only the glyph cache (DOTTED CIRCLE) state of the history is reproduced
    let dc_possible = match op {
        Op::LookupGlyph { ch, .. } => *ch == '\u{25CC}',
        Op::MapGlyphs { .. } | Op::Shape(_) | Op::Positions { .. } => true,
        _ => false,
    };
    if dc_possible {
        if let Ok(mut model) = load(t.bytes, filter) {
            for h in prefix {
                replay_mapping(&mut model, h);
            }
            if run(&mut model, e, op) == got {
                return Fail::new(SIG_DOTTED_CIRCLE, format!("{}\n  (reproduced by a fresh font on which only the character lookups of the history were replayed: Font::lookup_glyph_index caches U+25CC without its presentation/selector arguments)", detail));
            }
        }
    }
    // defect model 2: one earlier shaping call with a different variation tuple but the same
    // script and language (mask features) on a font with FeatureVariations explains the result
    if let Some(a) = shape_args(op) {
        if e.has_fv && matches!(a.feat, FeatSel::Mask(_)) {
            for h in prefix {
                if let Some(b) = shape_args(h) {
                    // input class of the defect: the cached list is keyed by (script, language,
                    // mask), so only a call with the same script and language but another tuple
                    // can leave a stale list behind for this probe
                    if b.tuple != a.tuple && b.script == a.script && b.lang == a.lang && matches!(b.feat, FeatSel::Mask(_)) {
                        if let Ok(mut model) = load(t.bytes, filter) {
                            run(&mut model, e, h);
                            if run(&mut model, e, op) == got {
                                return Fail::new(
                                    SIG_TUPLE_KEY,
                                    format!("{}\n  (reproduced by a fresh font after the single call {}: the GSUB lookup-list cache key (script, language, feature mask) omits the feature-variations selection made by the tuple)", detail, show_op(e, h)),
                                );
                            }
                        }
                    }
                }
            }
        }
    }
    Fail::new(format!("C03:{}-differs-from-fresh-font", kind_name(op)), detail)
}

/// The check proper, on resolved ops.
/// triage runs the defect models, which execute more ops: guard them like the ops themselves
fn triage_guarded(t: &Target<'_>, filter: u8, prefix: &[Op], op: &Op, got: &str, exp: &str, what: &str) -> Fail {
    if t.tolerant {
        match std::panic::catch_unwind(std::panic::AssertUnwindSafe(|| triage(t, filter, prefix, op, got, exp, what))) {
            Ok(f) => f,
            Err(_) => Fail::new(format!("C03:{}-differs-from-fresh-font", kind_name(op)), format!("font {}: {} ({}); used: {} fresh: {}", t.label, what, show_op(t.e, op), truncate(got, 800), truncate(exp, 800))),
        }
    } else {
        triage(t, filter, prefix, op, got, exp, what)
    }
}

/// `run` for fonts with non-canonical / faulted layout data: None if allsorts panicked.
fn run_tolerant(font: &mut F<'_>, e: &FontEntry, op: &Op, tolerant: bool) -> Option<String> {
    if tolerant {
        std::panic::catch_unwind(std::panic::AssertUnwindSafe(|| run(font, e, op))).ok()
    } else {
        Some(run(font, e, op))
    }
}

fn check_history(t: &Target<'_>, filter: u8, history: &[Op], probe: &Op, sampled: Option<usize>, rec: &mut Rec) -> CaseResult {
    let e = t.e;
    let harness = |m: String| Fail::new("C03:harness-font-load", format!("{}: {}", t.label, m));
    // a panic on non-canonical / faulted data is property C02's business: skip and count
    macro_rules! run_or_skip {
        ($font:expr, $op:expr) => {
            match run_tolerant($font, e, $op, t.tolerant) {
                Some(s) => s,
                None => {
                    rec.class("skipped:panic-on-noncanonical-or-faulted-font");
                    rec.class(&format!("font:{}", e.kind));
                    return Ok(());
                }
            }
        };
    }
    // stored in the replay file if the case fails (also when it fails by a panic)
    rec.artefact(
        "ops",
        format!("font {} filter {}\n{}\nprobe: {}", t.label, filter, history.iter().map(|o| show_op(e, o)).collect::<Vec<_>>().join("\n"), show_op(e, probe)).as_bytes(),
    );
    let mut used = load(t.bytes, filter).map_err(harness)?;
    let mut evals = 0u64;
    let initial_filter = filter;
    let mut filter = filter;
    let mut reconfigured = false;
    for (i, op) in history.iter().enumerate() {
        let got = run_or_skip!(&mut used, op);
        if let Op::SetImageFilter(k) = op {
            reconfigured |= *k != filter;
            filter = *k;
            continue;
        }
        if sampled == Some(i) {
            let mut fresh = load(t.bytes, filter).map_err(harness)?;
            let exp = run_or_skip!(&mut fresh, op);
            evals += 1;
            if got != exp {
                return Err(triage_guarded(t, filter, &history[..i], op, &got, &exp, "history op differs from the same op on a fresh font"));
            }
        }
    }
    let got = run_or_skip!(&mut used, probe);
    let mut fresh = load(t.bytes, filter).map_err(harness)?;
    let exp = run_or_skip!(&mut fresh, probe);
    if got != exp {
        return Err(triage_guarded(t, filter, history, probe, &got, &exp, "probe differs from the same probe on a fresh font"));
    }
    // the probe itself is part of the history of a second, identical probe
    let again = run_or_skip!(&mut used, probe);
    evals += 1;
    if again != got {
        let mut h: Vec<Op> = history.to_vec();
        h.push(probe.clone());
        return Err(triage_guarded(t, filter, &h, probe, &again, &exp, "repeating the probe on the same font changed its result"));
    }
    rec.evaluations(evals);

    // classification / non-triviality
    let fam = family(probe);
    let mut nontrivial = false;
    match probe {
        Op::Shape(a) | Op::Positions { args: a, .. } => {
            let mut tuple_fv = false;
            let mut d = [false; 6];
            for h in history {
                if let Some(b) = shape_args(h) {
                    if b != a {
                        nontrivial = true;
                    }
                    d[0] |= b.script != a.script;
                    d[1] |= b.lang != a.lang;
                    d[2] |= b.feat != a.feat;
                    d[3] |= b.text != a.text;
                    d[4] |= b.tuple != a.tuple;
                    let same_key = b.script == a.script && b.lang == a.lang && b.feat == a.feat;
                    if e.has_fv && b.tuple != a.tuple {
                        let distinct_regime = match (regime_of(e, a.tuple), regime_of(e, b.tuple)) {
                            (Some(x), Some(y)) => x != y,
                            _ => true,
                        };
                        if distinct_regime {
                            tuple_fv = true;
                            d[5] |= same_key;
                        }
                    }
                }
            }
            rec.class_if(d[0], "differs:script");
            rec.class_if(d[1], "differs:language");
            rec.class_if(d[2], "differs:features");
            rec.class_if(d[3], "differs:text");
            rec.class_if(d[4], "differs:tuple");
            rec.class_if(d[5], "tuple-differs-with-feature-variations,same-script-language-features");
            rec.class_if(tuple_fv, "tuple-differs-with-feature-variations");
        }
        Op::MapGlyphs { .. } => {
            for h in history {
                match h {
                    Op::MapGlyphs { .. } if h != probe => nontrivial = true,
                    Op::Shape(_) | Op::Positions { .. } => nontrivial = true,
                    _ => {}
                }
            }
        }
        Op::LookupGlyph { ch, required, vs } => {
            let mut same_char = false;
            let mut after_shaping = false;
            for h in history {
                match h {
                    Op::LookupGlyph { ch: c2, required: r2, vs: v2 } if h != probe => {
                        nontrivial = true;
                        same_char |= c2 == ch && (r2 != required || v2 != vs);
                    }
                    Op::Shape(_) | Op::Positions { .. } | Op::MapGlyphs { .. } => {
                        nontrivial = true;
                        after_shaping = true;
                    }
                    _ => {}
                }
            }
            rec.class_if(same_char, "lookup:same-char-other-presentation/selector");
            rec.class_if(*ch == '\u{25CC}', "lookup:dotted-circle");
            rec.class_if(*ch == '\u{25CC}' && (same_char || (after_shaping && (*required || *vs != 0))), "lookup:dotted-circle-after-lookup-with-other-arguments");
        }
        _ => {
            for h in history {
                if family(h) == fam && h != probe {
                    nontrivial = true;
                }
            }
            // argument-less queries: any earlier call that fills a lazy slot counts
            if matches!(probe, Op::Os2 | Op::Axes | Op::Tables | Op::HasImages) && !history.is_empty() {
                nontrivial = true;
            }
            // image queries after the filter was changed on a font that had already answered one
            if fam == 5 && reconfigured {
                let mut seen_query = false;
                let mut after = false;
                for h in history {
                    match h {
                        Op::LookupImage { .. } | Op::HasImages | Op::LookupGlyph { .. } | Op::MapGlyphs { .. } | Op::Shape(_) | Op::Positions { .. } => seen_query = true,
                        Op::SetImageFilter(_) if seen_query => after = true,
                        _ => {}
                    }
                }
                rec.class_if(after, "image-query-after-filter-change-on-used-font");
            }
        }
    }
    rec.set_nontrivial(nontrivial);
    rec.class(&format!("probe:{}", kind_name(probe)));
    rec.class(&format!("font:{}", e.kind));
    rec.class_if(history.is_empty(), "history:empty");
    rec.class_if(history.len() >= 6, "history:>=6");
    rec.class_if(filter != 0, "image-filter-set");
    rec.class_if(reconfigured, "image-filter-changed-mid-history");
    let _ = initial_filter;
    rec.class_if(got.starts_with("Err"), "probe-result:error");
    rec.sample(|| {
        format!(
            "{}: [{}] then {}",
            t.label,
            history.iter().map(|o| show_op(e, o)).collect::<Vec<_>>().join("; "),
            show_op(e, probe)
        )
    });
    Ok(())
}

pub fn check_case(case: &Case, rec: &mut Rec) -> CaseResult {
    let pool = fonts();
    if pool.is_empty() {
        return Err(Fail::new("C03:harness-no-fonts", "no font could be loaded"));
    }
    let weights: Vec<u32> = pool.iter().map(|f| f.weight).collect();
    let e = &pool[pick_weighted(case.font, &weights)];
    check_on_entry(e, case, rec)
}

/// Resolve the case against the entry's pools, apply the layout mutation (if any) and check.
fn check_on_entry(e: &FontEntry, case: &Case, rec: &mut Rec) -> CaseResult {
    let probe = resolve(e, &case.probe, &case.probe);
    let history: Vec<Op> = case.history.iter().map(|s| resolve(e, s, &case.probe)).collect();
    let sampled = if history.is_empty() { None } else { Some(pick(history.len(), case.sample)) };
    let mutated: Option<(Vec<u8>, Vec<String>)> = match &case.mutation {
        // the generated fonts with layout tables beyond 64 KiB are not mutated: one corrupt ScriptList offset in such
        // a table makes allsorts' eager ScriptList/LangSys parse allocate gigabytes (DESIGN §8.13) — resource use is
        // C01/C02's subject, and here it only turns runs inconclusive
        Some(m) if !e.sites.tables.is_empty() && !(e.name.starts_with("generated:noncanonical-") && e.bytes.len() > 100_000) => Some(mutate(&e.bytes, &e.sites, m)),
        _ => None,
    };
    match &mutated {
        Some((bytes, what)) if !what.is_empty() => {
            rec.artefact("font", bytes);
            let t = Target { e, bytes, label: format!("{} with [{}]", e.name, what.join("; ")), tolerant: true };
            rec.class(match case.mutation.as_ref().map(|m| m.mode) {
                Some(1) => "mutated:non-canonical-order",
                Some(2) => "mutated:byte-faults",
                _ => "mutated:non-canonical+faults",
            });
            check_history(&t, case.filter, &history, &probe, sampled, rec)
        }
        _ => {
            let t = Target { e, bytes: &e.bytes, label: e.name.clone(), tolerant: e.tolerant };
            check_history(&t, case.filter, &history, &probe, sampled, rec)
        }
    }
}

// ------------------------------------------------------------------ layout mutations

/// What to do to the layout tables of a bare sfnt font before *both* fonts are loaded from it.
#[derive(Clone, Debug)]
pub struct Mutation {
    pub seed: u32,
    /// 1: permute / overlap / duplicate Coverage and ClassDef records (non-canonical but
    /// accepted), 2: 1-3 byte faults in GSUB/GPOS/GDEF/kern bodies, 3: both
    pub mode: u8,
}

#[derive(Clone, Debug, Default)]
pub struct TableSites {
    pub tag: [u8; 4],
    pub offset: usize,
    pub length: usize,
    /// offsets (inside the table) of Coverage tables
    pub coverages: Vec<u32>,
    /// offsets of ClassDef tables
    pub classdefs: Vec<u32>,
    /// offsets of structural fields (counts, offsets, formats, classes, indices)
    pub fields: Vec<u32>,
}

#[derive(Clone, Debug, Default)]
pub struct Sites {
    pub tables: Vec<TableSites>,
}

/// Locate the layout tables of a bare sfnt and, with C02's forgiving scanner, the Coverage /
/// ClassDef tables and structural fields inside GSUB and GPOS.
fn layout_sites(bytes: &[u8]) -> Sites {
    let mut out = Sites::default();
    let dir = match crate::fontgen::sfnt::parse_directory(bytes) {
        Some((flavour, d)) if flavour == crate::fontgen::sfnt::TTF || flavour == crate::fontgen::sfnt::OTTO || flavour == crate::fontgen::sfnt::TRUE => d,
        _ => return out,
    };
    for ent in dir {
        if ![*b"GSUB", *b"GPOS", *b"GDEF", *b"kern"].contains(&ent.tag) {
            continue;
        }
        let (o, l) = (ent.offset as usize, ent.length as usize);
        let t = match bytes.get(o..o.saturating_add(l)) {
            Some(t) if l >= 4 => t,
            _ => continue,
        };
        let mut ts = TableSites { tag: ent.tag, offset: o, length: l, ..Default::default() };
        if &ent.tag == b"GSUB" || &ent.tag == b"GPOS" {
            let scan = crate::props::c02::layout::scan(t, &ent.tag == b"GPOS");
            for a in &scan.anchors {
                match a.what {
                    "coverage.format" => ts.coverages.push(a.off),
                    "classdef.format" => ts.classdefs.push(a.off),
                    _ => {}
                }
                if ts.fields.len() < 3000 {
                    ts.fields.push(a.off);
                }
            }
            ts.coverages.sort();
            ts.coverages.dedup();
            ts.classdefs.sort();
            ts.classdefs.dedup();
        }
        out.tables.push(ts);
    }
    out
}

fn rd16(t: &[u8], o: usize) -> Option<usize> {
    t.get(o..o.checked_add(2)?).map(|b| u16::from_be_bytes([b[0], b[1]]) as usize)
}

/// Rearrange the records of one Coverage / ClassDef table in place (same size, still accepted).
fn decanonicalise(t: &mut [u8], at: usize, classdef: bool, rng: &mut fv_font::NcRng) -> Option<String> {
    let fmt = rd16(t, at)?;
    let (first, rec, n) = match (classdef, fmt) {
        (false, 1) => (at + 4, 2usize, rd16(t, at + 2)?),
        (false, 2) => (at + 4, 6, rd16(t, at + 2)?),
        (true, 2) => (at + 4, 6, rd16(t, at + 2)?),
        (true, 1) => (at + 6, 2, rd16(t, at + 4)?),
        _ => return None,
    };
    if n < 2 || first + rec * n > t.len() {
        return None;
    }
    let what = if classdef { "ClassDef" } else { "Coverage" };
    let swap = |t: &mut [u8], i: usize, j: usize| {
        for k in 0..rec {
            t.swap(first + rec * i + k, first + rec * j + k);
        }
    };
    let (i, j) = {
        let i = rng.below(n - 1);
        (i, i + 1 + rng.below(n - 1 - i))
    };
    let op = rng.below(if rec == 6 { 5 } else { 3 });
    match op {
        0 => {
            for k in 0..n / 2 {
                swap(t, k, n - 1 - k);
            }
            Some(format!("{} format {} at {}: {} records reversed", what, fmt, at, n))
        }
        1 => {
            swap(t, i, j);
            Some(format!("{} format {} at {}: records {} and {} swapped", what, fmt, at, i, j))
        }
        2 => {
            // duplicate: record j := record i
            for k in 0..rec {
                t[first + rec * j + k] = t[first + rec * i + k];
            }
            Some(format!("{} format {} at {}: record {} duplicated over record {}", what, fmt, at, i, j))
        }
        3 => {
            // overlap: the later range starts where the earlier one starts
            t[first + rec * j] = t[first + rec * i];
            t[first + rec * j + 1] = t[first + rec * i + 1];
            Some(format!("{} format 2 at {}: range {} now starts at the start of range {}", what, at, j, i))
        }
        _ => {
            // overlap the other way: the earlier range ends where the later one ends; then swap
            t[first + rec * i + 2] = t[first + rec * j + 2];
            t[first + rec * i + 3] = t[first + rec * j + 3];
            swap(t, i, j);
            Some(format!("{} format 2 at {}: range {} extended to the end of range {} and listed after it", what, at, i, j))
        }
    }
}

fn mutate(bytes: &[u8], sites: &Sites, m: &Mutation) -> (Vec<u8>, Vec<String>) {
    let mut out = bytes.to_vec();
    let mut what = Vec::new();
    let mut rng = fv_font::NcRng(m.seed as u64 ^ 0xdeca);
    if m.mode & 1 == 1 {
        let candidates: Vec<(usize, bool, u32)> = sites
            .tables
            .iter()
            .enumerate()
            .flat_map(|(ti, ts)| ts.coverages.iter().map(move |o| (ti, false, *o)).chain(ts.classdefs.iter().map(move |o| (ti, true, *o))))
            .collect();
        if !candidates.is_empty() {
            let k = 1 + rng.below(4);
            for _ in 0..k * 3 {
                if what.len() >= k {
                    break;
                }
                let (ti, cd, at) = candidates[rng.below(candidates.len())];
                let ts = &sites.tables[ti];
                if let Some(t) = out.get_mut(ts.offset..ts.offset + ts.length) {
                    if let Some(d) = decanonicalise(t, at as usize, cd, &mut rng) {
                        what.push(format!("{} {}", String::from_utf8_lossy(&ts.tag), d));
                    }
                }
            }
        }
    }
    if m.mode & 2 == 2 && !sites.tables.is_empty() {
        let k = 1 + rng.below(3);
        for _ in 0..k {
            let ts = &sites.tables[rng.below(sites.tables.len())];
            if ts.length < 4 {
                continue;
            }
            // a structural field, the first bytes of the table, or anywhere
            let pos = match rng.below(4) {
                0 | 1 if !ts.fields.is_empty() => ts.fields[rng.below(ts.fields.len())] as usize + rng.below(2),
                2 => rng.below(ts.length.min(64)),
                _ => rng.below(ts.length),
            };
            if pos >= ts.length {
                continue;
            }
            let p = ts.offset + pos;
            let old = out[p];
            let new = match rng.below(5) {
                0 => 0,
                1 => 0xFF,
                2 => old.wrapping_add(1),
                3 => old.wrapping_sub(1),
                _ => old ^ (1 << rng.below(8)),
            };
            if new != old {
                out[p] = new;
                what.push(format!("{}[{}] {:#04x} -> {:#04x}", String::from_utf8_lossy(&ts.tag), pos, old, new));
            }
        }
    }
    (out, what)
}

fn kind_strategy() -> impl Strategy<Value = u8> {
    prop_oneof![
        35 => Just(K_SHAPE),
        12 => Just(K_POS),
        12 => Just(K_MAP),
        16 => Just(K_LOOKUP),
        4 => Just(K_HADV),
        4 => Just(K_VADV),
        4 => Just(K_NAMES),
        5 => Just(K_IMAGE),
        2 => Just(K_HASIMG),
        2 => Just(K_OS2),
        2 => Just(K_AXES),
        2 => Just(K_TABLES),
    ]
}

fn op_strategy(allow_same: bool) -> impl Strategy<Value = OpSpec> {
    let kind = if allow_same { prop_oneof![55 => Just(K_SAME), 45 => kind_strategy()].boxed() } else { kind_strategy().boxed() };
    // copy mask: arbitrary / exactly one component differs (the tuple three times as often as
    // each other component) / nothing copied
    let copy = prop_oneof![
        3 => any::<u8>(),
        3 => (0u8..10).prop_map(|i| !(1u8 << [4, 4, 4, 0, 1, 2, 3, 5, 6, 7][i as usize])),
        1 => Just(0u8),
    ];
    (kind, proptest::array::uniform7(any::<u32>()), any::<u8>(), copy).prop_map(|(kind, r, flags, copy)| OpSpec { kind, r, flags, copy })
}

fn mutation_strategy() -> impl Strategy<Value = Option<Mutation>> {
    prop_oneof![
        13 => Just(None),
        4 => any::<u32>().prop_map(|seed| Some(Mutation { seed, mode: 1 })),
        2 => any::<u32>().prop_map(|seed| Some(Mutation { seed, mode: 2 })),
        1 => any::<u32>().prop_map(|seed| Some(Mutation { seed, mode: 3 })),
    ]
}

pub fn case_strategy() -> impl Strategy<Value = Case> {
    (
        any::<u32>(),
        prop_oneof![6 => Just(0u8), 1 => 1u8..5],
        proptest::collection::vec(op_strategy(true), 0..13),
        op_strategy(false),
        any::<u32>(),
        mutation_strategy(),
    )
        .prop_map(|(font, filter, history, probe, sample, mutation)| Case { font, filter, history, probe, sample, mutation })
}

/// Section `image-config`: histories on the fonts with image tables (sbix, SVG, EBDT, an
/// unreadable SVG) made of image queries, VS16 lookups and `set_embedded_image_filter` calls.
fn image_case_strategy() -> impl Strategy<Value = Case> {
    let hist_kind = prop_oneof![5 => Just(K_IMAGE), 3 => Just(K_HASIMG), 6 => Just(K_SETFILTER), 2 => Just(K_LOOKUP), 1 => Just(K_MAP), 1 => Just(K_SHAPE)];
    let probe_kind = prop_oneof![5 => Just(K_IMAGE), 3 => Just(K_HASIMG), 2 => Just(K_LOOKUP)];
    let spec = |k: BoxedStrategy<u8>| (k, proptest::array::uniform7(any::<u32>()), any::<u8>()).prop_map(|(kind, r, flags)| OpSpec { kind, r, flags, copy: 0 });
    (any::<u32>(), prop_oneof![3 => Just(0u8), 2 => 1u8..7], proptest::collection::vec(spec(hist_kind.boxed()), 1..9), spec(probe_kind.boxed()), any::<u32>())
        .prop_map(|(font, filter, history, probe, sample)| Case { font, filter, history, probe, sample, mutation: None })
}

fn check_image_case(case: &Case, rec: &mut Rec) -> CaseResult {
    let pool: Vec<&FontEntry> = fonts().iter().filter(|f| f.kind == "images" || f.kind == "broken-tables").collect();
    if pool.is_empty() {
        return Err(Fail::new("C03:harness-no-fonts", "no font with image tables could be loaded"));
    }
    check_on_entry(pool[pick(pool.len(), case.font)], case, rec)
}

// ------------------------------------------------------------------ complex-script fonts

/// Section `script-histories`: the histories of `histories`, on fonts of the scripts with their
/// own shaping engines only (Arabic, Syriac, Indic old/new spec, Khmer, Myanmar, Thai/Lao), so
/// that every one of their caches sees colliding and differing keys often.
fn script_fonts() -> &'static Vec<FontEntry> {
    static FONTS: OnceLock<Vec<FontEntry>> = OnceLock::new();
    FONTS.get_or_init(|| {
        let mlm2 = tag::MLM2;
        let fx: &[(&str, &[u32], u32, &'static str)] = &[
            ("fonts/syriac/SyrCOMEdessa.otf", &[tag::SYRC], 4, "syriac"),
            ("fonts/noto/NotoSansSyriacEastern-Regular.ttf", &[tag::SYRC], 4, "syriac"),
            ("fonts/arabic/Scheherazade-Regular.ttf", &[tag::ARAB], 3, "arabic"),
            ("fonts/noto/NotoNaskhArabic-Regular.ttf", &[tag::ARAB, tag::SYRC], 3, "arabic"),
            ("fonts/noto/NotoSansDevanagari-Regular.ttf", &[tag::DEVA, tag::DEV2], 3, "devanagari"),
            ("fonts/devanagari/AnnapurnaSIL-Regular.ttf", &[tag::DEVA, tag::DEV2], 2, "devanagari"),
            ("fonts/bengali/Lohit-Bengali.ttf", &[tag::BENG, tag::BNG2], 3, "indic-other"),
            ("fonts/noto/NotoSansTamil-Regular.ttf", &[tag::TAML], 2, "indic-other"),
            ("fonts/noto/NotoSansGujarati-Regular.ttf", &[tag::GUJR], 2, "indic-other"),
            ("fonts/malayalam/lohit_ml.ttf", &[tag::MLYM, mlm2], 2, "indic-other"),
            ("fonts/noto/NotoSansTelugu-Regular.ttf", &[tag::TELU], 2, "indic-other"),
            ("fonts/noto/NotoSansKannada-Regular.ttf", &[tag::KNDA], 2, "indic-other"),
            ("fonts/noto/NotoSansSinhala-Regular.ttf", &[tag::SINH], 2, "indic-other"),
            ("fonts/khmer/Battambang-Regular.ttf", &[tag::KHMR], 4, "khmer"),
            ("fonts/noto/NotoSansKhmer-Regular.ttf", &[tag::KHMR], 3, "khmer"),
            ("fonts/myanmar/Padauk-Regular.ttf", &[tag::MYMR], 6, "myanmar"),
            ("fonts/noto/NotoSansThai-Regular.ttf", &[tag::THAI], 4, "thai"),
            ("fonts/noto/NotoSansLao-Regular.ttf", &[tag::LAO, tag::THAI], 3, "thai"),
        ];
        let mut v = Vec::new();
        for (p, home, w, kind) in fx {
            if let Some(b) = fixtures::read(p) {
                if let Some(mut e) = make_entry(p, b, home, *w, kind, None) {
                    // the other scripts asked of these fonts: the complex ones first
                    e.other_scripts = vec![tag::ARAB, tag::SYRC, tag::DEVA, tag::DEV2, tag::BENG, tag::KHMR, tag::MYMR, tag::THAI, tag::LAO, tag::TAML, tag::LATN, tag::DFLT];
                    v.push(e);
                }
            }
        }
        v
    })
}

fn check_script_case(case: &Case, rec: &mut Rec) -> CaseResult {
    let pool = script_fonts();
    if pool.is_empty() {
        return Err(Fail::new("C03:harness-no-fonts", "no complex-script font could be loaded"));
    }
    let weights: Vec<u32> = pool.iter().map(|f| f.weight).collect();
    let e = &pool[pick_weighted(case.font, &weights)];
    // which shaping engine the probe runs in
    if let Op::Shape(a) | Op::Positions { args: a, .. } = resolve(e, &case.probe, &case.probe) {
        rec.class(&format!("script-probe:{}", tag_str(a.script)));
    }
    check_on_entry(e, case, rec)
}

/// shaping-heavy mix for `script-histories`
fn script_case_strategy() -> impl Strategy<Value = Case> {
    let probe_kind = prop_oneof![6 => Just(K_SHAPE), 2 => Just(K_POS), 1 => Just(K_MAP), 2 => Just(K_LOOKUP)];
    let probe = (probe_kind, proptest::array::uniform7(any::<u32>()), any::<u8>()).prop_map(|(kind, r, flags)| OpSpec { kind, r, flags, copy: 0 });
    (any::<u32>(), proptest::collection::vec(op_strategy(true), 1..11), probe, any::<u32>(), prop_oneof![5 => Just(None), 1 => any::<u32>().prop_map(|seed| Some(Mutation { seed, mode: 1 }))])
        .prop_map(|(font, history, probe, sample, mutation)| Case { font, filter: 0, history, probe, sample, mutation })
}

// ------------------------------------------------------------------ fonts generated per case

/// A font built per case from a C04 GSUB program and/or a C05 GPOS tape (the code path of
/// C02's `generated-layout` class, reduced to the default script), then a history as usual.
#[derive(Clone, Debug)]
pub struct GenCase {
    pub gsub: Option<Box<crate::props::c04::Case>>,
    pub tape: Option<Vec<u32>>,
    pub gdef_from_gpos: bool,
    pub case: Case,
}

fn build_generated(g: &GenCase) -> Option<FontEntry> {
    use crate::fontgen::{otl, otl_gpos};
    use crate::props::{c04, c05};
    let p4 = g.gsub.as_ref().map(|c| c04::resolve(c));
    let p5 = g.tape.as_ref().map(|t| c05::build_program(t));
    let n = p4.as_ref().map(|p| p.n).unwrap_or(0).max(p5.as_ref().map(|p| p.nglyphs.saturating_sub(1)).unwrap_or(0)).clamp(4, 200);
    let mut f = BasicFont::with_glyphs(n + 1);
    for gid in 1..=n {
        f.cmap.insert(0xE000 + gid as u32, gid);
    }
    if let Some(p) = &p5 {
        for gid in 0..=n as usize {
            if let (Some(a), Some(m)) = (p.advances.get(gid), f.metrics.get_mut(gid)) {
                *m = (*a, 0);
            }
        }
    }
    let mut tags: Vec<[u8; 4]> = Vec::new();
    let mut strings: Vec<Vec<u16>> = Vec::new();
    let mut request_tuples: Vec<Vec<i16>> = Vec::new();
    let mut feats: Vec<FeatSel> = Vec::new();
    let mut have_gdef = false;
    let mut axes = 0usize;
    if let Some(p) = &p4 {
        if let Ok(bytes) = otl::gsub_table(&p.gsub) {
            f.extra.push((*b"GSUB", bytes));
            axes = p.gsub.feature_variations.as_ref().map(|v| v.axis_count as usize).unwrap_or(0);
            if axes > 0 {
                let models: Vec<crate::fontgen::var::AxisModel> = (0..axes)
                    .map(|i| crate::fontgen::var::AxisModel { tag: [b'a', b'x', b'0', b'0' + (i % 10) as u8], min: -65536, default: 0, max: 65536, flags: 0, name_id: 256 + i as u16 })
                    .collect();
                f.extra.push((*b"fvar", crate::fontgen::var::fvar_table(&models, &[], 0)));
            }
        }
        for ft in &p.gsub.features {
            tags.push(ft.tag);
        }
        for r in &p.requests {
            if let Some(t) = &r.tuple {
                request_tuples.push(t.clone());
            }
            if !r.features.is_empty() {
                feats.push(FeatSel::Custom(r.features.iter().map(|t| (u32::from_be_bytes(*t), r.alternate)).collect()));
            }
        }
        strings.extend(p.strings.iter().cloned());
        if let (Some(gd), false) = (&p.gdef, g.gdef_from_gpos && p5.as_ref().map(|q| q.gdef.is_some()).unwrap_or(false)) {
            f.extra.push((*b"GDEF", otl::gdef_table(gd)));
            have_gdef = true;
        }
    }
    if let Some(p) = &p5 {
        if let Some(gp) = &p.gpos {
            if let Ok(bytes) = otl_gpos::encode_gpos(gp) {
                f.extra.push((*b"GPOS", bytes));
            }
            for ft in &gp.features {
                tags.push(ft.tag);
            }
        }
        if let Some(k) = &p.kern {
            f.extra.push((*b"kern", otl_gpos::encode_kern(k).0));
        }
        if !have_gdef {
            if let Some(gd) = &p.gdef {
                if let Ok(bytes) = otl_gpos::encode_gdef(gd) {
                    f.extra.push((*b"GDEF", bytes));
                }
            }
        }
        if !p.custom.is_empty() {
            feats.push(FeatSel::Custom(p.custom.iter().map(|t| (u32::from_be_bytes(*t), None)).collect()));
        }
        for s in &p.strings {
            strings.push(s.iter().map(|x| x.gid).collect());
        }
    }
    let name = format!("generated-layout/{}{}", if p4.is_some() { "c04" } else { "" }, if p5.is_some() { "+c05" } else { "" });
    let bytes = f.build();
    // tuples asked for by the program's own requests (normalised coordinates; the axes run
    // from -1 to 1, so user value = normalised value)
    let extra_tuples: Vec<Vec<i32>> = request_tuples.iter().filter(|t| t.len() == axes && axes > 0).take(4).map(|t| t.iter().map(|x| *x as i32 * 4).collect()).collect();
    let mut e = make_entry(&name, bytes, &[tag::LATN, tag::DFLT], 1, "generated-layout", None)?;
    if !extra_tuples.is_empty() {
        let (mut t, mut l) = tuple_pool_users(&e.bytes, &extra_tuples);
        e.tuples.append(&mut t);
        e.tuple_labels.append(&mut l);
    }
    e.alphabet = (1..=n).filter_map(|gid| char::from_u32(0xE000 + gid as u32)).collect();
    e.extra_texts = strings.iter().filter(|s| !s.is_empty()).take(16).map(|s| s.iter().filter_map(|gid| char::from_u32(0xE000 + *gid as u32)).take(32).collect()).collect();
    let mut own = own_feature_selections(&tags);
    own.extend(feats.into_iter().take(6));
    e.extra_feats = own;
    e.other_scripts = vec![tag::LATN, tag::DFLT, tag::CYRL, tag::GREK];
    e.tolerant = true;
    Some(e)
}

fn check_generated(g: &GenCase, rec: &mut Rec) -> CaseResult {
    let e = match build_generated(g) {
        Some(e) => e,
        None => {
            rec.class("generated-layout:not-loadable");
            return Ok(());
        }
    };
    rec.class(match (g.gsub.is_some(), g.tape.is_some()) {
        (true, true) => "generated-layout:gsub+gpos",
        (true, false) => "generated-layout:gsub",
        _ => "generated-layout:gpos",
    });
    check_on_entry(&e, &g.case, rec)
}

fn gen_strategy() -> impl Strategy<Value = GenCase> {
    let tape = || proptest::collection::vec(any::<u32>(), 900..=900);
    let programs = prop_oneof![
        35 => crate::props::c04::case_strategy().prop_map(|c| (Some(Box::new(c)), None)),
        25 => tape().prop_map(|t| (None, Some(t))),
        40 => (crate::props::c04::case_strategy(), tape()).prop_map(|(c, t)| (Some(Box::new(c)), Some(t))),
    ];
    (programs, any::<bool>(), case_strategy(), prop_oneof![1 => Just(None), 1 => any::<u32>().prop_map(|seed| Some(Mutation { seed, mode: 1 })), 1 => mutation_strategy()]).prop_map(
        |((gsub, tape), gdef_from_gpos, mut case, mutation)| {
            case.mutation = mutation;
            GenCase { gsub, tape, gdef_from_gpos, case }
        },
    )
}

// ------------------------------------------------------------------ pinned histories

fn pinned(i: u64, rec: &mut Rec) -> CaseResult {
    let pool = fonts();
    let fv = match pool.iter().find(|f| f.fv.is_some()) {
        Some(f) => f,
        None => return Err(Fail::new("C03:harness-no-fonts", "generated font missing")),
    };
    let shape = |text: &str, script: u32, tuple: usize, feat: FeatSel| {
        Op::Shape(ShapeArgs { text: text.to_string(), script, required: false, lang: None, feat, tuple, kerning: true })
    };
    let d = FeatSel::Mask(FeatureMask::default().bits());
    let dc = |required: bool, vs: u8| Op::LookupGlyph { ch: '\u{25CC}', required, vs };
    // tuple choices of the generated font: 1 = default (0.0), 2 = min (-1.0), 3 = max (+1.0)
    let (e, history, probe): (&FontEntry, Vec<Op>, Op) = match i {
        0 => (fv, vec![dc(false, 0)], dc(true, 1)),
        1 => (fv, vec![shape("abc", tag::LATN, 0, d.clone())], Op::MapGlyphs { text: "a\u{25CC}\u{FE0F}b".into(), script: tag::LATN, required: false }),
        2 => (fv, vec![dc(true, 1)], shape("\u{25CC}abc", tag::LATN, 0, d.clone())),
        3 => (fv, vec![shape("abcdefgh", tag::LATN, 2, d.clone())], shape("abcdefgh", tag::LATN, 0, d.clone())),
        4 => (fv, vec![shape("abcdefgh", tag::LATN, 0, d.clone())], shape("abcdefgh", tag::LATN, 3, d.clone())),
        5 => (fv, vec![shape("abcdefgh", tag::LATN, 3, d.clone()), shape("abcd", tag::CYRL, 2, d.clone())], Op::Positions {
            args: ShapeArgs { text: "abcdefgh".into(), script: tag::LATN, required: false, lang: None, feat: d.clone(), tuple: 2, kerning: true },
            rtl: false,
            vertical: false,
        }),
        6 => (fv, vec![shape("abcdefgh", tag::THAI, 2, d.clone())], shape("abcdefgh", tag::THAI, 1, d.clone())),
        _ => {
            // a real font: DOTTED CIRCLE with a selector after shaping
            let e = pool.iter().find(|f| f.name.ends_with("Klei.otf")).unwrap_or(fv);
            (e, vec![shape("office", tag::LATN, 0, d.clone())], dc(true, 1))
        }
    };
    check_history(&Target { e, bytes: &e.bytes, label: e.name.clone(), tolerant: false }, 0, &history, &probe, Some(0), rec)?;
    rec.nontrivial();
    rec.hash_u64(i);
    Ok(())
}

// ------------------------------------------------------------------ generated font vs its model

/// The generated FeatureVariations font must really behave as its model says on a *fresh* font
/// (otherwise the "tuple differs" class would be vacuous).
fn fv_model_item(i: u64, rec: &mut Rec) -> CaseResult {
    let pool = fonts();
    let entries: Vec<&FontEntry> = pool.iter().filter(|f| f.fv.is_some()).collect();
    if entries.is_empty() {
        return Err(Fail::new("C03:harness-no-fonts", "generated font missing"));
    }
    let e = entries[(i % entries.len() as u64) as usize];
    let fv = e.fv.as_ref().unwrap();
    let j = i / entries.len() as u64;
    let tuple = (j % (e.tuples.len() as u64 + 1)) as usize;
    let k = j / (e.tuples.len() as u64 + 1);
    let (script, script_tag, lang): (u32, &[u8; 4], Option<&[u8; 4]>) = match k % 4 {
        0 => (tag::LATN, b"latn", None),
        1 => (tag::LATN, b"latn", Some(b"TRK ")),
        2 => (tag::CYRL, b"cyrl", None),
        _ => (tag::GREK, b"grek", None), // not in the font: DFLT
    };
    let smcp = (k / 4) % 2 == 1;
    let kerning = (k / 8) % 2 == 0;
    let mut mask = FeatureMask::default();
    let mut feats: Vec<[u8; 4]> = vec![*b"ccmp", *b"rlig", *b"clig", *b"liga", *b"locl", *b"calt"];
    if smcp {
        mask |= FeatureMask::SMCP;
        feats.push(*b"smcp");
    }
    let regime = regime_of(e, tuple).unwrap_or(Regime::Default);
    let input: Vec<u16> = (1..=fv_font::LETTERS).collect();
    let exp_g = fv.expect_gsub(&input, script_tag, lang, &feats, regime, tuple != 0);
    let (exp_kern, exp_place) = fv.expect_gpos(script_tag, lang, regime, kerning);
    let mut font = load(&e.bytes, 0).map_err(|m| Fail::new("C03:harness-font-load", m))?;
    let glyphs = font.map_glyphs("abcdefgh", script, MatchingPresentation::NotRequired);
    let lang_tag = lang.map(|l| u32::from_be_bytes(*l));
    let infos = match font.shape(glyphs, script, lang_tag, &Features::Mask(mask), tuple_of(e, tuple), kerning) {
        Ok(i) => i,
        Err((err, _)) => return Err(Fail::new("C03:generated-font-shape-error", format!("{}: shape failed: {:?}", e.name, err))),
    };
    let got_g: Vec<u16> = infos.iter().map(|x| x.glyph.glyph_index).collect();
    let ctx = format!(
        "{} script {} lang {:?} tuple {} ({:?}) smcp {} kerning {}",
        e.name,
        tag_str(script),
        lang.map(|l| String::from_utf8_lossy(l).to_string()),
        if tuple == 0 { "None".to_string() } else { e.tuple_labels[tuple - 1].clone() },
        regime,
        smcp,
        kerning
    );
    if got_g != exp_g {
        return Err(Fail::new("C03:generated-font-gsub-model", format!("{}: glyphs {:?}, model says {:?}", ctx, got_g, exp_g)));
    }
    for x in &infos {
        let place = match x.placement {
            allsorts::gpos::Placement::None => 0,
            allsorts::gpos::Placement::Distance(dx, 0) => dx,
            other => return Err(Fail::new("C03:generated-font-gpos-model", format!("{}: unexpected placement {:?}", ctx, other))),
        };
        if x.kerning != exp_kern || place != exp_place as i32 {
            return Err(Fail::new(
                "C03:generated-font-gpos-model",
                format!("{}: glyph {} kerning {} placement {}, model says {} / {}", ctx, x.glyph.glyph_index, x.kerning, place, exp_kern, exp_place),
            ));
        }
    }
    rec.set_nontrivial(regime != Regime::Default);
    rec.class(&format!("fv-model:{:?}", regime));
    rec.hash_u64(i);
    Ok(())
}

// ------------------------------------------------------------------ pure operations, run twice

#[derive(Clone, Debug)]
pub struct PureCase {
    pub font: u32,
    pub op: u8,
    pub r: [u32; 8],
    pub between: u8,
}

struct PureFont {
    name: String,
    bytes: Vec<u8>,
    num_glyphs: u16,
    /// user-space coordinates per axis (min, default, max), raw 16.16
    axes: Vec<(i32, i32, i32)>,
}

/// A bare sfnt with a STAT table of >= 2 design axes: the same font with every axisOrdering set to 0.
fn stat_orderings_zeroed(bytes: &[u8]) -> Option<Vec<u8>> {
    let stat = crate::fontgen::sfnt::find_table(bytes, b"STAT")?;
    let at = stat.as_ptr() as usize - bytes.as_ptr() as usize;
    let rd16 = |o: usize| stat.get(o..o + 2).map(|b| u16::from_be_bytes([b[0], b[1]]) as usize);
    let size = rd16(4)?;
    let count = rd16(6)?;
    let off = stat.get(8..12).map(|b| u32::from_be_bytes([b[0], b[1], b[2], b[3]]) as usize)?;
    if count < 2 || size < 8 || off + count * size > stat.len() {
        return None;
    }
    let mut out = bytes.to_vec();
    for i in 0..count {
        let o = at + off + i * size + 6;
        out[o] = 0;
        out[o + 1] = 0;
    }
    Some(out)
}

fn pure_fonts() -> &'static Vec<PureFont> {
    static P: OnceLock<Vec<PureFont>> = OnceLock::new();
    P.get_or_init(|| {
        let mut v: Vec<(String, Vec<u8>)> = Vec::new();
        for p in [
            "fonts/opentype/test-font.ttf",
            "fonts/opentype/Klei.otf",
            "fonts/opentype/OpenSans-Regular.ttf",
            "fonts/opentype/SFNT-TTF-Composite.ttf",
            "fonts/opentype/cff2/SourceSans3.abc.otf",
            "fonts/opentype/cff2/SourceSansVariable-Roman.abc.otf",
            "fonts/variable/Inter[slnt,wght].abc.ttf",
            "fonts/opentype/NotoSans-VF.abc.ttf",
            "fonts/variable/UnderlineTest-VF.ttf",
            "fonts/variable/Zycon.ttf",
            "fonts/woff2/SFNT-TTF-Composite.woff2",
            "fonts/woff1/valid-005.woff",
            "fonts/woff1/chromacheck-sbix.woff",
            "fonts/sbix/sbix-dupe.ttf",
            "fonts/khmer/Battambang-Regular.ttf",
        ] {
            if let Some(b) = fixtures::read(p) {
                v.push((p.to_string(), b));
            }
        }
        // variable fonts whose STAT design axes all carry axisOrdering 0 (the field is a sort
        // key; ties are legal): any order-dependent step of instance naming must still be
        // deterministic
        let tied: Vec<(String, Vec<u8>)> = v.iter().filter_map(|(n, b)| stat_orderings_zeroed(b).map(|b| (format!("{}+STAT-axisOrdering-all-0", n), b))).collect();
        v.extend(tied);
        v.push(("generated:fv-font-0".into(), FvFont::new(0).build()));
        let mut basic = BasicFont::with_glyphs(40);
        for i in 0..26u32 {
            basic.cmap.insert('a' as u32 + i, (i + 1) as u16);
        }
        basic.cmap.insert(0x1F600, 30);
        v.push(("generated:basic-font".into(), basic.build()));
        let mut out = Vec::new();
        for (name, bytes) in v {
            let info = (|| {
                let fd = ReadScope::new(&bytes).read::<FontData<'_>>().ok()?;
                let prov = fd.table_provider(0).ok()?;
                let maxp = prov.table_data(tag::MAXP).ok()??;
                let n = ReadScope::new(&maxp).read::<allsorts::tables::MaxpTable>().ok()?.num_glyphs;
                let mut axes = Vec::new();
                if let Ok(Some(d)) = prov.table_data(tag::FVAR) {
                    if let Ok(fvar) = ReadScope::new(&d).read::<FvarTable<'_>>() {
                        axes = fvar.axes().map(|a| (a.min_value.raw_value(), a.default_value.raw_value(), a.max_value.raw_value())).collect();
                    }
                }
                Some((n, axes))
            })();
            if let Some((num_glyphs, axes)) = info {
                out.push(PureFont { name, bytes, num_glyphs, axes });
            }
        }
        out
    })
}

#[derive(Clone, Debug, PartialEq)]
enum PureOp {
    Subset(Vec<u16>),
    WholeFont { drop: usize },
    Prince { ids: Vec<u16>, target: u8, convert: bool },
    Instance(Vec<i32>),
    Tables,
}

fn pure_ids(f: &PureFont, r: &[u32], with_zero: bool) -> Vec<u16> {
    let n = pick(7, r[0]);
    let mut ids: Vec<u16> = Vec::new();
    for i in 0..n {
        let g = (((r[1 + i % 6] as u64) * f.num_glyphs.max(1) as u64) >> 32) as u16;
        ids.push(g);
    }
    if with_zero {
        ids.push(0);
        ids.sort();
        ids.dedup();
    }
    ids
}

fn resolve_pure(f: &PureFont, op: u8, r: &[u32; 8]) -> PureOp {
    match op % 5 {
        0 => PureOp::Subset(pure_ids(f, r, r[7] % 16 != 0)),
        1 => PureOp::WholeFont { drop: pick(4, r[0]) },
        2 => PureOp::Prince { ids: pure_ids(f, r, r[7] % 16 != 0), target: (r[7] >> 8) as u8 % 3, convert: r[7] >> 16 & 1 == 1 },
        3 => {
            let coords = f
                .axes
                .iter()
                .enumerate()
                .map(|(i, a)| match (r[i % 6] >> 3) % 6 {
                    0 => a.1,
                    1 => a.0,
                    2 => a.2,
                    3 => ((a.0 as i64 + a.1 as i64) / 2) as i32,
                    4 => ((a.1 as i64 + a.2 as i64) / 2) as i32,
                    _ => (a.0 as i64 + ((r[(i + 1) % 6] as i64 * (a.2 as i64 - a.0 as i64)) >> 32)) as i32,
                })
                .collect();
            PureOp::Instance(coords)
        }
        _ => PureOp::Tables,
    }
}

/// Execute a pure operation on a freshly created provider over `bytes`. Output: Ok(bytes) or
/// Err(debug string); `tags` (if any) are returned sorted because their order is not promised.
fn run_pure(bytes: &[u8], op: &PureOp) -> Result<Vec<u8>, String> {
    let fd = ReadScope::new(bytes).read::<FontData<'_>>().map_err(|e| format!("FontData {:?}", e))?;
    let prov = fd.table_provider(0).map_err(|e| format!("provider {:?}", e))?;
    run_pure_on(&prov, op)
}

fn run_pure_on(prov: &DynamicFontTableProvider<'_>, op: &PureOp) -> Result<Vec<u8>, String> {
    match op {
        PureOp::Subset(ids) => allsorts::subset::subset(prov, ids).map_err(|e| format!("{:?}", e)),
        PureOp::WholeFont { drop } => {
            let mut tags = prov.table_tags().ok_or_else(|| "no tags".to_string())?;
            tags.sort();
            for _ in 0..*drop {
                // drop optional tables from the end of the sorted list (never the required ones)
                if let Some(pos) = tags.iter().rposition(|t| ![tag::HEAD, tag::MAXP, tag::HHEA, tag::HMTX, tag::LOCA, tag::GLYF, tag::CFF].contains(t)) {
                    tags.remove(pos);
                }
            }
            allsorts::subset::whole_font(prov, &tags).map_err(|e| format!("{:?}", e))
        }
        PureOp::Prince { ids, target, convert } => {
            let t = match target {
                0 => PrinceCmapTarget::Unrestricted,
                1 => PrinceCmapTarget::MacRoman,
                _ => PrinceCmapTarget::Omit,
            };
            allsorts::subset::prince::subset(prov, ids, t, *convert).map_err(|e| format!("{:?}", e))
        }
        PureOp::Instance(coords) => {
            let user: Vec<Fixed> = coords.iter().map(|c| Fixed::from_raw(*c)).collect();
            allsorts::variations::instance(prov, &user)
                .map(|(mut b, t)| {
                    for x in t.iter() {
                        b.extend_from_slice(&x.raw_value().to_be_bytes());
                    }
                    b
                })
                .map_err(|e| format!("{:?}", e))
        }
        PureOp::Tables => {
            let mut tags = prov.table_tags().ok_or_else(|| "no tags".to_string())?;
            tags.sort();
            let mut out = Vec::new();
            for t in tags {
                out.extend_from_slice(&t.to_be_bytes());
                match prov.table_data(t) {
                    Ok(Some(d)) => {
                        out.extend_from_slice(&(d.len() as u32).to_be_bytes());
                        out.extend_from_slice(&d);
                    }
                    Ok(None) => out.extend_from_slice(b"none"),
                    Err(e) => out.extend_from_slice(format!("{:?}", e).as_bytes()),
                }
            }
            Ok(out)
        }
    }
}

fn pure_name(op: &PureOp) -> &'static str {
    match op {
        PureOp::Subset(_) => "subset",
        PureOp::WholeFont { .. } => "whole_font",
        PureOp::Prince { .. } => "prince-subset",
        PureOp::Instance(_) => "instance",
        PureOp::Tables => "decode-tables",
    }
}

fn check_pure(c: &PureCase, rec: &mut Rec) -> CaseResult {
    let pool = pure_fonts();
    if pool.is_empty() {
        return Err(Fail::new("C03:harness-no-fonts", "no font for the pure-operation section"));
    }
    let variable: Vec<&PureFont> = pool.iter().filter(|f| !f.axes.is_empty()).collect();
    // instancing is only meaningful on variable fonts (1 in 8 instancing cases keeps a static font: error path)
    let f: &PureFont = if c.op % 5 == 3 && !variable.is_empty() && c.font % 8 != 0 { variable[pick(variable.len(), c.font)] } else { &pool[pick(pool.len(), c.font)] };
    let op = resolve_pure(f, c.op, &c.r);
    let first = run_pure(&f.bytes, &op);
    // unrelated work in between: other allocations, other pure calls, shaping on a Font
    let mut keep: Vec<Vec<u8>> = Vec::new();
    match c.between % 4 {
        0 => {}
        1 => {
            let mut r2 = c.r;
            r2.rotate_left(3);
            let other = resolve_pure(f, c.op.wrapping_add(1 + (c.between >> 2) % 4), &r2);
            if let Ok(b) = run_pure(&f.bytes, &other) {
                keep.push(b);
            }
        }
        2 => {
            if let Ok(mut font) = load(&f.bytes, 0) {
                let g = font.map_glyphs("office 1/2 abc", tag::LATN, MatchingPresentation::NotRequired);
                let _ = font.shape(g, tag::LATN, None, &Features::Mask(FeatureMask::default()), None, true);
            }
        }
        _ => {
            for i in 0..(8 + (c.between >> 2) as usize) {
                keep.push(vec![i as u8; 100 + 37 * i]);
            }
            let mut m = std::collections::HashMap::new();
            for i in 0..64u32 {
                m.insert(i ^ c.r[0], vec![0u8; (i % 7) as usize * 16]);
            }
            keep.push(vec![m.len() as u8]);
        }
    }
    let second = run_pure(&f.bytes, &op);
    // and twice on one provider object
    let (third, fourth) = {
        let fd = ReadScope::new(&f.bytes).read::<FontData<'_>>();
        match fd.map_err(|e| format!("FontData {:?}", e)).and_then(|fd| fd.table_provider(0).map_err(|e| format!("provider {:?}", e))) {
            Ok(prov) => (run_pure_on(&prov, &op), run_pure_on(&prov, &op)),
            Err(e) => (Err(e.clone()), Err(e)),
        }
    };
    drop(keep);
    let name = pure_name(&op);
    for (label, other) in [("second run", &second), ("first run on a shared provider", &third), ("second run on a shared provider", &fourth)] {
        if &first != other {
            let describe = |r: &Result<Vec<u8>, String>| match r {
                Ok(b) => format!("Ok({} bytes, fnv {:016x})", b.len(), fnv1a(b)),
                Err(e) => format!("Err({})", truncate(e, 300)),
            };
            let at = match (&first, other) {
                (Ok(a), Ok(b)) => a.iter().zip(b.iter()).position(|(x, y)| x != y).map(|p| format!(", first difference at byte {}", p)).unwrap_or_default(),
                _ => String::new(),
            };
            rec.artefact("font", &f.bytes);
            return Err(Fail::new(
                format!("C03:{}-not-deterministic", name),
                format!("{} {:?}: first run {} but {} {}{}", f.name, op, describe(&first), label, describe(other), at),
            ));
        }
    }
    rec.evaluations(3);
    rec.set_nontrivial(matches!(&first, Ok(b) if !b.is_empty()));
    rec.class(&format!("pure:{}", name));
    rec.class_if(first.is_err(), &format!("pure:{}:error", name));
    rec.class_if(f.name.ends_with("+STAT-axisOrdering-all-0") && matches!(op, PureOp::Instance(_)) && first.is_ok(), "pure:instance:STAT-axis-orderings-tied");
    rec.sample(|| format!("{} {:?} -> {}", f.name, op, match &first { Ok(b) => format!("{} bytes", b.len()), Err(e) => truncate(e, 80) }));
    Ok(())
}

impl Property for C03 {
    fn id(&self) -> &'static str {
        "C03"
    }
    fn rule(&self) -> String {
        "Section `histories`: proptest generates a font (fixtures: Latin CFF/TrueType with kern, Arabic, Devanagari, Khmer, Myanmar, Thai, five variable fonts, sbix/SVG/EBDT/WOFF/WOFF2, symbol cmap, a generated font whose optional tables are all unreadable; plus six variants of a generated variable font whose GSUB and GPOS carry FeatureVariations), an image-filter configuration, a history of 0-12 queries and one probe query; \
         24 seeded fonts with non-canonical but accepted layout encodings (Coverage 1 unsorted / duplicates, Coverage 2 and ClassDef 2 out of order / overlapping / adjacent / duplicated, several subtables per lookup covering the same glyph, lookups in several features, equal feature tags, duplicate LangSys indices, unsorted PairSets; texts alternate between 2-4 letters); for 35 % of the cases on bare sfnt fonts the layout tables are mutated before BOTH fonts are loaded (Coverage / ClassDef records permuted, duplicated, overlapped in place; and/or 1-3 byte faults in GSUB/GPOS/GDEF/kern); on non-canonical, mutated or per-case generated fonts a panic is C02's business (case skipped, class `skipped:...`). Section `generated-layout`: the font is built per case from a C04 GSUB program and/or a C05 GPOS tape (texts from its glyph universe and witness strings, features from its own tags), optionally mutated the same way. \
         All arguments (text, script, language, feature mask / custom feature list, variation tuple, kerning, presentation, selector, glyph ids, ppem, bit depth) come from small pools so that cache keys collide on some components and differ on others; 55 % of the history ops are of the probe's kind. \
         The canonical rendering (Debug of glyphs/infos/positions/errors, bytes of images and OS/2) of the probe on the used font must equal the probe on a Font freshly loaded from the same bytes; one sampled history op is compared with its own fresh font, and the probe is repeated on the used font. \
         Non-trivial = the history contains at least one op of the probe's kind family (shape/positions; map_glyphs or shaping; lookup or mapping or shaping; advances; names; images) whose arguments differ from the probe's (argument-less queries: any earlier call). Classes record which argument differs; `tuple-differs-with-feature-variations` = shaping probe on a font with FeatureVariations after shaping with a tuple that selects another feature-variation record. \
         Section `pure-twice`: subset / whole_font / prince::subset / instance / container decoding (sfnt, WOFF, WOFF2) are run twice from fresh providers with unrelated work in between and twice on one provider; outputs must be byte-identical (table tags compared as sorted sets); non-trivial = the operation succeeded with non-empty output. \
         Section `image-config`: on the fonts with image tables (sbix, SVG, EBDT, unreadable SVG) histories of image queries, VS16 lookups and set_embedded_image_filter calls; the fresh font of a comparison carries the filter last set on the used font (class `image-query-after-filter-change-on-used-font` = the filter was changed after the used font had answered a query). \
         Section `outline-objects`: one outline source parsed once per case (LocaTable + GlyfTable from C16's table / chain generator with 0-2 records damaged after encoding, or a TrueType fixture with a component of a composite damaged; CFF / CID / CFF2 tables from C18's generator with 0-3 byte faults, or CFF / CFF2 fixtures) serves a history of 0-9 calls and a probe: visits of in-range, composite, nested, out-of-range and failing glyphs (CFF2: a tuple per call from a pool of six), for glyf also get_parsed_glyph, the record queries (number_of_contours / is_composite / number_of_points) and GlyfRecord::parse; Result and the complete sink callback sequence of the probe and of one sampled history call must equal those on a freshly parsed object, and repeating the probe must not change it; a panic on damaged data is C16's / C18's business (skipped, counted); non-trivial = the history holds a call other than the probe. \
         Section `pure-wide`: prince::subset with a supplied Mac Roman cmap, variations::instance of C12's generated fonts at their generated coordinates, table-by-table decoding of generated WOFF (C10) and WOFF2 (C11 models; transformed glyf / hmtx, collections) files, CFF / CFF2 / glyf writers on generated tables; run twice from freshly parsed input with a sibling operation of the same kind (same structure, other content / arguments), shaping, or allocations in between, and twice on the long-lived object where there is one (container, provider, parsed CFF); byte-identical. \
         Section `script-histories`: the histories of `histories` on 18 fonts of the scripts with their own shaping engines (Syriac, Arabic, Devanagari, Bengali, Tamil, Gujarati, Malayalam, Telugu, Kannada, Sinhala, Khmer, Myanmar, Thai, Lao; old and new Indic script tags), probe kinds shape / positions / map_glyphs / lookup_glyph_index (class `script-probe:<tag>`). \
         `fv-model` checks the generated font against its model on fresh fonts in every regime; `pinned` replays fixed histories for the two cache-key defects found with this check (repaired since). Distinct by hash of the generated case."
            .to_string()
    }
    fn assumptions(&self) -> Vec<String> {
        vec![
            "Debug renderings of RawGlyph/Info/GlyphPosition/ParseError cover every observable field of the results".into(),
            "set_embedded_image_filter is configuration, not a query: in `histories` it is applied identically to used and fresh fonts right after construction; in `image-config` it is also called mid-history, and the fresh font of each comparison is configured with the filter in force on the used font at that point".into(),
            "variation tuples are obtained the documented way (FvarTable::normalize with the font's avar)".into(),
            "two runs in one process use differently seeded HashMaps (std RandomState), so iteration-order dependence shows up as a byte difference".into(),
        ]
    }
    fn run(&self, ctx: &mut Ctx) {
        let n = ctx.cases(60_000, 10_000_000);
        ctx.section("histories", n, case_strategy(), |c, rec| check_case(c, rec));
        let n = ctx.cases(5_000, 600_000);
        ctx.section("generated-layout", n, gen_strategy(), |c, rec| check_generated(c, rec));
        let n = ctx.cases(6_000, 400_000);
        ctx.section(
            "pure-twice",
            n,
            (any::<u32>(), any::<u8>(), proptest::array::uniform8(any::<u32>()), any::<u8>()).prop_map(|(font, op, r, between)| PureCase { font, op, r, between }),
            |c, rec| check_pure(c, rec),
        );
        let n = ctx.cases(3_000, 300_000);
        ctx.section("image-config", n, image_case_strategy(), |c, rec| check_image_case(c, rec));
        let n = ctx.cases(12_000, 1_500_000);
        ctx.section("outline-objects", n, objects::case_strategy(), |c, rec| objects::check_case(c, rec));
        let n = ctx.cases(2_000, 200_000);
        ctx.section("pure-wide", n, objects::wide_strategy(), |c, rec| objects::check_wide(c, rec));
        let n = ctx.cases(5_000, 1_000_000);
        ctx.section("script-histories", n, script_case_strategy(), |c, rec| check_script_case(c, rec));
        // variants x 9 tuple choices x 16 (script/lang, smcp, kerning) combinations
        ctx.enumerate("fv-model", fv_font::VARIANTS as u64 * 9 * 16, true, fv_model_item);
        ctx.enumerate("pinned", 8, true, pinned);
    }
}
