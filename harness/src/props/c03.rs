//! C03 — not built yet.
use crate::engine::{Ctx, Property};

pub struct C03;

impl Property for C03 {
    fn id(&self) -> &'static str {
        "C03"
    }
    fn rule(&self) -> String {
        "not implemented".to_string()
    }
    fn run(&self, _ctx: &mut Ctx) {}
}
