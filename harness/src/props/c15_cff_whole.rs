// (included into c15_cff.rs) whole CFF / CFF2 tables, ItemVariationStore, fixtures, edges, run()

fn moi_objects(i: &MaybeOwnedIndex<'_>) -> Vec<Vec<u8>> {
    (0..i.len()).map(|k| i.read_object(k).map(|o| o.to_vec()).unwrap_or_default()).collect()
}

fn priv_of(d: &allsorts::cff::PrivateDict, subrs: &Option<MaybeOwnedIndex<'_>>) -> Result<PrivObs, String> {
    Ok(PrivObs { dict: strip(&dict_to_obs(d)?, true), subrs: subrs.as_ref().map(moi_objects) })
}

/// what allsorts' value of a CFF table shows through its public fields and accessors
fn obs_of_allsorts(c: &CFF<'_>) -> Result<CffObs, String> {
    let font = c.fonts.first().ok_or("no font")?;
    let n = font.char_strings_index.len();
    Ok(CffObs {
        minor: c.header.minor,
        hdr_off_size: c.header.off_size,
        names: moi_objects(&c.name_index),
        strings: moi_objects(&c.string_index),
        gsubrs: moi_objects(&c.global_subr_index),
        top: strip(&dict_to_obs(&font.top_dict)?, false),
        charstrings: moi_objects(&font.char_strings_index),
        charset: match &font.charset {
            Charset::ISOAdobe => Err(0),
            Charset::Expert => Err(1),
            Charset::ExpertSubset => Err(2),
            Charset::Custom(cs) => Ok(charset_ids(cs, n)),
        },
        kind: match &font.data {
            CFFVariant::Type1(t) => KindObs::Type1 {
                encoding: match &t.encoding {
                    Encoding::Standard => Err(0),
                    Encoding::Expert => Err(1),
                    Encoding::Custom(e) => Ok(encoding_model(e)),
                },
                private: priv_of(&t.private_dict, &t.local_subr_index)?,
            },
            CFFVariant::CID(cid) => {
                let mut fds = Vec::new();
                for i in 0..cid.font_dict_index.len() {
                    let fd = cid.font_dict(i).map_err(|e| format!("font_dict({}): {:?}", i, e))?;
                    let p = cid.private_dicts.get(i).ok_or("private dict missing")?;
                    let s = cid.local_subr_indices.get(i).ok_or("local subrs missing")?;
                    fds.push((strip(&dict_to_obs(&fd)?, false), priv_of(p, s)?));
                }
                KindObs::Cid { fds, fd_of_glyph: fds_of(&cid.fd_select, n) }
            }
        },
    })
}

fn obs_eq(a: &CffObs, b: &CffObs) -> Result<(), String> {
    let dict_pairs = |a: &CffObs, b: &CffObs| -> bool {
        if !obs_close(&a.top, &b.top) {
            return false;
        }
        match (&a.kind, &b.kind) {
            (KindObs::Type1 { encoding: ea, private: pa }, KindObs::Type1 { encoding: eb, private: pb }) => ea == eb && pa.subrs == pb.subrs && obs_close(&pa.dict, &pb.dict),
            (KindObs::Cid { fds: fa, fd_of_glyph: ga }, KindObs::Cid { fds: fb, fd_of_glyph: gb }) => {
                ga == gb && fa.len() == fb.len() && fa.iter().zip(fb.iter()).all(|(x, y)| obs_close(&x.0, &y.0) && obs_close(&x.1.dict, &y.1.dict) && x.1.subrs == y.1.subrs)
            }
            _ => false,
        }
    };
    if a.minor != b.minor || a.hdr_off_size != b.hdr_off_size {
        return Err(format!("header {}/{} vs {}/{}", a.minor, a.hdr_off_size, b.minor, b.hdr_off_size));
    }
    if a.names != b.names {
        return Err("Name INDEX differs".into());
    }
    if a.strings != b.strings {
        return Err("String INDEX differs".into());
    }
    if a.gsubrs != b.gsubrs {
        return Err("Global Subr INDEX differs".into());
    }
    if a.charstrings != b.charstrings {
        return Err(format!("CharStrings differ ({} vs {} glyphs)", a.charstrings.len(), b.charstrings.len()));
    }
    if a.charset != b.charset {
        return Err(format!("charset {:?} vs {:?}", a.charset.as_ref().map(|v| &v[..v.len().min(8)]), b.charset.as_ref().map(|v| &v[..v.len().min(8)])));
    }
    if !dict_pairs(a, b) {
        return Err(format!("DICTs / variant differ: top {:?} vs {:?}; kind {:?} vs {:?}", a.top, b.top, a.kind, b.kind));
    }
    Ok(())
}

/// bytes → allsorts → bytes, with every generation observed three ways
fn cff_roundtrip(raw: &[u8], expect: Option<&CffObs>, tag: &str, mutate: Option<&dyn Fn(&mut CFF<'_>)>) -> Result<Vec<u8>, crate::engine::Fail> {
    let sig = |s: &str| format!("{}:{}", tag, s);
    let mine = dec_cff(raw).map_err(|e| fail(&sig("input-undecodable-by-my-reader"), e))?;
    if let Some(x) = expect {
        obs_eq(&mine, x).map_err(|e| crate::engine::Fail::new("harness:cffgen-selfcheck", format!("my encoder and decoder disagree: {}", e)))?;
    }
    let mut c1 = ReadScope::new(raw).read::<CFF<'_>>().map_err(|e| fail(&sig("parse"), format!("{:?}", e)))?;
    let o1 = obs_of_allsorts(&c1).map_err(|e| fail(&sig("observe"), e))?;
    obs_eq(&o1, &mine).map_err(|e| fail(&sig("read-differs"), e))?;
    let mut want = mine;
    if let Some(f) = mutate {
        f(&mut c1);
        want = obs_of_allsorts(&c1).map_err(|e| fail(&sig("observe"), e))?;
    }
    let b2 = wb::<CFF<'_>, _>(&c1).map_err(|e| fail(&sig("write-of-parsed-refused"), format!("{:?}", e)))?;
    let d2 = dec_cff(&b2).map_err(|e| fail(&sig("written-undecodable"), format!("{}; first bytes {}", e, hexs(&b2))))?;
    obs_eq(&d2, &want).map_err(|e| fail(&sig("written-differs"), e))?;
    if b2.get(2) != Some(&4) {
        return Err(fail(&sig("header-size"), format!("hdrSize {:?}", b2.get(2))));
    }
    let c2 = ReadScope::new(&b2).read::<CFF<'_>>().map_err(|e| fail(&sig("reparse"), format!("{:?}", e)))?;
    let o2 = obs_of_allsorts(&c2).map_err(|e| fail(&sig("observe"), e))?;
    obs_eq(&o2, &want).map_err(|e| fail(&sig("value-changed"), e))?;
    let b3 = wb::<CFF<'_>, _>(&c2).map_err(|e| fail(&sig("rewrite-refused"), format!("{:?}", e)))?;
    if b3 != b2 {
        return Err(fail(&sig("unstable"), diff(&b2, &b3)));
    }
    Ok(b2)
}

fn check_cff(m: &CffM, rec: &mut Rec) -> CaseResult {
    let raw = enc_cff(m);
    let exp = obs_of_model(m);
    rec.artefact("cff", &raw);
    // an explicit `0 charset` entry gets its own signature prefix (known writer defect)
    let tag = if m.charset == CharsetM::Predefined(0, true) { "cff-explicit-charset0" } else { "cff" };
    cff_roundtrip(&raw, Some(&exp), tag, None)?;
    // owned INDEX writer (offSize selection): replace glyph 0 so that the last CharStrings offset
    // lands on an offSize edge
    if tag == "cff" {
        let h = crate::engine::util::fnv1a(&raw);
        let edges: [usize; 6] = [255, 256, 257, 65535, 65536, 65537];
        let last_offset = if h % 8 == 0 { edges[3 + (h / 8 % 3) as usize] } else { edges[(h / 8 % 3) as usize] };
        let others: usize = m.charstrings.iter().skip(1).map(|c| c.len()).sum();
        if last_offset > others + 1 {
            let size = last_offset - 1 - others;
            let f = move |c: &mut CFF<'_>| {
                c.fonts[0].char_strings_index.replace(0, vec![0x0e; size]);
            };
            cff_roundtrip(&raw, None, "cff-owned-index", Some(&f))?;
            rec.class(if last_offset > 60000 { "cff:owned-index-last-offset≈65536" } else { "cff:owned-index-last-offset≈256" });
            rec.evaluations(1);
        }
    }
    match &m.kind {
        KindM::Type1 { encoding, private } => {
            rec.class("cff:name-keyed");
            rec.class(match encoding {
                EncodingM::Predefined(_, true) => "cff:encoding-predefined-explicit",
                EncodingM::Predefined(_, false) => "cff:encoding-default",
                EncodingM::F0(_) => "cff:encoding-format0",
                EncodingM::F1(_) => "cff:encoding-format1",
            });
            rec.class_if(private.subrs.is_some(), "cff:local-subrs");
        }
        KindM::Cid { fds, fdselect, .. } => {
            rec.class("cff:cid-keyed");
            rec.class(if matches!(fdselect, FdSelectM::F0(_)) { "cff:fdselect0" } else { "cff:fdselect3" });
            rec.class_if(fds.len() > 1, "cff:several-fds");
        }
    }
    rec.class(match &m.charset {
        CharsetM::Predefined(_, true) => "cff:charset-predefined-explicit",
        CharsetM::Predefined(_, false) => "cff:charset-default",
        CharsetM::F0(_) => "cff:charset-format0",
        CharsetM::F1(_) => "cff:charset-format1",
        CharsetM::F2(_) => "cff:charset-format2",
    });
    rec.class_if(m.hdr_extra > 0, "cff:hdrSize>4");
    rec.class_if(m.short_offsets, "cff:offsets-in-shortest-integer-form");
    rec.class_if(m.index_off_size > 0, "cff:non-minimal-offSize");
    rec.set_nontrivial(m.charstrings.len() >= 2);
    rec.hash_bytes(&raw);
    Ok(())
}

fn blob() -> impl Strategy<Value = Vec<u8>> {
    proptest::collection::vec(any::<u8>(), 0..12)
}

fn priv_strategy() -> impl Strategy<Value = PrivM> {
    (dict_strategy(&PRIV_OPS, true), proptest::option::weighted(0.5, proptest::collection::vec(blob(), 0..4))).prop_map(|(dict, subrs)| PrivM { dict, subrs })
}

fn cff_strategy() -> impl Strategy<Value = CffM> {
    let t1 = (
        prop_oneof![
            2 => Just(EncodingM::Predefined(0, false)),
            1 => (0u8..2).prop_map(|k| EncodingM::Predefined(k, true)),
            2 => encoding_strategy(),
        ],
        priv_strategy(),
    )
        .prop_map(|(encoding, private)| (0usize, encoding, private, Vec::new(), Vec::new()));
    let cid = (proptest::collection::vec((dict_strategy(&FD_OPS, false), priv_strategy()), 1..4), proptest::collection::vec((any::<u8>(), 1usize..4), 8), any::<bool>())
        .prop_map(|(fds, sel, f3)| (if f3 { 2usize } else { 1 }, EncodingM::Predefined(0, false), PrivM { dict: vec![], subrs: None }, fds, sel));
    (
        (any::<u8>(), 0u8..4, 1u8..5, blob(), proptest::collection::vec(blob(), 0..4), proptest::collection::vec(blob(), 0..4)),
        dict_strategy(&TOP_OPS, false),
        proptest::collection::vec(blob(), 1..8),
        (0u8..6, proptest::collection::vec((1u16..400, 0usize..4), 8), proptest::collection::vec(any::<u16>(), 8), 0u8..3),
        prop_oneof![3 => t1, 2 => cid],
        prop_oneof![3 => Just(0u8), 1 => 1u8..5],
    )
        .prop_map(|((minor, hdr_extra, hdr_off_size, name, strings, gsubrs), top, charstrings, (cs_kind, cuts, raw_ids, pre), (k, encoding, private, fds, sel), index_off_size)| {
            let n = charstrings.len();
            let want = n - 1;
            let charset = match cs_kind {
                0 => CharsetM::Predefined(0, false),
                1 => CharsetM::Predefined(pre, true),
                2 => CharsetM::F0(raw_ids.into_iter().take(want).collect()),
                _ => {
                    let mut ranges: Vec<(u16, u16)> = Vec::new();
                    let (mut left, mut id) = (want, 0u32);
                    for (gap, len) in cuts {
                        if left == 0 {
                            break;
                        }
                        let l = (len + 1).min(left);
                        id += gap as u32;
                        ranges.push((id as u16, (l - 1) as u16));
                        id += l as u32;
                        left -= l;
                    }
                    if cs_kind % 2 == 1 {
                        CharsetM::F1(ranges.into_iter().map(|(f, l)| (f, l as u8)).collect())
                    } else {
                        CharsetM::F2(ranges)
                    }
                }
            };
            let kind = if k == 0 {
                KindM::Type1 { encoding, private }
            } else {
                let nf = fds.len() as u8;
                let fdselect = if k == 2 {
                    let mut ranges = Vec::new();
                    let mut g = 0usize;
                    for (fd, len) in &sel {
                        if g >= n {
                            break;
                        }
                        ranges.push((g as u16, fd % nf));
                        g += len;
                    }
                    FdSelectM::F3(ranges, n as u16)
                } else {
                    FdSelectM::F0((0..n).map(|g| sel[g % sel.len()].0 % nf).collect())
                };
                KindM::Cid { ros: (391, 392, 0), fds, fdselect }
            };
            // a Top DICT that starts with SyntheticBase is not implemented by the reader; TOP_OPS has none
            let short_offsets = minor % 2 == 1;
            CffM { minor, hdr_extra, hdr_off_size, name, strings, gsubrs, top, charstrings, charset, kind, index_off_size, short_offsets }
        })
}

// ------------------------------------------------------------------ ItemVariationStore

fn ivs_strategy() -> impl Strategy<Value = IvsM> {
    let coord = prop_oneof![2 => proptest::sample::select(vec![-16384i16, -8192, 0, 8192, 16384]), 1 => -16384i16..=16384];
    (1u16..4, proptest::collection::vec(proptest::collection::vec((coord.clone(), coord.clone(), coord), 3), 1..5), proptest::collection::vec((proptest::collection::vec(any::<u16>(), 0..5), any::<u16>(), proptest::bool::weighted(0.3), proptest::collection::vec(proptest::collection::vec(any::<i32>(), 5), 0..4)), 0..4), 0u8..4)
        .prop_map(|(axis_count, raw_regions, raw_subs, layout)| {
            let regions: Vec<Vec<(i16, i16, i16)>> = raw_regions
                .into_iter()
                .map(|r| {
                    r.into_iter()
                        .take(axis_count as usize)
                        .map(|(a, b, c)| {
                            let mut v = [a, b, c];
                            v.sort();
                            // start ≤ peak ≤ end on one side of zero, or peak 0
                            if v[0] < 0 && v[2] > 0 {
                                (0, 0, 0)
                            } else {
                                (v[0], v[1], v[2])
                            }
                        })
                        .collect()
                })
                .collect();
            let nr = regions.len();
            let subtables = raw_subs
                .into_iter()
                .map(|(ri, wc, long, rows)| {
                    let region_indexes: Vec<u16> = ri.into_iter().map(|r| r % nr as u16).collect();
                    let k = region_indexes.len();
                    let word_count = if k == 0 { 0 } else { wc % (k as u16 + 1) };
                    let rows = rows
                        .into_iter()
                        .map(|row| {
                            row.into_iter()
                                .take(k)
                                .enumerate()
                                .map(|(c, v)| {
                                    let word = c < word_count as usize;
                                    match (long, word) {
                                        (true, true) => v,
                                        (true, false) | (false, true) => v as i16 as i32,
                                        (false, false) => v as i8 as i32,
                                    }
                                })
                                .collect()
                        })
                        .collect();
                    IvdM { region_indexes, word_count, long, rows }
                })
                .collect();
            let mut subtables: Vec<IvdM> = subtables;
            // make identical sub-tables likely when sharing is requested
            if layout & 2 == 2 && subtables.len() >= 2 {
                let first = subtables[0].clone();
                let last = subtables.len() - 1;
                subtables[last] = first;
            }
            IvsM { axis_count, regions, subtables, layout }
        })
}

fn ivs_probe_coords(m: &IvsM) -> Vec<Vec<i16>> {
    let n = m.axis_count as usize;
    let mut out = vec![vec![0i16; n], vec![16384; n], vec![-16384; n], vec![8192; n], vec![-4096; n]];
    for r in m.regions.iter().take(3) {
        out.push(r.iter().map(|a| a.1).collect());
        out.push(r.iter().map(|a| ((a.0 as i32 + a.1 as i32) / 2) as i16).collect());
    }
    out
}

/// adjustments of every item for the probe coordinates, through allsorts' accessor
fn ivs_adjustments(s: &ItemVariationStore<'_>, m: &IvsM, fvar: &FvarTable<'_>) -> Result<Vec<f32>, String> {
    let mut out = Vec::new();
    for coords in ivs_probe_coords(m) {
        let t: Vec<F2Dot14> = coords.iter().map(|c| F2Dot14::from_raw(*c)).collect();
        let tuple = fvar.owned_tuple(&t).ok_or("owned_tuple")?;
        for (o, st) in m.subtables.iter().enumerate() {
            for i in 0..st.rows.len() {
                let a = s.adjustment(DeltaSetIndexMapEntry { outer_index: o as u16, inner_index: i as u16 }, &tuple).map_err(|e| format!("adjustment({}, {}): {:?}", o, i, e))?;
                out.push(a);
            }
        }
    }
    Ok(out)
}

fn check_ivs(m: &IvsM, rec: &mut Rec) -> CaseResult {
    let raw = enc_ivs(m);
    let want = IvsM { layout: 0, ..m.clone() };
    if dec_ivs(&raw).as_ref() != Ok(&want) {
        return Err(crate::engine::Fail::new("harness:cffgen-selfcheck", format!("IVS encoder/decoder disagree: {:?} vs {:?}", dec_ivs(&raw), want)));
    }
    let axes: Vec<AxisModel> = (0..m.axis_count).map(|i| AxisModel { tag: [b'a', b'x', b'0', b'0' + i as u8], min: -65536, default: 0, max: 65536, flags: 0, name_id: 256 }).collect();
    let fvar_bytes = fvar_table(&axes, &[], 0);
    let fvar = ReadScope::new(&fvar_bytes).read::<FvarTable<'_>>().map_err(|e| crate::engine::Fail::new("harness:fvar", format!("{:?}", e)))?;
    let s1 = ReadScope::new(&raw).read::<ItemVariationStore<'_>>().map_err(|e| fail("ivs:parse", format!("{:?}; {}", e, hexs(&raw))))?;
    let a1 = ivs_adjustments(&s1, m, &fvar).map_err(|e| fail("ivs:adjustment", e))?;
    // against the model (f32 accumulation: generous tolerance, deltas can be 2^31)
    let mut k = 0;
    for coords in ivs_probe_coords(m) {
        for (o, st) in m.subtables.iter().enumerate() {
            for i in 0..st.rows.len() {
                let exp = ivs_adjustment(m, o, i, &coords).unwrap_or(f64::NAN);
                let scale: f64 = st.rows[i].iter().map(|d| (*d as f64).abs()).sum::<f64>().max(1.0);
                if !((a1[k] as f64 - exp).abs() <= 1e-5 * scale) {
                    return Err(fail("ivs:adjustment-differs", format!("item ({}, {}) at {:?}: {} vs model {}", o, i, coords, a1[k], exp)));
                }
                k += 1;
            }
        }
    }
    let b2 = wb::<ItemVariationStore<'_>, _>(&s1).map_err(|e| fail("ivs:write-of-parsed-refused", format!("{:?}", e)))?;
    rec.artefact("ivs-written", &b2);
    let d2 = dec_ivs(&b2).map_err(|e| fail("ivs:written-undecodable", format!("{}; written {}", e, hexs(&b2))))?;
    if d2 != want {
        return Err(fail("ivs:written-differs", format!("decoded {:?}, model {:?}; written {}", d2, want, hexs(&b2))));
    }
    let s2 = ReadScope::new(&b2).read::<ItemVariationStore<'_>>().map_err(|e| fail("ivs:reparse", format!("{:?}; written {}", e, hexs(&b2))))?;
    let a2 = ivs_adjustments(&s2, m, &fvar).map_err(|e| fail("ivs:adjustment", e))?;
    if a1 != a2 {
        return Err(fail("ivs:value-changed", "adjustments differ after write+read".into()));
    }
    let b3 = wb::<ItemVariationStore<'_>, _>(&s2).map_err(|e| fail("ivs:rewrite-refused", format!("{:?}", e)))?;
    if b3 != b2 {
        return Err(fail("ivs:unstable", diff(&b2, &b3)));
    }
    rec.evaluations(a1.len() as u64);
    rec.class("ivs");
    rec.class_if(m.subtables.iter().any(|s| s.long), "ivs:long-deltas");
    rec.class_if(m.subtables.len() >= 2, "ivs:several-subtables");
    rec.class_if(m.layout & 1 == 1, "ivs:region-list-last");
    rec.class_if(m.layout & 2 == 2 && m.subtables.len() >= 2, "ivs:sub-tables-share-one-copy");
    rec.set_nontrivial(m.subtables.iter().any(|s| !s.rows.is_empty()));
    rec.hash_bytes(&raw);
    Ok(())
}

// ------------------------------------------------------------------ ItemVariationStore: region count at the edges of its field

/// A store value whose region list is longer than anything a small byte string gives: the sub-tables of `base`
/// (they refer to the first regions only) under a region list continued up to `region_count` regions.
#[derive(Clone, Debug)]
struct IvsRegionsM {
    base: IvsM,
    region_count: u32,
    fill: u8,
}

const FILL_REGIONS: [(i16, i16, i16); 6] = [(0, 0, 0), (0, 8192, 16384), (-16384, -8192, 0), (0, 16384, 16384), (-16384, -16384, 0), (4096, 8192, 12288)];

fn ivs_regions_model(m: &IvsRegionsM) -> IvsM {
    let mut regions = m.base.regions.clone();
    let axes = m.base.axis_count as usize;
    for k in regions.len()..m.region_count as usize {
        regions.push((0..axes).map(|a| FILL_REGIONS[(m.fill as usize + 7 * k + 3 * a) % FILL_REGIONS.len()]).collect());
    }
    IvsM { axis_count: m.base.axis_count, regions, subtables: m.base.subtables.clone(), layout: 0 }
}

fn ivs_regions_strategy() -> impl Strategy<Value = IvsRegionsM> {
    // regionCount is a uint16 whose high-order bit is reserved ("must be less than 32768"): both edges of the field
    let count = prop_oneof![
        4 => proptest::sample::select(vec![32766u32, 32767, 32768, 32769, 65534, 65535, 65536, 65537]),
        2 => 32768u32..=65535,
        2 => 1u32..32768,
        1 => 65536u32..70000,
    ];
    (ivs_strategy(), count, any::<u8>()).prop_map(|(base, count, fill)| {
        let region_count = count.max(base.regions.len() as u32);
        IvsRegionsM { base, region_count, fill }
    })
}

fn check_ivs_regions(m: &IvsRegionsM, rec: &mut Rec) -> CaseResult {
    let want = ivs_regions_model(m);
    let n = want.regions.len();
    // the value: sub-tables as parsed from my encoding of the small store, region list over my encoding of the long list
    let small = enc_ivs(&m.base);
    let s_small = ReadScope::new(&small).read::<ItemVariationStore<'_>>().map_err(|e| fail("ivs:parse", format!("{:?}; {}", e, hexs(&small))))?;
    let mut rb = Buf::new();
    for r in &want.regions {
        for a in r {
            rb.i16(a.0).i16(a.1).i16(a.2);
        }
    }
    let variation_regions = ReadScope::new(&rb.0).ctxt().read_array_dep::<VariationRegion<'_>>(n, want.axis_count).map_err(|e| crate::engine::Fail::new("harness:array", format!("{:?}", e)))?;
    let value = ItemVariationStore { variation_region_list: VariationRegionList { variation_regions }, item_variation_data: s_small.item_variation_data.clone() };
    rec.class(match n {
        0..=32766 => "ivs-regions:count<32767",
        32767 => "ivs-regions:count=32767(largest)",
        32768..=65535 => "ivs-regions:count-32768..65535(reserved-bit)",
        _ => "ivs-regions:count>65535",
    });
    rec.set_nontrivial(n >= 32767);
    rec.hash_u64(n as u64);
    rec.hash_bytes(&small);
    let what = || format!("an ItemVariationStore value with {} regions ({} axes, {} sub-tables)", n, want.axis_count, want.subtables.len());
    let written = wb::<ItemVariationStore<'_>, _>(&value);
    if n >= 32768 {
        // "Must be less than 32768": the count exceeds the (15-bit) field, the value has to be refused
        let Ok(b) = written else { return Ok(()) };
        rec.artefact("ivs-written-head", &b[..b.len().min(64)]);
        let at = b.get(2..6).map(|x| u32::from_be_bytes([x[0], x[1], x[2], x[3]]) as usize);
        let field = at.and_then(|at| b.get(at + 2..at + 4)).map(|x| u16::from_be_bytes([x[0], x[1]]));
        let reread = ReadScope::new(&b).read::<ItemVariationStore<'_>>().map(|s| s.variation_region_list.variation_regions.len());
        // Defect model "the count is only squeezed through 16 bits": written with the count verbatim, reserved bit set
        if n <= 65535 && field == Some(n as u16) && reread.is_err() {
            return Err(fail(
                "ivs:regionCount-reserved-bit-written",
                format!("{} was written instead of refused: regionCount field {:#06x} has the reserved high bit set (must be < 32768) and the written bytes do not parse ({:?}); head {}", what(), n, reread, hexs(&b[..b.len().min(24)])),
            ));
        }
        return Err(fail("ivs:oversize-region-list-written", format!("{} was written ({} bytes, regionCount field {:?}, re-read {:?}); head {}", what(), b.len(), field, reread, hexs(&b[..b.len().min(24)]))));
    }
    let b2 = written.map_err(|e| fail("ivs:write-of-value-refused", format!("{}: {:?}", what(), e)))?;
    let d2 = dec_ivs(&b2).map_err(|e| fail("ivs:written-undecodable", format!("{}: {}; head {}", what(), e, hexs(&b2))))?;
    if d2 != want {
        let first = d2.regions.iter().zip(want.regions.iter()).position(|(x, y)| x != y);
        return Err(fail("ivs:written-differs", format!("{}: decoded {} regions / {} sub-tables, first differing region {:?}, sub-tables equal: {}; head {}", what(), d2.regions.len(), d2.subtables.len(), first, d2.subtables == want.subtables, hexs(&b2))));
    }
    let s2 = ReadScope::new(&b2).read::<ItemVariationStore<'_>>().map_err(|e| fail("ivs:reparse", format!("{}: {:?}; head {}", what(), e, hexs(&b2))))?;
    if s2.variation_region_list.variation_regions.len() != n {
        return Err(fail("ivs:value-changed", format!("{}: {} regions after write+read", what(), s2.variation_region_list.variation_regions.len())));
    }
    // the sub-tables refer to the first regions only: adjustments of the value and of its re-read copy
    let axes: Vec<AxisModel> = (0..want.axis_count).map(|i| AxisModel { tag: [b'a', b'x', b'0', b'0' + i as u8], min: -65536, default: 0, max: 65536, flags: 0, name_id: 256 }).collect();
    let fvar_bytes = fvar_table(&axes, &[], 0);
    let fvar = ReadScope::new(&fvar_bytes).read::<FvarTable<'_>>().map_err(|e| crate::engine::Fail::new("harness:fvar", format!("{:?}", e)))?;
    let a1 = ivs_adjustments(&value, &m.base, &fvar).map_err(|e| fail("ivs:adjustment", e))?;
    let a2 = ivs_adjustments(&s2, &m.base, &fvar).map_err(|e| fail("ivs:adjustment", e))?;
    if a1 != a2 {
        return Err(fail("ivs:value-changed", format!("{}: adjustments differ after write+read", what())));
    }
    let b3 = wb::<ItemVariationStore<'_>, _>(&s2).map_err(|e| fail("ivs:rewrite-refused", format!("{:?}", e)))?;
    if b3 != b2 {
        return Err(fail("ivs:unstable", diff(&b2, &b3)));
    }
    rec.evaluations(a1.len() as u64);
    Ok(())
}

// ------------------------------------------------------------------ CFF2

fn obs_of_allsorts2(c: &CFF2<'_>) -> Result<Cff2Obs, String> {
    let n = c.char_strings_index.len();
    let mut fds = Vec::new();
    for f in &c.fonts {
        let d: DictObs = dict_to_obs(&f.private_dict)?;
        fds.push(PrivObs { dict: strip2(&d), subrs: f.local_subr_index.as_ref().map(moi_objects) });
    }
    let vstore = match &c.vstore {
        Some(v) => {
            let b = wb::<ItemVariationStore<'_>, _>(v).map_err(|e| format!("vstore write: {:?}", e))?;
            // the value has no public fields beyond the region list; observe it through my reader of a stand-alone write
            Some(dec_ivs(&b).map_err(|e| format!("vstore (stand-alone write) undecodable: {}", e))?)
        }
        None => None,
    };
    Ok(Cff2Obs {
        minor: c.header.minor,
        font_matrix: c
            .top_dict
            .get(Operator::FontMatrix)
            .map(|v| v.iter().map(operand_value).collect::<Result<Vec<f64>, String>>())
            .transpose()?
            .filter(|v| v != &vec![0.001, 0.0, 0.0, 0.001, 0.0, 0.0]),
        gsubrs: moi_objects(&c.global_subr_index),
        charstrings: moi_objects(&c.char_strings_index),
        fds,
        fd_of_glyph: c.fd_select.as_ref().map(|f| fds_of(f, n)),
        vstore,
    })
}

fn obs2_eq(a: &Cff2Obs, b: &Cff2Obs, with_vstore: bool) -> Result<(), String> {
    if a.minor != b.minor {
        return Err(format!("minor {} vs {}", a.minor, b.minor));
    }
    match (&a.font_matrix, &b.font_matrix) {
        (None, None) => {}
        (Some(x), Some(y)) if x.len() == y.len() && x.iter().zip(y.iter()).all(|(p, q)| close(*p, *q)) => {}
        (x, y) => return Err(format!("FontMatrix {:?} vs {:?}", x, y)),
    }
    if a.gsubrs != b.gsubrs {
        return Err("Global Subr INDEX differs".into());
    }
    if a.charstrings != b.charstrings {
        return Err(format!("CharStrings differ ({} vs {})", a.charstrings.len(), b.charstrings.len()));
    }
    if a.fds.len() != b.fds.len() || !a.fds.iter().zip(b.fds.iter()).all(|(x, y)| obs_close(&x.dict, &y.dict) && x.subrs == y.subrs) {
        return Err(format!("Font/Private DICTs differ: {:?} vs {:?}", a.fds, b.fds));
    }
    if a.fd_of_glyph != b.fd_of_glyph {
        return Err(format!("FDSelect {:?} vs {:?}", a.fd_of_glyph, b.fd_of_glyph));
    }
    if with_vstore && a.vstore != b.vstore {
        return Err(format!("VariationStore {:?} vs {:?}", a.vstore, b.vstore));
    }
    if a.vstore.is_some() != b.vstore.is_some() {
        return Err("VariationStore presence differs".into());
    }
    Ok(())
}

fn cff2_roundtrip(raw: &[u8], expect: Option<&Cff2Obs>, tag: &str) -> Result<Vec<u8>, crate::engine::Fail> {
    let sig = |s: &str| format!("{}:{}", tag, s);
    let mine = dec_cff2(raw).map_err(|e| fail(&sig("input-undecodable-by-my-reader"), e))?;
    if let Some(x) = expect {
        obs2_eq(&mine, x, true).map_err(|e| crate::engine::Fail::new("harness:cffgen-selfcheck", format!("my CFF2 encoder and decoder disagree: {}", e)))?;
    }
    let c1 = ReadScope::new(raw).read::<CFF2<'_>>().map_err(|e| fail(&sig("parse"), format!("{:?}", e)))?;
    // the variation store of the value is observed through a stand-alone write, which is itself under test:
    // compare it only when that works, and always compare the written table with my reader
    let o1 = obs_of_allsorts2(&c1);
    let vs_ok = o1.is_ok();
    if let Ok(o1) = &o1 {
        obs2_eq(o1, &mine, true).map_err(|e| fail(&sig("read-differs"), e))?;
    }
    let b2 = wb::<CFF2<'_>, _>(c1.clone()).map_err(|e| fail(&sig("write-of-parsed-refused"), format!("{:?}", e)))?;
    let d2 = dec_cff2(&b2).map_err(|e| fail(&sig("written-undecodable"), format!("{}; first bytes {}", e, hexs(&b2))))?;
    obs2_eq(&d2, &mine, true).map_err(|e| fail(&sig("written-differs"), e))?;
    if b2.get(2) != Some(&5) {
        return Err(fail(&sig("header-size"), format!("headerSize {:?}", b2.get(2))));
    }
    let c2 = ReadScope::new(&b2).read::<CFF2<'_>>().map_err(|e| fail(&sig("reparse"), format!("{:?}; first bytes {}", e, hexs(&b2))))?;
    if vs_ok {
        let o2 = obs_of_allsorts2(&c2).map_err(|e| fail(&sig("observe"), e))?;
        obs2_eq(&o2, &mine, true).map_err(|e| fail(&sig("value-changed"), e))?;
    }
    let b3 = wb::<CFF2<'_>, _>(c2).map_err(|e| fail(&sig("rewrite-refused"), format!("{:?}", e)))?;
    if b3 != b2 {
        return Err(fail(&sig("unstable"), diff(&b2, &b3)));
    }
    Ok(b2)
}

fn check_cff2(m: &Cff2M, rec: &mut Rec) -> CaseResult {
    let raw = enc_cff2(m);
    let exp = obs_of_model2(m);
    rec.artefact("cff2", &raw);
    // classes hit by known writer defects get their own signature prefix
    let tag = match (m.vstore.is_some(), m.fds.iter().any(|p| p.subrs.is_some())) {
        (false, false) => "cff2",
        (true, false) => "cff2-vstore",
        (false, true) => "cff2-subrs",
        (true, true) => "cff2-vstore-subrs",
    };
    cff2_roundtrip(&raw, Some(&exp), tag)?;
    rec.class("cff2");
    rec.class_if(m.vstore.is_some(), "cff2:vstore");
    rec.class_if(m.fds.len() > 1, "cff2:several-fds");
    rec.class_if(m.fds.iter().any(|p| p.subrs.is_some()), "cff2:local-subrs");
    rec.class_if(m.hdr_extra > 0, "cff2:headerSize>5");
    rec.set_nontrivial(m.charstrings.len() >= 2);
    rec.hash_bytes(&raw);
    Ok(())
}

const PRIV2_OPS: [u16; 14] = [6, 7, 8, 9, 10, 11, 22, 0x0C09, 0x0C0A, 0x0C0B, 0x0C0C, 0x0C0D, 0x0C11, 0x0C12];

fn cff2_strategy() -> impl Strategy<Value = Cff2M> {
    (
        (any::<u8>(), 0u8..3, proptest::option::weighted(0.5, proptest::collection::vec(num_strategy(), 6))),
        proptest::collection::vec(blob(), 0..4),
        proptest::collection::vec(blob(), 1..8),
        proptest::collection::vec((dict_strategy(&PRIV2_OPS, true), proptest::option::weighted(0.5, proptest::collection::vec(blob(), 0..4))), 1..4),
        proptest::collection::vec((any::<u8>(), 1usize..4), 8),
        any::<bool>(),
        proptest::option::weighted(0.4, ivs_strategy()),
        prop_oneof![3 => Just(0u8), 1 => 1u8..5],
    )
        .prop_map(|((minor, hdr_extra, font_matrix), gsubrs, charstrings, fds, sel, f3, vstore, index_off_size)| {
            let n = charstrings.len();
            let nf = fds.len() as u8;
            let fdselect = if fds.len() > 1 {
                Some(if f3 {
                    let mut ranges = Vec::new();
                    let mut g = 0usize;
                    for (fd, len) in &sel {
                        if g >= n {
                            break;
                        }
                        ranges.push((g as u16, fd % nf));
                        g += len;
                    }
                    FdSelectM::F3(ranges, n as u16)
                } else {
                    FdSelectM::F0((0..n).map(|g| sel[g % sel.len()].0 % nf).collect())
                })
            } else {
                None
            };
            Cff2M { minor, hdr_extra, font_matrix, gsubrs, charstrings, fds: fds.into_iter().map(|(dict, subrs)| PrivM { dict, subrs }).collect(), fdselect, vstore, index_off_size }
        })
}

// ------------------------------------------------------------------ fixtures

fn cff_fixture_list(thorough: bool) -> Vec<String> {
    let mut v: Vec<String> = fixtures::list("fonts", &["otf"], if thorough { 4_000_000 } else { 700_000 });
    v.extend(fixtures::list("fonts/variable", &["ttf"], 700_000));
    v.push("fonts/opentype/NotoSans-VF.abc.ttf".to_string());
    let aots: Vec<String> = fixtures::list("aots", &["otf"], 100_000);
    let step = if thorough { 1 } else { 12 };
    v.extend(aots.into_iter().step_by(step));
    if !thorough {
        // one large CID-keyed font
        v.push("fonts/noto/NotoSansJP-Regular.otf".to_string());
    }
    v.dedup();
    v
}

fn check_cff_fixture(path: &str, rec: &mut Rec) -> CaseResult {
    let Some(data) = fixtures::read(path) else {
        rec.class("fixture:unavailable");
        return Ok(());
    };
    let at = |f: crate::engine::Fail| crate::engine::Fail::new(f.sig, format!("{}: {}", path, f.msg));
    let mut seen = 0;
    if let Some(t) = find_table(&data, b"CFF ") {
        if ReadScope::new(t).read::<CFF<'_>>().is_ok() {
            seen += 1;
            let b2 = cff_roundtrip(t, None, "fx-cff", None).map_err(at)?;
            rec.class(if dec_cff(&b2).map_or(false, |o| matches!(o.kind, KindObs::Cid { .. })) { "fixture:cff-cid" } else { "fixture:cff-name-keyed" });
            // owned INDEX writer: replace a charstring by objects that move the last offset across the offSize edges
            let n_glyphs = dec_cff(t).map_or(0, |o| o.charstrings.len());
            if n_glyphs > 0 && t.len() < 300_000 {
                for size in [0usize, 255, 65535, 65536, 70000] {
                    let f = move |c: &mut CFF<'_>| {
                        c.fonts[0].char_strings_index.replace(0, vec![0x0e; size]);
                    };
                    cff_roundtrip(t, None, "fx-cff-owned-index", Some(&f)).map_err(at)?;
                    seen += 1;
                }
                rec.class("fixture:cff-owned-charstrings-index");
            }
        } else {
            rec.class("fixture:cff-unreadable");
        }
    }
    if let Some(t) = find_table(&data, b"CFF2") {
        if ReadScope::new(t).read::<CFF2<'_>>().is_ok() {
            seen += 1;
            let (has_vstore, has_subrs) = dec_cff2(t).map_or((false, false), |o| (o.vstore.is_some(), o.fds.iter().any(|p| p.subrs.is_some())));
            let tag = match (has_vstore, has_subrs) {
                (false, false) => "fx-cff2",
                (true, false) => "fx-cff2-vstore",
                (false, true) => "fx-cff2-subrs",
                (true, true) => "fx-cff2-vstore-subrs",
            };
            cff2_roundtrip(t, None, tag).map_err(at)?;
            rec.class("fixture:cff2");
        }
    }
    // item variation stores of HVAR / VVAR / MVAR
    for (tag, off_at, off32) in [(b"HVAR", 4usize, true), (b"VVAR", 4, true), (b"MVAR", 10, false)] {
        if let Some(t) = find_table(&data, tag) {
            let o = if off32 { t.get(off_at..off_at + 4).map(|b| u32::from_be_bytes([b[0], b[1], b[2], b[3]]) as usize) } else { t.get(off_at..off_at + 2).map(|b| u16::from_be_bytes([b[0], b[1]]) as usize) };
            let Some(ivs) = o.filter(|o| *o != 0).and_then(|o| t.get(o..)) else { continue };
            let Ok(model) = dec_ivs(ivs) else {
                rec.class("fixture:ivs-undecodable-by-my-reader");
                continue;
            };
            seen += 1;
            let s1 = ReadScope::new(ivs).read::<ItemVariationStore<'_>>().map_err(|e| at(fail("fx-ivs:parse", format!("{:?}", e))))?;
            let b2 = wb::<ItemVariationStore<'_>, _>(&s1).map_err(|e| at(fail("fx-ivs:write-of-parsed-refused", format!("{:?}", e))))?;
            let d2 = dec_ivs(&b2).map_err(|e| at(fail("fx-ivs:written-undecodable", format!("{}; written {}", e, hexs(&b2)))))?;
            if d2 != model {
                return Err(at(fail("fx-ivs:written-differs", format!("{} regions / {} subtables vs {} / {}", d2.regions.len(), d2.subtables.len(), model.regions.len(), model.subtables.len()))));
            }
            let s2 = ReadScope::new(&b2).read::<ItemVariationStore<'_>>().map_err(|e| at(fail("fx-ivs:reparse", format!("{:?}", e))))?;
            let b3 = wb::<ItemVariationStore<'_>, _>(&s2).map_err(|e| at(fail("fx-ivs:rewrite-refused", format!("{:?}", e))))?;
            if b3 != b2 {
                return Err(at(fail("fx-ivs:unstable", diff(&b2, &b3))));
            }
            rec.class("fixture:ivs");
        }
    }
    rec.evaluations((seen as u64).saturating_sub(1));
    rec.set_nontrivial(seen > 0);
    rec.hash_bytes(path.as_bytes());
    Ok(())
}

// ------------------------------------------------------------------ edges (relation (c))

const N_CFF_EDGES: u64 = 8;

fn check_cff_edge(i: u64, thorough: bool, rec: &mut Rec) -> CaseResult {
    rec.nontrivial();
    rec.hash_u64(i);
    let refuse = |sig: &str, r: Result<Vec<u8>, WriteError>, what: &str| -> CaseResult {
        match r {
            Err(_) => Ok(()),
            Ok(b) => Err(fail(sig, format!("{} was written ({} bytes: {})", what, b.len(), hexs(&b)))),
        }
    };
    match i {
        0 => {
            // an INDEX with 65536 empty objects (legal with a 32-bit count) written with a 16-bit count
            let objs: Vec<Vec<u8>> = vec![Vec::new(); 65536];
            let raw = enc_index(&objs, 0, true);
            let idx = ReadScope::new(&raw).read::<IndexU32>().map_err(|e| fail("index32:parse", format!("{:?}", e)))?;
            rec.class("edge:index-count-65536-as-card16");
            refuse("index:count-truncated", wb::<IndexU16, _>(&idx), "an INDEX with 65536 objects under a 16-bit count")
        }
        1 => {
            let v = FDSelect::Format3 { ranges: ReadArrayCow::Owned((0..65536u32).map(|k| Range { first: k as u16, n_left: 0u8 }).collect()), sentinel: 0 };
            rec.class("edge:fdselect3-65536-ranges");
            refuse("fdselect:nRanges-truncated", wb::<FDSelect<'_>, _>(&v), "an FDSelect format 3 with 65536 ranges")
        }
        2 => {
            // 256 codes: nCodes is a Card8
            let bytes = vec![7u8; 256];
            let codes = ReadScope::new(&bytes).ctxt().read_array::<allsorts::binary::U8>(256).map_err(|e| fail("harness:array", format!("{:?}", e)))?;
            rec.class("edge:encoding0-256-codes");
            refuse("encoding:nCodes-truncated", wb::<CustomEncoding<'_>, _>(&CustomEncoding::Format0 { codes }), "a custom encoding with 256 codes")
        }
        3 => {
            let bytes = vec![7u8; 512];
            let ranges = ReadScope::new(&bytes).ctxt().read_array::<Range<u8, u8>>(256).map_err(|e| fail("harness:array", format!("{:?}", e)))?;
            rec.class("edge:encoding1-256-ranges");
            refuse("encoding:nRanges-truncated", wb::<CustomEncoding<'_>, _>(&CustomEncoding::Format1 { ranges }), "a custom encoding with 256 ranges")
        }
        4 | 5 => {
            // INDEX data of 2^24-2 / 2^24-1 bytes: last offset 0xFFFFFF (offSize 3) / 0x1000000 (offSize 4)
            if !thorough {
                rec.class("edge:index-2^24(skipped in quick)");
                return Ok(());
            }
            let total = if i == 4 { 0xFF_FFFEu32 } else { 0xFF_FFFF };
            rec.class("edge:index-offSize-3/4");
            check_index(&IndexM { objs: vec![(3, 1), (total - 3, 2)], off_size: 0, count32: false, pad_empty: 0 }, rec)
        }
        6 => {
            // an ItemVariationStore with 65536 sub-tables (itemVariationDataCount is a uint16): the one parsed sub-table, repeated
            let one = enc_ivs(&IvsM { axis_count: 1, regions: vec![vec![(0, 8192, 16384)]], subtables: vec![IvdM { region_indexes: vec![0], word_count: 0, long: false, rows: vec![vec![5]] }], layout: 0 });
            let s = ReadScope::new(&one).read::<ItemVariationStore<'_>>().map_err(|e| fail("ivs:parse", format!("{:?}", e)))?;
            let v = ItemVariationStore { variation_region_list: s.variation_region_list.clone(), item_variation_data: vec![s.item_variation_data[0].clone(); 65536] };
            rec.class("edge:ivs-65536-subtables");
            refuse("ivs:itemVariationDataCount-truncated", wb::<ItemVariationStore<'_>, _>(&v), "an ItemVariationStore with 65536 sub-tables")
        }
        _ => {
            // Top DICT of an exactly 65535-byte... not constructible through the public API
            rec.class("edge:(none)");
            Ok(())
        }
    }
}

pub fn run(ctx: &mut Ctx) {
    let thorough = ctx.thorough();
    ctx.enumerate("operand-int-edges", INT_EDGES.len() as u64, true, |i, rec| check_int(INT_EDGES[i as usize], rec));
    ctx.section(
        "operand-int",
        ctx.cases(48_000, 1_800_000),
        prop_oneof![2 => any::<i32>(), 2 => -40000i32..40000, 1 => -1200i32..1200, 3 => (proptest::sample::select(INT_EDGES.to_vec()), -2i32..3).prop_map(|(e, d)| e.saturating_add(d))],
        |v, rec| check_int(*v, rec),
    );
    ctx.section("operand-real", ctx.cases(60_000, 2_400_000), real_strategy(), |x, rec| check_real(x, rec));
    let ops = all_operators();
    ctx.enumerate("operators", ops.len() as u64, true, |i, rec| check_operator(ops[i as usize], rec));
    ctx.section("dict-top", ctx.cases(30_000, 960_000), dict_strategy(&TOP_OPS, false), |m, rec| {
        rec.class("dict:top");
        check_dict_as::<TopDictDefault>(m, false, true, rec)
    });
    ctx.section("dict-private", ctx.cases(30_000, 960_000), dict_strategy(&PRIV_OPS, true), |m, rec| {
        rec.class("dict:private");
        check_dict_as::<PrivateDictDefault>(m, true, true, rec)
    });
    ctx.section("dict-font", ctx.cases(12_000, 360_000), dict_strategy(&TOP_OPS, false), |m, rec| {
        rec.class("dict:font(no defaults)");
        check_dict_as::<FontDictDefault>(m, false, false, rec)
    });
    ctx.section("index", ctx.cases(30_000, 720_000), index_strategy_with_count_edges(), |m, rec| check_index(m, rec));
    ctx.section(
        "placeholder",
        ctx.cases(24_000, 600_000),
        (index_strategy(), prop_oneof![2 => Just(0i32), 3 => -12i32..0, 2 => 1i32..12], any::<u8>()),
        |m, rec| check_placeholder(m, rec),
    );
    ctx.section("charset", ctx.cases(24_000, 720_000), charset_strategy(12), |m, rec| check_charset(m, rec));
    ctx.section("encoding", ctx.cases(12_000, 360_000), encoding_strategy(), |m, rec| check_encoding(m, rec));
    ctx.section("fdselect", ctx.cases(18_000, 480_000), fdselect_strategy(12, 4), |m, rec| check_fdselect(m, rec));
    ctx.section("cff", ctx.cases(60_000, 1_800_000), cff_strategy(), |m, rec| check_cff(m, rec));
    ctx.section("ivs", ctx.cases(30_000, 960_000), ivs_strategy(), |m, rec| check_ivs(m, rec));
    ctx.section("ivs-region-count", ctx.cases(80, 24_000), ivs_regions_strategy(), |m, rec| check_ivs_regions(m, rec));
    ctx.section("cff2", ctx.cases(36_000, 1_200_000), cff2_strategy(), |m, rec| check_cff2(m, rec));
    ctx.enumerate("edges-cff", N_CFF_EDGES, true, |i, rec| check_cff_edge(i, thorough, rec));
    let fx = cff_fixture_list(thorough);
    ctx.enumerate("fixtures-cff", fx.len() as u64, false, |i, rec| check_cff_fixture(&fx[i as usize], rec));
}
