//! C16 — not built yet.
use crate::engine::{Ctx, Property};

pub struct C16;

impl Property for C16 {
    fn id(&self) -> &'static str {
        "C16"
    }
    fn rule(&self) -> String {
        "not implemented".to_string()
    }
    fn run(&self, _ctx: &mut Ctx) {}
}
