//! C16 — TrueType outlines: contour and composite semantics.
//!
//! Forward construction: glyph model → `fontgen::glyf` (my encoder, random legal compaction) →
//! bytes → allsorts `LocaTable`/`GlyfTable` → `OutlineBuilder::visit` with a recording sink →
//! compared with `refmodel::glyf::outline_of(model)` (the TrueType/OpenType rules). The expected
//! path never comes from decoding my own bytes; my reader is cross-checked against the model on
//! every case and against allsorts on the repository's fixture fonts.

use crate::engine::util::pick;
use crate::engine::{fixtures, CaseResult, Ctx, Fail, Property, Rec};
use crate::fontgen::glyf::{build_glyf_loca, encode_composite, encode_simple, Encoding, Form, Layout, SimpleStats};
use crate::fontgen::sfnt::find_table;
use crate::refmodel::glyf::{
    composite_depth, first_difference, flag, outline_of, read_glyf_table, render, same_geometry, Anchor, Cmd,
    Component, CompositeGlyph, Deviations, Glyph, Outline, PathError, PathOptions, PointMatching, Pt, SimpleGlyph,
    Transform,
};
use allsorts::binary::read::ReadScope;
use allsorts::outline::{OutlineBuilder, OutlineSink};
use allsorts::pathfinder_geometry::line_segment::LineSegment2F;
use allsorts::pathfinder_geometry::vector::Vector2F;
use allsorts::tables::glyf::GlyfTable;
use allsorts::tables::loca::LocaTable;
use allsorts::tables::IndexToLocFormat;
use proptest::prelude::*;
use std::collections::BTreeSet;

pub struct C16;

/// allsorts' documented nesting limit (`COMPOSITE_GLYPH_RECURSION_LIMIT`, "the same value as
/// Harfbuzz"): the requested glyph is depth 0; a glyph reached at depth > 6 is an error.
const DEPTH_LIMIT: u32 = 6;

const SIG_TRANSPOSED: &str = "C16:composite-2x2-transposed";
const SIG_DROPPED: &str = "C16:nested-composite-drops-parent-transform";
const SIG_BOTH: &str = "C16:composite-2x2-transposed+nested-composite-drops-parent-transform";

// ------------------------------------------------------------------------------------ case model

#[derive(Clone, Debug)]
pub struct ContourSpec {
    /// (dx, dy, on) per point; deltas are relative to the previous point of the glyph
    pub pts: Vec<(i16, i16, bool)>,
    /// 0 as generated, 1 all on, 2 all off, 3 first off / last on, 4 first off / last off
    pub pattern: u8,
}

#[derive(Clone, Debug)]
pub struct SimpleSpec {
    pub contours: Vec<ContourSpec>,
    pub instructions: Vec<u8>,
    pub overlap: bool,
    /// absolute coordinate limit (4000 or 16000)
    pub limit: i16,
}

#[derive(Clone, Debug)]
pub struct ComponentSpec {
    /// which earlier glyph: mapped monotonically onto 0..own index
    pub target: u32,
    /// use the immediately preceding glyph instead (builds chains)
    pub chain: bool,
    pub anchor: Anchor,
    pub transform: Transform,
    pub flags: u16,
}

#[derive(Clone, Debug)]
pub struct CompositeSpec {
    pub components: Vec<ComponentSpec>,
    pub instructions: Option<Vec<u8>>,
}

#[derive(Clone, Debug)]
pub enum Special {
    None,
    /// last composite refers to itself
    SelfCycle,
    /// the last two composites refer to each other
    MutualCycle,
    /// a component names a glyph id beyond the table
    DanglingIndex,
}

#[derive(Clone, Debug)]
pub struct Case {
    pub simples: Vec<SimpleSpec>,
    /// position (mapped onto 0..=simples.len()) of an empty glyph among the simple glyphs
    pub empty_at: Option<u32>,
    pub composites: Vec<CompositeSpec>,
    pub special: Special,
    pub enc: Encoding,
    pub layout: Layout,
    pub reverse_visit: bool,
    /// renumbering of the finished glyph list (references follow): None = construction order
    /// (components always have lower ids than their parents, glyph 0 is never a composite);
    /// Some(r): r even = reversed order (the outermost composite becomes glyph 0, every component id
    /// is higher than its parent's), r odd = rotation by `pick(n, r)`
    pub renumber: Option<u32>,
}

// ------------------------------------------------------------------------------------ strategies

fn delta() -> impl Strategy<Value = i16> {
    prop_oneof![
        3 => Just(0i16),
        4 => -255i16..=255,
        2 => proptest::sample::select(vec![1i16, -1, 255, -255, 256, -256, 127, 128, -128, 254, -254]),
        2 => -2000i16..=2000,
        1 => -8000i16..=8000,
        1 => -32000i16..=32000,
    ]
}

/// 0 general, 1 small positive steps, 2 mostly zero, 3 large only
fn styled_delta(style: u8) -> BoxedStrategy<i16> {
    match style {
        1 => (1i16..=255).boxed(),
        2 => prop_oneof![4 => Just(0i16), 1 => -3i16..=3].boxed(),
        3 => prop_oneof![(256i16..=6000), (-6000i16..=-256)].boxed(),
        _ => delta().boxed(),
    }
}

fn contour(style: u8) -> impl Strategy<Value = ContourSpec> {
    let len = prop_oneof![2 => Just(1usize), 2 => Just(2usize), 3 => 3usize..=5, 3 => 6usize..=10];
    let pat = prop_oneof![4 => Just(0u8), 1 => Just(1u8), 2 => Just(2u8), 2 => Just(3u8), 2 => Just(4u8)];
    (len, pat, any::<bool>()).prop_flat_map(move |(n, pattern, skew_on)| {
        let on = if skew_on { proptest::bool::weighted(0.7).boxed() } else { any::<bool>().boxed() };
        (
            proptest::collection::vec((styled_delta(style), styled_delta(style), on), n),
            Just(pattern),
        )
            .prop_map(|(pts, pattern)| ContourSpec { pts, pattern })
    })
}

fn simple() -> impl Strategy<Value = SimpleSpec> {
    let style = prop_oneof![5 => Just(0u8), 2 => Just(1u8), 2 => Just(2u8), 1 => Just(3u8)];
    let n_contours = prop_oneof![1 => Just(0usize), 6 => 1usize..=2, 4 => 3usize..=4];
    (style, n_contours).prop_flat_map(|(style, n)| {
        (
            proptest::collection::vec(contour(style), n),
            proptest::collection::vec(any::<u8>(), 0..5),
            proptest::bool::weighted(0.2),
            prop_oneof![4 => Just(4000i16), 1 => Just(16000i16)],
        )
            .prop_map(|(contours, instructions, overlap, limit)| SimpleSpec {
                contours,
                instructions,
                overlap,
                limit,
            })
    })
}

fn f2dot14() -> impl Strategy<Value = i16> {
    prop_oneof![
        3 => proptest::sample::select(vec![0x4000i16, -0x4000, 0x2000, -0x2000, 0x7FFF, -0x8000, 0, 1, -1, 0x6000, 0x1000, 0x4001, 0x3FFF]),
        3 => -0x4000i16..=0x4000,
        2 => any::<i16>(),
    ]
}

fn transform() -> impl Strategy<Value = Transform> {
    prop_oneof![
        3 => Just(Transform::None),
        2 => f2dot14().prop_map(Transform::Scale),
        2 => (f2dot14(), f2dot14()).prop_map(|(x, y)| Transform::XY(x, y)),
        5 => (f2dot14(), f2dot14(), f2dot14(), f2dot14()).prop_map(|(a, b, c, d)| Transform::Matrix(a, b, c, d)),
        1 => (f2dot14(), f2dot14(), f2dot14()).prop_map(|(a, b, d)| Transform::Matrix(a, b, b, d)),
        1 => (f2dot14(), -0x4000i16..=0x4000).prop_map(|(a, b)| Transform::Matrix(a, b, -b, a)),
    ]
}

fn anchor() -> impl Strategy<Value = Anchor> {
    let off = || {
        prop_oneof![
            2 => Just(0i16),
            4 => -128i16..=127,
            2 => proptest::sample::select(vec![-128i16, 127, -129, 128, 255, 256, -256, i16::MAX, i16::MIN]),
            3 => -4000i16..=4000,
        ]
    };
    prop_oneof![
        60 => (off(), off()).prop_map(|(x, y)| Anchor::Offset(x, y)),
        1 => (0u16..12, 0u16..12).prop_map(|(p, q)| Anchor::Points(p, q)),
        1 => (any::<u16>(), any::<u16>()).prop_map(|(p, q)| Anchor::Points(p, q)),
    ]
}

fn component_flags() -> impl Strategy<Value = u16> {
    (any::<u8>(), 0u8..32).prop_map(|(bits, rare)| {
        let mut f = 0u16;
        if bits & 1 != 0 {
            f |= flag::ROUND_XY_TO_GRID;
        }
        if bits & 2 != 0 {
            f |= flag::USE_MY_METRICS;
        }
        if bits & 4 != 0 {
            f |= flag::OVERLAP_COMPOUND;
        }
        if bits & 8 != 0 {
            f |= flag::UNSCALED_COMPONENT_OFFSET;
        }
        // SCALED_COMPONENT_OFFSET: rare (excluded from comparison when it could matter)
        if rare == 0 {
            f |= flag::SCALED_COMPONENT_OFFSET;
        }
        f
    })
}

fn component() -> impl Strategy<Value = ComponentSpec> {
    (any::<u32>(), proptest::bool::weighted(0.45), anchor(), transform(), component_flags()).prop_map(
        |(target, chain, anchor, transform, flags)| ComponentSpec {
            target,
            chain,
            anchor,
            transform,
            flags,
        },
    )
}

fn composite() -> impl Strategy<Value = CompositeSpec> {
    (
        proptest::collection::vec(component(), 1..=4),
        proptest::option::weighted(0.3, proptest::collection::vec(any::<u8>(), 0..5)),
    )
        .prop_map(|(components, instructions)| CompositeSpec { components, instructions })
}

fn form() -> impl Strategy<Value = Form> {
    prop_oneof![2 => Just(Form::Compact), 1 => Just(Form::Long), 3 => Just(Form::Mixed)]
}

fn encoding() -> impl Strategy<Value = Encoding> {
    (form(), form(), form(), form(), any::<u64>()).prop_map(|(coords, repeats, args, transforms, seed)| Encoding {
        coords,
        repeats,
        args,
        transforms,
        seed,
    })
}

fn layout() -> impl Strategy<Value = Layout> {
    (any::<bool>(), 0usize..3, 0usize..3, 0usize..3, any::<u64>()).prop_map(|(long_loca, a, extra, lead, seed)| {
        let align = if long_loca { [1, 2, 4][a] } else { [2, 2, 4][a] };
        Layout {
            long_loca,
            align,
            max_extra_units: extra,
            leading: lead * 4,
            seed,
        }
    })
}

fn special() -> impl Strategy<Value = Special> {
    prop_oneof![
        40 => Just(Special::None),
        1 => Just(Special::SelfCycle),
        1 => Just(Special::MutualCycle),
        1 => Just(Special::DanglingIndex),
    ]
}

pub fn case_strategy() -> impl Strategy<Value = Case> {
    (
        proptest::collection::vec(simple(), 1..=4),
        proptest::option::weighted(0.3, any::<u32>()),
        proptest::collection::vec(composite(), 0..=8),
        special(),
        encoding(),
        layout(),
        any::<bool>(),
        proptest::option::weighted(0.4, any::<u32>()),
    )
        .prop_map(|(simples, empty_at, composites, special, enc, layout, reverse_visit, renumber)| Case {
            simples,
            empty_at,
            composites,
            special,
            enc,
            layout,
            reverse_visit,
            renumber,
        })
}

/// Chains: one simple leaf, then `depth` composites each referring to the previous glyph
/// (first component) plus optional side components; exercises the depth limit on both sides.
pub fn chain_strategy() -> impl Strategy<Value = Case> {
    (
        simple(),
        proptest::collection::vec(composite(), 4..=9),
        prop_oneof![12 => Just(Special::None), 1 => Just(Special::SelfCycle), 1 => Just(Special::MutualCycle)],
        encoding(),
        layout(),
        any::<bool>(),
        proptest::option::weighted(0.4, any::<u32>()),
    )
        .prop_map(|(leaf, mut composites, special, enc, layout, reverse_visit, renumber)| {
            for c in composites.iter_mut() {
                c.components[0].chain = true;
                // the chain link itself is always compared: plain offset, comparable flags
                if let Anchor::Points(p, q) = c.components[0].anchor {
                    c.components[0].anchor = Anchor::Offset((p % 300) as i16 - 150, (q % 300) as i16 - 150);
                }
                c.components[0].flags &= !flag::SCALED_COMPONENT_OFFSET;
                c.components.truncate(2);
            }
            Case {
                simples: vec![leaf],
                empty_at: None,
                composites,
                special,
                enc,
                layout,
                reverse_visit,
                renumber,
            }
        })
}

// ------------------------------------------------------------------------------------ model building

fn build_simple(s: &SimpleSpec) -> SimpleGlyph {
    let lim = s.limit as i32;
    let (mut x, mut y) = (0i32, 0i32);
    let mut contours = Vec::new();
    for c in &s.contours {
        let n = c.pts.len();
        let mut pts: Vec<Pt> = Vec::with_capacity(n);
        for (i, (dx, dy, on)) in c.pts.iter().enumerate() {
            x = (x + *dx as i32).clamp(-lim, lim);
            y = (y + *dy as i32).clamp(-lim, lim);
            let on = match c.pattern {
                1 => true,
                2 => false,
                3 => {
                    if i == n - 1 {
                        true
                    } else if i == 0 {
                        false
                    } else {
                        *on
                    }
                }
                4 => {
                    if i == 0 || i == n - 1 {
                        false
                    } else {
                        *on
                    }
                }
                _ => *on,
            };
            pts.push((x as i16, y as i16, on));
        }
        contours.push(pts);
    }
    SimpleGlyph {
        bbox: None,
        contours,
        instructions: s.instructions.clone(),
        overlap_simple: s.overlap,
    }
}

/// The glyph list of a case (the model everything is compared with).
pub fn build_glyphs(case: &Case) -> Vec<Glyph> {
    let mut glyphs: Vec<Glyph> = case.simples.iter().map(|s| Glyph::Simple(build_simple(s))).collect();
    if let Some(r) = case.empty_at {
        let at = pick(glyphs.len() + 1, r);
        glyphs.insert(at, Glyph::Empty);
    }
    for c in &case.composites {
        let own = glyphs.len();
        let components = c
            .components
            .iter()
            .map(|k| Component {
                glyph: if k.chain { own - 1 } else { pick(own, k.target) } as u16,
                anchor: k.anchor,
                transform: k.transform,
                flags: k.flags,
            })
            .collect();
        glyphs.push(Glyph::Composite(CompositeGlyph {
            bbox: None,
            components,
            instructions: c.instructions.clone(),
        }));
    }
    let n = glyphs.len();
    let n_comp = case.composites.len();
    match case.special {
        Special::None => {}
        Special::SelfCycle => {
            if n_comp >= 1 {
                if let Glyph::Composite(c) = &mut glyphs[n - 1] {
                    let last = c.components.len() - 1;
                    c.components[last].glyph = (n - 1) as u16;
                }
            }
        }
        Special::MutualCycle => {
            if n_comp >= 2 {
                if let Glyph::Composite(c) = &mut glyphs[n - 2] {
                    c.components[0].glyph = (n - 1) as u16;
                }
                if let Glyph::Composite(c) = &mut glyphs[n - 1] {
                    c.components[0].glyph = (n - 2) as u16;
                }
            }
        }
        Special::DanglingIndex => {
            if n_comp >= 1 {
                if let Glyph::Composite(c) = &mut glyphs[n - 1] {
                    c.components[0].glyph = (n + 3) as u16;
                }
            }
        }
    }
    if let Some(r) = case.renumber {
        // new id of old glyph i
        let map = |i: usize| -> usize {
            if r % 2 == 0 {
                n - 1 - i
            } else {
                (i + pick(n, r)) % n
            }
        };
        let mut out: Vec<Option<Glyph>> = (0..n).map(|_| None).collect();
        for (i, mut g) in glyphs.into_iter().enumerate() {
            if let Glyph::Composite(c) = &mut g {
                for k in c.components.iter_mut() {
                    if (k.glyph as usize) < n {
                        k.glyph = map(k.glyph as usize) as u16;
                    }
                }
            }
            out[map(i)] = Some(g);
        }
        return out.into_iter().map(|g| g.expect("renumbering is a permutation")).collect();
    }
    glyphs
}

// ------------------------------------------------------------------------------------ observation

#[derive(Default)]
struct Recorder {
    cmds: Vec<Cmd>,
}

impl OutlineSink for Recorder {
    fn move_to(&mut self, to: Vector2F) {
        self.cmds.push(Cmd::MoveTo(to.x() as f64, to.y() as f64));
    }
    fn line_to(&mut self, to: Vector2F) {
        self.cmds.push(Cmd::LineTo(to.x() as f64, to.y() as f64));
    }
    fn quadratic_curve_to(&mut self, ctrl: Vector2F, to: Vector2F) {
        self.cmds.push(Cmd::QuadTo(ctrl.x() as f64, ctrl.y() as f64, to.x() as f64, to.y() as f64));
    }
    fn cubic_curve_to(&mut self, ctrl: LineSegment2F, to: Vector2F) {
        self.cmds.push(Cmd::CubicTo(
            ctrl.from_x() as f64,
            ctrl.from_y() as f64,
            ctrl.to_x() as f64,
            ctrl.to_y() as f64,
            to.x() as f64,
            to.y() as f64,
        ));
    }
    fn close(&mut self) {
        self.cmds.push(Cmd::Close);
    }
}

fn fail(sig: &str, msg: String) -> Fail {
    Fail::new(format!("C16:{}", sig), msg)
}

/// absolute + relative tolerance for a single-precision implementation (see `Outline`)
fn tol_for(mag: f64) -> f64 {
    1e-3 + 8e-6 * mag
}

fn agrees(exp: &Outline, got: &[Cmd]) -> bool {
    first_difference(&exp.cmds, got, |i| tol_for(exp.magnitude.get(i).copied().unwrap_or(0.0))).is_none()
}

/// Features of a glyph's component tree that matter for exclusion / attribution.
#[derive(Default, Debug)]
struct TreeInfo {
    point_matched: bool,
    scaled_offset: bool,
    /// a 2×2 transform whose off-diagonal entries differ
    asym_2x2: bool,
    /// a composite used as a component with a non-identity placement
    nested_with_placement: bool,
    transforms: BTreeSet<&'static str>,
}

fn tree_info(glyphs: &[Glyph], gid: u16, budget: u32, info: &mut TreeInfo) {
    if budget == 0 {
        return;
    }
    if let Some(Glyph::Composite(c)) = glyphs.get(gid as usize) {
        for k in &c.components {
            match k.anchor {
                Anchor::Points(..) => info.point_matched = true,
                Anchor::Offset(dx, dy) => {
                    if k.scaled_offset_flag() && !k.transform.is_identity() && (dx != 0 || dy != 0) {
                        info.scaled_offset = true;
                    }
                    let placed = dx != 0 || dy != 0 || !k.transform.is_identity();
                    if placed && matches!(glyphs.get(k.glyph as usize), Some(Glyph::Composite(_))) {
                        info.nested_with_placement = true;
                    }
                }
            }
            if let Transform::Matrix(_, b, c2, _) = k.transform {
                if b != c2 {
                    info.asym_2x2 = true;
                    info.transforms.insert("transform:2x2-asymmetric");
                } else {
                    info.transforms.insert("transform:2x2-symmetric");
                }
            } else {
                info.transforms.insert(match k.transform {
                    Transform::None => "transform:none",
                    Transform::Scale(_) => "transform:scale",
                    _ => "transform:xy",
                });
            }
            tree_info(glyphs, k.glyph, budget - 1, info);
        }
    }
}

enum Verdict {
    Pass,
    /// no comparison possible by design (excluded class); label for counting
    Excluded(&'static str),
    /// explained exactly by a known defect model
    Attributed(Fail),
}

fn first_diff_text(exp: &Outline, got: &[Cmd]) -> String {
    match first_difference(&exp.cmds, got, |i| tol_for(exp.magnitude.get(i).copied().unwrap_or(0.0))) {
        Some(i) => format!(
            "first difference at command {}: expected {} got {}",
            i,
            exp.cmds.get(i).map_or("<end>".to_string(), |c| render(&[*c])),
            got.get(i).map_or("<end>".to_string(), |c| render(&[*c]))
        ),
        None => "no difference".to_string(),
    }
}

fn describe_glyph(glyphs: &[Glyph], gid: u16) -> String {
    let s = format!("{:?}", glyphs.get(gid as usize));
    crate::engine::util::truncate(&s, 900)
}

/// Sub-path by sub-path geometric equivalence (cyclic segment sequences), each sub-path with
/// the tolerance of its own magnitude.
fn equivalent_subpaths(exp: &Outline, got: &[Cmd]) -> bool {
    fn split(cmds: &[Cmd]) -> Vec<(usize, usize)> {
        let mut v = Vec::new();
        let mut start = 0;
        for (i, c) in cmds.iter().enumerate() {
            if matches!(c, Cmd::MoveTo(..)) && i > start {
                v.push((start, i));
                start = i;
            }
        }
        if start < cmds.len() {
            v.push((start, cmds.len()));
        }
        v
    }
    let (se, sg) = (split(&exp.cmds), split(got));
    if se.len() != sg.len() {
        return false;
    }
    se.iter().zip(sg.iter()).all(|(&(a, b), &(c, d))| {
        let mag = exp.magnitude[a..b].iter().cloned().fold(0.0, f64::max);
        same_geometry(&exp.cmds[a..b], &got[c..d], tol_for(mag))
    })
}

/// Compare what allsorts delivered for glyph `gid` with the model.
fn judge(glyphs: &[Glyph], gid: u16, observed: &Result<Vec<Cmd>, String>) -> Result<Verdict, Fail> {
    let opts = PathOptions {
        max_depth: Some(DEPTH_LIMIT),
        ..PathOptions::default()
    };
    let mut info = TreeInfo::default();
    tree_info(glyphs, gid, 12, &mut info);
    let exp = match outline_of(glyphs, gid, &opts) {
        Ok(o) => o,
        Err(PathError::DepthExceeded) => {
            return match observed {
                Err(_) => Ok(Verdict::Pass),
                Ok(cmds) => Err(fail(
                    "depth-limit-not-enforced",
                    format!(
                        "glyph {} nests deeper than {} levels (or is cyclic) but visit returned Ok with {} commands",
                        gid,
                        DEPTH_LIMIT,
                        cmds.len()
                    ),
                )),
            };
        }
        Err(PathError::MissingGlyph(_)) => return Ok(Verdict::Excluded("excluded:dangling-component-index")),
        Err(PathError::PointMatching) => return Ok(Verdict::Excluded("excluded:point-matched")),
    };
    if info.scaled_offset {
        return Ok(Verdict::Excluded("excluded:scaled-component-offset"));
    }
    let got = match observed {
        Ok(c) => c,
        Err(e) => {
            return Err(fail(
                "visit-error",
                format!("glyph {}: visit failed with {} on a valid glyph; model {}", gid, e, describe_glyph(glyphs, gid)),
            ))
        }
    };
    if agrees(&exp, got) {
        return Ok(Verdict::Pass);
    }
    let is_composite = matches!(glyphs.get(gid as usize), Some(Glyph::Composite(_)));
    // defect models
    if is_composite {
        let devs = [
            (info.asym_2x2, Deviations { transposed_2x2: true, drop_parent_transform: false }, SIG_TRANSPOSED),
            (info.nested_with_placement, Deviations { transposed_2x2: false, drop_parent_transform: true }, SIG_DROPPED),
            (
                info.asym_2x2 && info.nested_with_placement,
                Deviations { transposed_2x2: true, drop_parent_transform: true },
                SIG_BOTH,
            ),
        ];
        for (applicable, deviations, sig) in devs {
            if !applicable {
                continue;
            }
            if let Ok(alt) = outline_of(glyphs, gid, &PathOptions { deviations, ..opts }) {
                if agrees(&alt, got) {
                    return Ok(Verdict::Attributed(Fail::new(
                        sig,
                        format!(
                            "glyph {}: outline equals the defect model {:?}, not the specification; {}; expected {} got {}; model {}",
                            gid,
                            deviations,
                            first_diff_text(&exp, got),
                            crate::engine::util::truncate(&render(&exp.cmds), 300),
                            crate::engine::util::truncate(&render(got), 300),
                            describe_glyph(glyphs, gid)
                        ),
                    )));
                }
            }
        }
    }
    // same closed sub-paths, different (but on-curve) start point: the statement only asks
    // for a sub-path that starts on the curve and visits the points in order
    if equivalent_subpaths(&exp, got) {
        return Ok(Verdict::Excluded("pass:equivalent-path-other-start"));
    }
    let moves = |c: &[Cmd]| c.iter().filter(|x| matches!(x, Cmd::MoveTo(..))).count();
    let kinds_equal = exp.cmds.len() == got.len() && exp.cmds.iter().zip(got.iter()).all(|(a, b)| a.name() == b.name());
    let what = if moves(&exp.cmds) != moves(got) {
        "contour-count"
    } else if !kinds_equal {
        "commands"
    } else {
        "coordinates"
    };
    Err(fail(
        &format!("{}:{}", if is_composite { "composite" } else { "simple" }, what),
        format!(
            "glyph {}: {}; expected {} got {}; model {}",
            gid,
            first_diff_text(&exp, got),
            crate::engine::util::truncate(&render(&exp.cmds), 400),
            crate::engine::util::truncate(&render(got), 400),
            describe_glyph(glyphs, gid)
        ),
    ))
}

fn allsorts_visit_all(glyf_bytes: &[u8], loca_bytes: &[u8], long: bool, n: usize, order: &[u16]) -> Result<Vec<(u16, Result<Vec<Cmd>, String>)>, Fail> {
    let fmt = if long { IndexToLocFormat::Long } else { IndexToLocFormat::Short };
    let loca = ReadScope::new(loca_bytes)
        .read_dep::<LocaTable<'_>>((n, fmt))
        .map_err(|e| fail("loca-parse", format!("valid loca table rejected: {:?}", e)))?;
    let mut glyf = ReadScope::new(glyf_bytes)
        .read_dep::<GlyfTable<'_>>(&loca)
        .map_err(|e| fail("glyf-parse", format!("valid glyf table rejected: {:?}", e)))?;
    if usize::from(glyf.num_glyphs()) != n {
        return Err(fail("glyph-count", format!("num_glyphs {} for {} loca spans", glyf.num_glyphs(), n)));
    }
    let mut out = Vec::with_capacity(order.len());
    for &gid in order {
        let mut sink = Recorder::default();
        let r = glyf.visit(gid, &mut sink);
        out.push((gid, r.map(|_| sink.cmds).map_err(|e| format!("{:?}", e))));
    }
    Ok(out)
}

fn contour_classes(c: &[Pt], classes: &mut BTreeSet<String>) {
    let n = c.len();
    if n == 0 {
        return;
    }
    let (first, last) = (c[0].2, c[n - 1].2);
    classes.insert(
        match (first, last) {
            (true, _) => "start:first-on",
            (false, true) => "start:first-off-last-on",
            (false, false) => "start:first-off-last-off",
        }
        .to_string(),
    );
    if n == 1 {
        classes.insert(if first { "contour:single-on" } else { "contour:single-off" }.to_string());
    }
    if n == 2 {
        classes.insert("contour:two-points".to_string());
    }
    if c.iter().all(|p| !p.2) {
        classes.insert("contour:all-off".to_string());
    }
    if (0..n.saturating_sub(1)).any(|i| !c[i].2 && !c[i + 1].2) {
        classes.insert("contour:consecutive-off".to_string());
    }
    if !first && !last && n >= 2 {
        classes.insert("contour:closing-edge-midpoint".to_string());
    }
    if first && !last {
        classes.insert("contour:closing-quad-to-first".to_string());
    }
}

fn stats_classes(st: &SimpleStats, classes: &mut BTreeSet<String>) {
    let mut c = |b: bool, s: &str| {
        if b {
            classes.insert(s.to_string());
        }
    };
    c(st.repeat_runs > 0, "enc:repeat-flag");
    c(st.repeat_spans_contours, "enc:repeat-spans-contours");
    c(st.repeat_count_zero > 0, "enc:repeat-count-0");
    c(st.repeat_count_253 > 0, "enc:repeat-count-253");
    c(st.repeat_count_254 > 0, "enc:repeat-count-254");
    c(st.repeat_count_255 > 0, "enc:repeat-count-255");
    c(st.split_after_full_run > 0, "enc:run-split-after-256");
    c((100..253).contains(&st.repeat_count_max), "enc:repeat-count-100..252");
    c(st.short_positive > 0, "enc:short+");
    c(st.short_negative > 0, "enc:short-");
    c(st.short_zero > 0, "enc:short-zero");
    c(st.same_as_previous > 0, "enc:same-as-previous");
    c(st.long_nonzero > 0, "enc:long");
    c(st.long_redundant > 0, "enc:long-redundant");
}

/// Encode the model, let allsorts parse and visit every glyph, compare with the model.
pub fn check_glyphs(
    glyphs: &[Glyph],
    enc: &Encoding,
    layout: &Layout,
    reverse_visit: bool,
    rec: &mut Rec,
) -> CaseResult {
    let n = glyphs.len();
    let mut classes: BTreeSet<String> = BTreeSet::new();
    // ---- my encoder
    let mut records = Vec::with_capacity(n);
    for (i, g) in glyphs.iter().enumerate() {
        let e = enc.for_item(i);
        records.push(match g {
            Glyph::Empty => Vec::new(),
            Glyph::Simple(s) => {
                let (b, st) = encode_simple(s, &e).expect("generator keeps deltas within 16 bits");
                stats_classes(&st, &mut classes);
                b
            }
            Glyph::Composite(c) => encode_composite(c, &e).expect("generator gives every composite a component"),
        });
    }
    let (glyf_bytes, loca_bytes) = build_glyf_loca(&records, layout).expect("tables stay small");
    rec.hash_bytes(&glyf_bytes);
    rec.hash_bytes(&loca_bytes);
    rec.artefact("glyf", &glyf_bytes);
    rec.artefact("loca", &loca_bytes);
    rec.artefact("long_loca", &[layout.long_loca as u8]);

    // ---- self-check of the harness: my reader on my bytes reproduces the model's outlines
    let reread = read_glyf_table(&glyf_bytes, &loca_bytes, layout.long_loca, n)
        .unwrap_or_else(|e| panic!("refmodel::glyf cannot read fontgen::glyf output: {}", e));
    let lenient = PathOptions {
        max_depth: Some(DEPTH_LIMIT),
        point_matching: PointMatching::ZeroOffset,
        ..PathOptions::default()
    };
    for gid in 0..n as u16 {
        let a = outline_of(glyphs, gid, &lenient);
        let b = outline_of(&reread, gid, &lenient);
        assert!(
            a == b,
            "encoder/reader self-check failed for glyph {}: model {:?} reread {:?}",
            gid,
            glyphs[gid as usize],
            reread[gid as usize]
        );
    }

    // ---- allsorts
    let mut order: Vec<u16> = (0..n as u16).collect();
    if reverse_visit {
        order.reverse();
    }
    let observed = allsorts_visit_all(&glyf_bytes, &loca_bytes, layout.long_loca, n, &order)?;

    let mut attributed: Option<Fail> = None;
    let mut nontrivial = false;
    let mut compared = 0u64;
    for (gid, obs) in &observed {
        match judge(glyphs, *gid, obs)? {
            Verdict::Pass => {
                compared += 1;
                match &glyphs[*gid as usize] {
                    Glyph::Simple(s) => {
                        if s.points().any(|p| !p.2) {
                            nontrivial = true;
                        }
                        for c in &s.contours {
                            contour_classes(c, &mut classes);
                        }
                        if s.contours.is_empty() {
                            classes.insert("glyph:zero-contours".into());
                        }
                    }
                    Glyph::Composite(_) => {
                        nontrivial = true;
                        let mut info = TreeInfo::default();
                        tree_info(glyphs, *gid, 12, &mut info);
                        for t in &info.transforms {
                            classes.insert(t.to_string());
                        }
                        if info.nested_with_placement {
                            classes.insert("composite:nested-with-placement".into());
                        }
                        match composite_depth(glyphs, *gid, 12) {
                            Some(d) if d <= DEPTH_LIMIT => {
                                classes.insert(format!("depth:{}", d));
                            }
                            Some(_) => {
                                classes.insert("depth>limit:error".into());
                            }
                            None => {
                                classes.insert("depth:cycle-or-dangling:error".into());
                            }
                        }
                    }
                    Glyph::Empty => {
                        classes.insert("glyph:empty".into());
                    }
                }
            }
            Verdict::Excluded(label) => {
                classes.insert(label.to_string());
            }
            Verdict::Attributed(f) => {
                if attributed.is_none() {
                    attributed = Some(f);
                }
            }
        }
    }
    if let Some(f) = attributed {
        // every other glyph of the case has been checked; report the known-defect class last
        return Err(f);
    }
    classes.insert(if layout.long_loca { "loca:long" } else { "loca:short" }.to_string());
    for c in classes.iter().take(60) {
        rec.class(c);
    }
    rec.evaluations(compared.saturating_sub(1));
    rec.set_nontrivial(nontrivial);
    rec.sample(|| {
        let g = glyphs
            .iter()
            .map(|g| match g {
                Glyph::Empty => "empty".to_string(),
                Glyph::Simple(s) => format!(
                    "simple[{}]",
                    s.contours
                        .iter()
                        .map(|c| c.iter().map(|p| if p.2 { '1' } else { '0' }).collect::<String>())
                        .collect::<Vec<_>>()
                        .join("|")
                ),
                Glyph::Composite(c) => format!(
                    "comp[{}]",
                    c.components
                        .iter()
                        .map(|k| format!("g{}:{}", k.glyph, k.transform.kind()))
                        .collect::<Vec<_>>()
                        .join(",")
                ),
            })
            .collect::<Vec<_>>()
            .join(" ");
        format!("{} glyphs, {} glyf bytes, loca {}: {}", n, glyf_bytes.len(), if layout.long_loca { "long" } else { "short" }, g)
    });
    Ok(())
}

pub fn check_case(case: &Case, rec: &mut Rec) -> CaseResult {
    let glyphs = build_glyphs(case);
    rec.class_if(matches!(glyphs.first(), Some(Glyph::Composite(_))), "glyph0:composite");
    rec.class_if(
        glyphs.iter().enumerate().any(|(i, g)| match g {
            Glyph::Composite(c) => c.components.iter().any(|k| (k.glyph as usize) > i && (k.glyph as usize) < glyphs.len()),
            _ => false,
        }),
        "component-id>parent-id",
    );
    check_glyphs(&glyphs, &case.enc, &case.layout, case.reverse_visit, rec)
}

// ------------------------------------------------------------------------------------ sweeps

/// Exhaustive on/off patterns for contours of 1..=8 points, on a fixed polygon, as the
/// second of two contours (so the repeat-flag and delta state crosses a contour boundary),
/// in every encoding form.
fn sweep_item(i: u64, rec: &mut Rec) -> CaseResult {
    // item i: n = number of points (1..=8), pattern bits
    let mut n = 1u32;
    let mut rest = i;
    while rest >= (1u64 << n) {
        rest -= 1u64 << n;
        n += 1;
    }
    let bits = rest as u32;
    let poly: [(i16, i16); 8] = [(0, 0), (100, 0), (200, 40), (260, 300), (200, 600), (100, 640), (0, 600), (-60, 300)];
    let contour: Vec<Pt> = (0..n as usize).map(|k| (poly[k].0, poly[k].1, bits >> k & 1 == 1)).collect();
    let lead: Vec<Pt> = vec![(-500, -500, true), (-400, -500, true), (-400, -400, true)];
    let simple = SimpleGlyph::from_contours(vec![lead, contour]);
    let glyphs = vec![
        Glyph::Simple(simple),
        Glyph::Composite(CompositeGlyph {
            bbox: None,
            components: vec![Component::new(0, 10, -20).with_transform(Transform::XY(0x2000, -0x4000))],
            instructions: None,
        }),
    ];
    for (k, enc) in [Encoding::compact(), Encoding::long(), Encoding::mixed(i), Encoding::mixed(i ^ 0xabcdef)]
        .iter()
        .enumerate()
    {
        let layout = if k % 2 == 0 { Layout::short() } else { Layout::long() };
        let mut sub = Rec::for_fuzz();
        if let Err(f) = check_glyphs(&glyphs, enc, &layout, false, &mut sub) {
            rec.artefacts = sub.artefacts;
            return Err(f);
        }
    }
    rec.evaluations(7);
    rec.set_nontrivial(true);
    rec.hash_u64(i);
    rec.class(&format!("sweep:points={}", n));
    rec.sample(|| format!("{} points, on/off bits {:0width$b} (lsb = first point), as 2nd contour and as scaled component, 4 encodings", n, bits, width = n as usize));
    Ok(())
}

// ------------------------------------------------------------------------------------ field-width boundaries

/// A stretch of points whose flag bytes come out identical under the compact coordinate form.
#[derive(Clone, Debug)]
pub struct Stretch {
    pub len: usize,
    pub on: bool,
    /// 0 long deltas (alternating sign), 1 short positive, 2 short negative, 3 same-as-previous,
    /// 4 mixed (no run intended)
    pub style: u8,
    pub seed: u32,
}

#[derive(Clone, Debug)]
pub enum Cut {
    /// contour boundary after a pseudo-random point
    At(u32),
    /// contour boundary such that endPtsOfContours is 256·k − 1 + offset (offset −2..=2)
    Near256(u8, i8),
}

#[derive(Clone, Debug)]
pub struct LongCase {
    pub stretches: Vec<Stretch>,
    pub cuts: Vec<Cut>,
    pub instructions: usize,
    pub overlap: bool,
    pub transform: Transform,
    pub offset: (i16, i16),
    pub enc: Encoding,
    pub layout: Layout,
}

fn stretch_points(st: &[Stretch]) -> Vec<Pt> {
    let mut pts: Vec<Pt> = Vec::new();
    let (mut x, mut y) = (0i32, 0i32);
    for s in st {
        for k in 0..s.len {
            let h = crate::engine::util::mix64((s.seed as u64) << 20 ^ k as u64);
            let (mut dx, mut dy): (i32, i32) = match s.style {
                0 => {
                    let a = 256 + (h % 1700) as i32;
                    let b = 256 + ((h >> 20) % 1700) as i32;
                    if k % 2 == 0 {
                        (a, -b)
                    } else {
                        (-a, b)
                    }
                }
                1 => (1 + (h % 20) as i32, 1 + ((h >> 20) % 20) as i32),
                2 => (-1 - (h % 20) as i32, -1 - ((h >> 20) % 20) as i32),
                3 => (0, 0),
                _ => ((h % 601) as i32 - 300, ((h >> 20) % 601) as i32 - 300),
            };
            // safety net: stay far inside the int16 range whatever the stretches add up to
            if (x + dx).abs() > 20000 {
                dx = -dx;
            }
            if (y + dy).abs() > 20000 {
                dy = -dy;
            }
            x += dx;
            y += dy;
            pts.push((x as i16, y as i16, s.on));
        }
    }
    pts
}

fn cut_contours(pts: Vec<Pt>, cuts: &[usize]) -> Vec<Vec<Pt>> {
    // cuts: indices of the last point of a contour (endPtsOfContours), any order, any duplicates
    let n = pts.len();
    let mut ends: Vec<usize> = cuts.iter().copied().filter(|e| *e + 1 < n).collect();
    ends.sort();
    ends.dedup();
    let mut out = Vec::new();
    let mut start = 0;
    for e in ends {
        out.push(pts[start..=e].to_vec());
        start = e + 1;
    }
    if start < n {
        out.push(pts[start..].to_vec());
    }
    out
}

fn stretch() -> impl Strategy<Value = Stretch> {
    let len = prop_oneof![
        4 => proptest::sample::select(vec![253usize, 254, 255, 256, 257, 258, 259, 511, 512, 513]),
        3 => 250usize..=270,
        2 => 510usize..=520,
        3 => 1usize..=20,
        2 => 20usize..=300,
        1 => 300usize..=700,
    ];
    (len, any::<bool>(), prop_oneof![3 => Just(0u8), 3 => Just(1u8), 2 => Just(2u8), 2 => Just(3u8), 1 => Just(4u8)], any::<u32>())
        .prop_map(|(len, on, style, seed)| Stretch { len, on, style, seed })
}

fn long_encoding() -> impl Strategy<Value = Encoding> {
    // runs only exist under a uniform coordinate form; repeats biased to maximal runs
    let coords = prop_oneof![5 => Just(Form::Compact), 3 => Just(Form::Long), 1 => Just(Form::Mixed)];
    let repeats = prop_oneof![4 => Just(Form::Compact), 4 => Just(Form::Mixed), 1 => Just(Form::Long)];
    (coords, repeats, form(), form(), any::<u64>()).prop_map(|(coords, repeats, args, transforms, seed)| Encoding {
        coords,
        repeats,
        args,
        transforms,
        seed,
    })
}

pub fn long_strategy() -> impl Strategy<Value = LongCase> {
    let cut = prop_oneof![
        2 => any::<u32>().prop_map(Cut::At),
        3 => (1u8..=3, -2i8..=2).prop_map(|(k, o)| Cut::Near256(k, o)),
    ];
    (
        proptest::collection::vec(stretch(), 1..=4),
        proptest::collection::vec(cut, 0..=3),
        prop_oneof![6 => 0usize..6, 2 => proptest::sample::select(vec![254usize, 255, 256, 257]), 1 => 200usize..600],
        proptest::bool::weighted(0.2),
        transform(),
        (-300i16..=300, -300i16..=300),
        long_encoding(),
        layout(),
    )
        .prop_map(|(stretches, cuts, instructions, overlap, transform, offset, enc, layout)| LongCase {
            stretches,
            cuts,
            instructions,
            overlap,
            transform,
            offset,
            enc,
            layout,
        })
}

fn long_glyphs(case: &LongCase) -> Vec<Glyph> {
    let mut st = case.stretches.clone();
    // cap the glyph at 900 points
    let mut total = 0usize;
    for s in st.iter_mut() {
        s.len = s.len.min(900 - total.min(900)).max(if total == 0 { 1 } else { 0 });
        total += s.len;
    }
    let pts = stretch_points(&st);
    let n = pts.len();
    let cuts: Vec<usize> = case
        .cuts
        .iter()
        .map(|c| match c {
            Cut::At(r) => pick(n.max(1), *r),
            Cut::Near256(k, o) => (256 * *k as i64 - 1 + *o as i64).max(0) as usize,
        })
        .collect();
    let simple = SimpleGlyph {
        bbox: None,
        contours: cut_contours(pts, &cuts),
        instructions: (0..case.instructions).map(|i| (i * 7 + 1) as u8).collect(),
        overlap_simple: case.overlap,
    };
    vec![
        Glyph::Simple(simple),
        Glyph::Composite(CompositeGlyph {
            bbox: None,
            components: vec![Component::new(0, case.offset.0, case.offset.1).with_transform(case.transform)],
            instructions: None,
        }),
    ]
}

pub fn check_long(case: &LongCase, rec: &mut Rec) -> CaseResult {
    let glyphs = long_glyphs(case);
    check_glyphs(&glyphs, &case.enc, &case.layout, false, rec)?;
    if let Glyph::Simple(s) = &glyphs[0] {
        let n = s.num_points();
        rec.class(if n >= 513 { "long:points>=513" } else if n >= 257 { "long:points 257..512" } else { "long:points<=256" });
        let mut end = 0usize;
        for c in &s.contours {
            end += c.len();
            if (254..=257).contains(&(end - 1)) || (510..=513).contains(&(end - 1)) {
                rec.class("long:endPt-near-256k");
                break;
            }
        }
        rec.class_if((254..=257).contains(&s.instructions.len()), "long:instructions 254..257");
    }
    Ok(())
}

fn run_encodings(i: u64) -> Vec<Encoding> {
    let e = |coords, repeats, seed| Encoding {
        coords,
        repeats,
        args: Form::Mixed,
        transforms: Form::Mixed,
        seed,
    };
    vec![
        e(Form::Compact, Form::Compact, i),
        e(Form::Compact, Form::Mixed, i ^ 0x1111),
        e(Form::Compact, Form::Mixed, i ^ 0x2222_0000),
        e(Form::Long, Form::Compact, i),
        e(Form::Long, Form::Mixed, i ^ 0x3333),
        Encoding::mixed(i),
    ]
}

const RUN_LENGTHS: [usize; 12] = [253, 254, 255, 256, 257, 258, 511, 512, 513, 767, 768, 769];
const N_RUN_ITEMS: u64 = (RUN_LENGTHS.len() * 3 * 3 * 3) as u64;

/// Deliberate runs of exactly L identical flags at the start / middle / end of the flag array,
/// in one contour, with a contour boundary inside the run, or with endPtsOfContours = 255.
fn run_item(i: u64) -> (String, Vec<Glyph>) {
    let l = RUN_LENGTHS[(i % 12) as usize];
    let pos = (i / 12) % 3;
    let style = [0u8, 1, 3][((i / 36) % 3) as usize];
    let split = (i / 108) % 3;
    let edge = |seed: u32| -> Vec<Stretch> {
        // five points whose flags differ from the run (off-curve, other delta class) and from
        // each other often enough not to form a long run themselves
        vec![
            Stretch { len: 1, on: true, style: 4, seed },
            Stretch { len: 2, on: false, style: 4, seed: seed + 1 },
            Stretch { len: 1, on: true, style: 2, seed: seed + 2 },
            Stretch { len: 1, on: false, style: if style == 1 { 2 } else { 1 }, seed: seed + 3 },
        ]
    };
    let run = Stretch { len: l, on: true, style, seed: 77 + i as u32 };
    let mut st: Vec<Stretch> = Vec::new();
    let run_start;
    match pos {
        0 => {
            run_start = 0;
            st.push(run);
            st.extend(edge(5));
        }
        1 => {
            st.extend(edge(9));
            run_start = 5;
            st.push(run);
            st.extend(edge(13));
        }
        _ => {
            st.extend(edge(17));
            run_start = 5;
            st.push(run);
        }
    }
    let pts = stretch_points(&st);
    let cuts: Vec<usize> = match split {
        0 => vec![],
        1 => vec![run_start + 100],
        _ => vec![255, 511],
    };
    let name = format!(
        "run of {} identical flags ({}) at {} of the flag array, {}",
        l,
        ["long deltas", "short positive deltas", "", "same-as-previous"][style as usize],
        ["start", "middle", "end"][pos as usize],
        ["one contour", "contour boundary inside the run", "endPtsOfContours 255 / 511"][split as usize]
    );
    let simple = SimpleGlyph::from_contours(cut_contours(pts, &cuts));
    (
        name,
        vec![
            Glyph::Simple(simple),
            Glyph::Composite(CompositeGlyph {
                bbox: None,
                components: vec![Component::new(0, -7, 9).with_transform(Transform::Matrix(0x2000, 0x1000, -0x0800, 0x3000))],
                instructions: None,
            }),
        ],
    )
}

/// Other packed fields at their width boundaries. Returns (description, glyphs, layout override).
fn field_item(i: u64) -> Option<(String, Vec<Glyph>, Option<Layout>)> {
    let tiny = |k: i16| Glyph::Simple(SimpleGlyph::from_contours(vec![vec![(k, 0, true), (k + 10, 5, false), (k, 20, true)]]));
    let comp_of = |gid: u16| {
        Glyph::Composite(CompositeGlyph {
            bbox: None,
            components: vec![Component::new(gid, 3, -4).with_transform(Transform::XY(0x2000, 0x6000))],
            instructions: None,
        })
    };
    let instr = |n: usize| -> Vec<u8> { (0..n).map(|k| (k % 251) as u8).collect() };
    let mut idx = i;
    // ---- deltas at ±254/±255/±256/±1/0 in both axes: all 81 pairs
    if idx == 0 {
        let b = [-256i32, -255, -254, -1, 0, 1, 254, 255, 256];
        let (mut x, mut y) = (0i32, 0i32);
        let mut pts: Vec<Pt> = Vec::new();
        for (k, dx) in b.iter().enumerate() {
            for (m, dy) in b.iter().enumerate() {
                x += dx;
                y += if k % 2 == 0 { *dy } else { b[8 - m] };
                pts.push((x as i16, y as i16, (k + m) % 3 != 0));
            }
        }
        return Some(("all 81 pairs of deltas from {0, ±1, ±254, ±255, ±256}".into(), vec![Glyph::Simple(SimpleGlyph::from_contours(vec![pts])), comp_of(0)], None));
    }
    idx -= 1;
    // ---- extreme coordinates
    if idx == 0 {
        let pts: Vec<Pt> = vec![(0, 0, true), (32767, 32767, false), (0, 0, true), (-32768, -32768, false), (-1, -1, true), (32766, -32767, true)];
        return Some(("coordinates at the int16 limits, deltas ±32767/−32768".into(), vec![Glyph::Simple(SimpleGlyph::from_contours(vec![pts])), comp_of(0)], None));
    }
    idx -= 1;
    // ---- the largest point counts endPtsOfContours can express (last endPt 0xFFFE / 0xFFFF; after seeded miss C16-13)
    if idx < 2 {
        let n = 65535usize + idx as usize;
        let pts: Vec<Pt> = (0..n).map(|k| ((k % 256) as i16, (k / 256) as i16, k % 3 != 1)).collect();
        let split = 40_000usize;
        let contours = if idx == 0 { vec![pts] } else { vec![pts[..split].to_vec(), pts[split..].to_vec()] };
        return Some((format!("simple glyph with {} points (last endPt {:#X})", n, n - 1), vec![Glyph::Simple(SimpleGlyph::from_contours(contours)), comp_of(0)], Some(Layout::long())));
    }
    idx -= 2;
    // ---- instruction lengths (simple / composite)
    let ilens = [254usize, 255, 256, 257, 65535];
    if (idx as usize) < ilens.len() * 2 {
        let n = ilens[idx as usize / 2];
        return Some(if idx % 2 == 0 {
            let mut s = SimpleGlyph::from_contours(vec![vec![(0, 0, true), (50, 80, false), (100, 0, true)]]);
            s.instructions = instr(n);
            (format!("simple glyph with {} instruction bytes", n), vec![Glyph::Simple(s), comp_of(0)], None)
        } else {
            let c = CompositeGlyph {
                bbox: None,
                components: vec![Component::new(0, 1, 2), Component::new(0, -128, 127).with_transform(Transform::Scale(0x2000))],
                instructions: Some(instr(n)),
            };
            (format!("composite glyph with {} instruction bytes", n), vec![tiny(0), Glyph::Composite(c), comp_of(1)], None)
        });
    }
    idx -= (ilens.len() * 2) as u64;
    // ---- many tiny contours (numberOfContours / endPtsOfContours across 127/128, 255/256)
    let ncs = [100usize, 127, 128, 129, 255, 256, 257, 1000];
    if (idx as usize) < ncs.len() * 2 {
        let n = ncs[idx as usize / 2];
        let per = 1 + (idx % 2) as usize; // one- or two-point contours
        let contours: Vec<Vec<Pt>> = (0..n)
            .map(|k| (0..per).map(|m| ((k % 300) as i16 * 3 + m as i16 * 2, (k / 300) as i16 * 5 + m as i16, (k + m) % 2 == 0)).collect())
            .collect();
        return Some((format!("{} contours of {} point(s)", n, per), vec![Glyph::Simple(SimpleGlyph::from_contours(contours)), comp_of(0)], None));
    }
    idx -= (ncs.len() * 2) as u64;
    // ---- component arguments at the byte / word boundaries
    if idx == 0 {
        let offs: [(i16, i16); 10] = [(-128, 127), (127, -128), (-129, 0), (0, 128), (128, -129), (255, 256), (-256, -255), (32767, -32768), (-32768, 32767), (0, 0)];
        let comps: Vec<Component> = offs.iter().map(|(x, y)| Component::new(0, *x, *y)).collect();
        return Some((
            "component offsets at −128/127/−129/128/±255/256/±32767/−32768".into(),
            vec![tiny(0), Glyph::Composite(CompositeGlyph { bbox: None, components: comps, instructions: None })],
            None,
        ));
    }
    idx -= 1;
    // ---- many components
    let nks = [255usize, 256, 257];
    if (idx as usize) < nks.len() {
        let n = nks[idx as usize];
        let comps: Vec<Component> = (0..n).map(|k| Component::new((k % 2) as u16, (k as i16) - 128, 127 - k as i16)).collect();
        return Some((
            format!("composite with {} components", n),
            vec![tiny(0), tiny(40), Glyph::Composite(CompositeGlyph { bbox: None, components: comps, instructions: None })],
            None,
        ));
    }
    idx -= nks.len() as u64;
    // ---- glyph ids at 255/256, 32767/32768, 65534 (fillers are empty glyphs)
    let gids = [254usize, 255, 256, 257, 32766, 32767, 32768, 65533];
    if (idx as usize) < gids.len() {
        let g = gids[idx as usize];
        let mut glyphs: Vec<Glyph> = vec![Glyph::Empty; g];
        glyphs[0] = tiny(5);
        glyphs.push(tiny(0)); // glyph id g
        glyphs.push(Glyph::Composite(CompositeGlyph {
            bbox: None,
            components: vec![Component::new(g as u16, 1, 1), Component::new(0, 2, 2).with_transform(Transform::Scale(-0x4000))],
            instructions: None,
        })); // glyph id g + 1
        return Some((format!("component refers to glyph id {} in a table of {} glyphs", g, g + 2), glyphs, Some(Layout::long())));
    }
    idx -= gids.len() as u64;
    // ---- loca offsets at their width boundaries
    let base = vec![tiny(0), Glyph::Empty, tiny(9), comp_of(2), comp_of(3)];
    let locas: [(bool, usize); 9] = [
        (false, 0xFFF0),  // short: offset/2 around 0x7FF8..
        (false, 0xFFFE),  // offset/2 = 0x7FFF
        (false, 0x10000), // offset/2 = 0x8000
        (false, 0x1FF00), // near the top of the short format
        (false, usize::MAX), // last offset exactly 0x1FFFE
        (true, 0xFFFC),
        (true, 0x10000),
        (true, 0x1FFFC),
        (true, 0x20000),
    ];
    if (idx as usize) < locas.len() {
        let (long, leading) = locas[idx as usize];
        let mut lay = if long { Layout::long() } else { Layout::short() };
        // usize::MAX: resolved per encoding in `boundary_item` so that the last offset is 0x1FFFE
        lay.leading = leading;
        let at = if leading == usize::MAX { "such that the last offset is 0x1fffe".to_string() } else { format!("{:#x}", leading) };
        return Some((format!("{} loca, first glyph at offset {}", if long { "long" } else { "short" }, at), base, Some(lay)));
    }
    None
}

const N_FIELD_ITEMS: u64 = 1 + 1 + 2 + 10 + 16 + 1 + 3 + 8 + 9;

fn boundary_item(i: u64, rec: &mut Rec) -> CaseResult {
    let (name, glyphs, layout) = if i < N_RUN_ITEMS {
        let (n, g) = run_item(i);
        (n, g, None)
    } else {
        field_item(i - N_RUN_ITEMS).expect("N_FIELD_ITEMS matches field_item")
    };
    let encs = if i < N_RUN_ITEMS {
        run_encodings(i)
    } else if glyphs.len() > 1000 {
        vec![Encoding::compact(), Encoding::mixed(i)]
    } else {
        vec![Encoding::compact(), Encoding::long(), Encoding::mixed(i), Encoding::mixed(i ^ 0x5a5a5a)]
    };
    let mut classes: BTreeSet<String> = BTreeSet::new();
    for (k, enc) in encs.iter().enumerate() {
        let mut lay = layout.unwrap_or(if k % 2 == 0 { Layout::long() } else { Layout::short() });
        if lay.leading == usize::MAX {
            lay.leading = 0;
            let recs = crate::fontgen::glyf::encode_records(&glyphs, enc).expect("encodable");
            let (g, _) = build_glyf_loca(&recs, &lay).expect("small");
            lay.leading = 0x1FFFE - g.len();
        }
        let mut sub = Rec::for_fuzz();
        if let Err(mut f) = check_glyphs(&glyphs, enc, &lay, k % 2 == 1, &mut sub) {
            rec.artefacts = sub.artefacts;
            f.msg = format!("[{}; encoding {:?}] {}", name, enc, f.msg);
            return Err(f);
        }
        for c in sub.classes {
            if c.starts_with("enc:repeat-count-25") || c == "enc:run-split-after-256" || c == "enc:repeat-spans-contours" {
                classes.insert(format!("boundary:{}", c));
            }
        }
    }
    for c in &classes {
        rec.class(c);
    }
    rec.class(if i < N_RUN_ITEMS { "boundary:flag-run-item" } else { "boundary:field-item" });
    rec.evaluations(2 * encs.len() as u64 - 1);
    rec.set_nontrivial(true);
    rec.hash_u64(i);
    rec.sample(|| name.clone());
    Ok(())
}

// ------------------------------------------------------------------------------------ fixtures

fn be16(b: &[u8], at: usize) -> Option<u16> {
    Some(u16::from_be_bytes([*b.get(at)?, *b.get(at + 1)?]))
}

/// My reader + reference semantics against allsorts on an intact fixture font.
fn fixture_item(rel: &str, rec: &mut Rec) -> CaseResult {
    let data = match fixtures::read(rel) {
        Some(d) => d,
        None => return Ok(()),
    };
    let (head, maxp, loca, glyf) = match (
        find_table(&data, b"head"),
        find_table(&data, b"maxp"),
        find_table(&data, b"loca"),
        find_table(&data, b"glyf"),
    ) {
        (Some(h), Some(m), Some(l), Some(g)) => (h, m, l, g),
        _ => {
            rec.class("fixture:no-glyf");
            return Ok(());
        }
    };
    let (long, n) = match (be16(head, 50), be16(maxp, 4)) {
        (Some(f), Some(n)) => (f == 1, n as usize),
        _ => return Ok(()),
    };
    let glyphs = match read_glyf_table(glyf, loca, long, n) {
        Ok(g) => g,
        Err(e) => {
            // my reader is the stricter one; an unreadable fixture is simply not usable here
            rec.class("fixture:unreadable-by-reference");
            rec.sample(|| format!("{}: {}", rel, e));
            return Ok(());
        }
    };
    let order: Vec<u16> = (0..n as u16).collect();
    let observed = allsorts_visit_all(glyf, loca, long, n, &order)?;
    let mut attributed: Option<Fail> = None;
    let mut compared = 0u64;
    let mut composites = 0u64;
    let mut excluded = 0u64;
    let (mut asym, mut nested) = (0u64, 0u64);
    let (mut first_asym, mut first_nested): (Option<u16>, Option<u16>) = (None, None);
    // debugging aid: C16_DUMP_FIXTURE=<file name>:<gid or *> C16_DUMP_OUT=<path> writes the
    // reference path of one glyph (or one line "gid<TAB>path" per glyph) of a fixture to a file
    // (used once to cross-check refmodel::glyf against FreeType, see REPORT)
    if let (Ok(spec), Ok(path)) = (std::env::var("C16_DUMP_FIXTURE"), std::env::var("C16_DUMP_OUT")) {
        if let Some((f, g)) = spec.rsplit_once(':') {
            if rel.ends_with(f) {
                let opts = PathOptions { max_depth: Some(DEPTH_LIMIT), ..PathOptions::default() };
                let mut text = String::new();
                for (gid, obs) in &observed {
                    let reference = outline_of(&glyphs, *gid, &opts).map(|o| render(&o.cmds)).unwrap_or_else(|e| format!("{:?}", e));
                    if g == "*" {
                        text.push_str(&format!("{}\t{}\n", gid, reference));
                    } else if g.parse::<u16>().ok() == Some(*gid) {
                        text.push_str(&format!(
                            "{} glyph {}\nmodel {:?}\nreference {}\nobserved  {}\n",
                            rel,
                            gid,
                            glyphs[*gid as usize],
                            reference,
                            obs.as_ref().map(|c| render(c)).unwrap_or_else(|e| e.clone())
                        ));
                    }
                }
                let _ = std::fs::write(path, text);
            }
        }
    }
    for (gid, obs) in &observed {
        match judge(&glyphs, *gid, obs) {
            Ok(Verdict::Pass) => {
                compared += 1;
                if glyphs[*gid as usize].is_composite() {
                    composites += 1;
                    let mut info = TreeInfo::default();
                    tree_info(&glyphs, *gid, 12, &mut info);
                    if info.asym_2x2 {
                        asym += 1;
                        first_asym.get_or_insert(*gid);
                    }
                    if info.nested_with_placement {
                        nested += 1;
                        first_nested.get_or_insert(*gid);
                    }
                }
            }
            Ok(Verdict::Excluded(_)) => excluded += 1,
            Ok(Verdict::Attributed(mut f)) => {
                if attributed.is_none() {
                    f.msg = format!("{}: {}", rel, f.msg);
                    attributed = Some(f);
                }
            }
            Err(mut f) => {
                f.sig = format!("{}[fixture]", f.sig);
                f.msg = format!("{}: {}", rel, f.msg);
                return Err(f);
            }
        }
    }
    if let Some(f) = attributed {
        return Err(f);
    }
    rec.evaluations(compared.saturating_sub(1));
    rec.set_nontrivial(compared > 0);
    rec.hash_bytes(rel.as_bytes());
    rec.class("fixture:compared");
    rec.class_if(composites > 0, "fixture:with-composites");
    rec.class_if(excluded > 0, "fixture:with-excluded-glyphs");
    let name = rel.rsplit('/').next().unwrap_or(rel);
    rec.class_if(asym > 0, &format!("fixture:asymmetric-2x2:{}({} glyphs, first gid {})", name, asym, first_asym.unwrap_or(0)));
    rec.class_if(nested > 0, &format!("fixture:nested-with-placement:{}({} glyphs, first gid {})", name, nested, first_nested.unwrap_or(0)));
    rec.sample(|| format!("{}: {} glyphs compared ({} composite), {} excluded", rel, compared, composites, excluded));
    Ok(())
}

impl Property for C16 {
    fn id(&self) -> &'static str {
        "C16"
    }
    fn rule(&self) -> String {
        "proptest generates glyf tables of 1-4 simple glyphs (0-4 contours of 1-10 points, every on/off pattern class, deltas biased to 0, ±1..255, ±256 and large; \
         coordinates within ±4000 or ±16000), an optional empty glyph and 0-8 composites (1-4 components; byte/word offsets; none/scale/xy/2x2 transforms incl. asymmetric, symmetric and rotation-like 2x2; \
         components referring to earlier glyphs with a bias to chains so that nesting reaches 0-8+; self/mutual cycles and dangling indices as rare specials); a second section builds chains of 4-9 composites around the depth limit. \
         fontgen::glyf encodes with per-item legal freedom (same/short±/long deltas, repeat runs incl. split runs and count 0, byte/word args, widened transforms, short/long loca, alignment 1/2/4, padding, leading gap). \
         allsorts parses LocaTable/GlyfTable and OutlineBuilder::visit feeds a recording sink for every glyph; each command list is compared with refmodel::glyf::outline_of(model) \
         (tolerance 1e-3 + 8e-6*magnitude for f32 arithmetic); depth > 6 and cycles must give Err. An exhaustive sweep covers all 510 on/off patterns of contours with 1-8 points in 4 encodings; \
         section long-contours: glyphs of 250-900 points built from stretches of identical flags (lengths 253-259, 511-513, 250-270, 510-520, random) with contour ends near 256k-1 and 254-257 instruction bytes, encoder biased to maximal repeat runs (count bytes 253/254/255, split after 256); \
         exhaustive packed-boundaries: runs of exactly 253..258/511..513/767..769 identical flags at start/middle/end of the flag array x 3 delta forms x 3 contour layouts x 6 encodings, plus deltas {0,+-1,+-254,+-255,+-256}^2, int16 coordinate limits, instruction lengths 254-257/65535, 100-1000 contours, component offsets at -128/127/-129/128/+-32767, 255-257 components, glyph ids 254-257/32766-32768/65533, short/long loca offsets around 0x7FFF/0x8000/0xFFFF; \
         all .ttf fixtures are compared glyph by glyph through my independent reader. Non-trivial = a compared glyph with an off-curve point or a composite; distinct by hash of the glyf+loca bytes."
            .to_string()
    }
    fn assumptions(&self) -> Vec<String> {
        vec![
            "2x2 component transforms follow the OpenType glyf text: x' = xscale*x + scale10*y + dx, y' = scale01*x + yscale*y + dy, values in file order xscale, scale01, scale10, yscale (same as FreeType/HarfBuzz/fontTools); offsets are not scaled by default".into(),
            "the transform of a nested composite applies to the whole child outline (composition through every level)".into(),
            "the sub-path start follows the FreeType convention (first on-curve, else last, else midpoint); a different on-curve start with the same cyclic segment sequence is accepted and counted".into(),
            "the nesting limit asserted is allsorts' own documented constant 6 (requested glyph = depth 0)".into(),
            "point-matched components, SCALED_COMPONENT_OFFSET with a non-identity transform and a non-zero offset, and dangling component indices are generated but only checked for crash freedom".into(),
            "f32 rounding of an implementation stays within 1e-3 + 8e-6 x (sum of |matrix|*|coordinate| + |offset| through all levels)".into(),
        ]
    }
    fn run(&self, ctx: &mut Ctx) {
        let n = ctx.cases(150_000, 1_500_000);
        ctx.section("tables", n, case_strategy(), |c, rec| check_case(c, rec));
        let n = ctx.cases(30_000, 300_000);
        ctx.section("chains", n, chain_strategy(), |c, rec| check_case(c, rec));
        ctx.enumerate("contour-sweep", 510, true, |i, rec| sweep_item(i, rec));
        let n = ctx.cases(4_000, 150_000);
        ctx.section("long-contours", n, long_strategy(), |c, rec| check_long(c, rec));
        ctx.enumerate("packed-boundaries", N_RUN_ITEMS + N_FIELD_ITEMS, true, |i, rec| boundary_item(i, rec));
        let fonts = fixtures::list("fonts", &["ttf"], 700_000);
        let total = fonts.len() as u64;
        ctx.enumerate("fixtures", total, true, |i, rec| fixture_item(&fonts[i as usize], rec));
    }
}

// ------------------------------------------------------------------------------------ libFuzzer decoder
//
// `case_from_bytes` maps fuzz bytes onto the `Case` domain of `case_strategy()` (section `tables`) or,
// when the first byte selects it, of `chain_strategy()` (section `chains`). Every value it produces is
// one the proptest strategy can produce (same ranges, same collection sizes, same per-glyph delta
// style, same post-processing of chain links); selectors keep roughly the strategy's weights.
// `Unstructured` yields the lower bound / zero / false once the input is exhausted, and collections stop
// growing at their minimum size then, so short inputs decode to small cases.

use arbitrary::Unstructured;

type UResult<T> = arbitrary::Result<T>;

const DELTA_SPECIALS: [i16; 11] = [1, -1, 255, -255, 256, -256, 127, 128, -128, 254, -254];
const F2DOT14_SPECIALS: [i16; 13] = [0x4000, -0x4000, 0x2000, -0x2000, 0x7FFF, -0x8000, 0, 1, -1, 0x6000, 0x1000, 0x4001, 0x3FFF];
const OFFSET_SPECIALS: [i16; 9] = [-128, 127, -129, 128, 255, 256, -256, i16::MAX, i16::MIN];

/// `delta()`: class (3 bits of the point's head byte) + 0..2 payload bytes; union −32000..=32000
fn u_delta(u: &mut Unstructured<'_>, class: u8) -> UResult<i16> {
    Ok(match class & 7 {
        0 | 7 => 0,
        1 => *u.choose(&DELTA_SPECIALS)?,
        2 => u.int_in_range(0i16..=255)?,
        3 => -u.int_in_range(0i16..=255)?,
        4 => u.int_in_range(-2000i16..=2000)?,
        5 => u.int_in_range(-8000i16..=8000)?,
        _ => u.int_in_range(-32000i16..=32000)?,
    })
}

/// `styled_delta(style)`
fn u_styled_delta(u: &mut Unstructured<'_>, style: u8, class: u8) -> UResult<i16> {
    Ok(match style {
        1 => u.int_in_range(1i16..=255)?,
        2 => {
            if class & 7 < 6 {
                0
            } else {
                u.int_in_range(-3i16..=3)?
            }
        }
        3 => {
            let m = u.int_in_range(256i16..=6000)?;
            if class & 1 == 0 {
                m
            } else {
                -m
            }
        }
        _ => u_delta(u, class)?,
    })
}

/// `contour(style)`: 1..=10 points, pattern 0..=4
fn u_contour(u: &mut Unstructured<'_>, style: u8) -> UResult<ContourSpec> {
    // one byte: low nibble → length (1..=10, bias to 1 and 2), high nibble → pattern (bias to 0)
    const LEN: [usize; 16] = [1, 2, 3, 4, 5, 6, 7, 8, 9, 10, 1, 2, 1, 2, 3, 6];
    const PAT: [u8; 16] = [0, 1, 2, 3, 4, 0, 2, 3, 4, 0, 2, 3, 4, 0, 0, 0];
    let b: u8 = u.arbitrary()?;
    let (n, pattern) = (LEN[(b & 15) as usize], PAT[(b >> 4) as usize]);
    let mut pts = Vec::with_capacity(n);
    for i in 0..n {
        if i >= 1 && u.is_empty() {
            break; // any length 1..=10 is in the domain
        }
        // head byte: bit 0 on-curve, bits 1-3 x delta class, bits 4-6 y delta class
        let h: u8 = u.arbitrary()?;
        let dx = u_styled_delta(u, style, h >> 1)?;
        let dy = u_styled_delta(u, style, h >> 4)?;
        pts.push((dx, dy, h & 1 != 0));
    }
    Ok(ContourSpec { pts, pattern })
}

/// `simple()`: one delta style per glyph, 0..=4 contours, 0..=4 instruction bytes
fn u_simple(u: &mut Unstructured<'_>) -> UResult<SimpleSpec> {
    const STYLE: [u8; 10] = [0, 0, 0, 0, 0, 1, 1, 2, 2, 3];
    let style = *u.choose(&STYLE)?;
    let b: u8 = u.arbitrary()?;
    let overlap = b & 1 != 0;
    let limit = if b & 2 != 0 { 16000i16 } else { 4000 };
    let n_instr = u.int_in_range(0usize..=4)?;
    let mut instructions = Vec::with_capacity(n_instr);
    for _ in 0..n_instr {
        instructions.push(u.arbitrary::<u8>()?);
    }
    let n = u.int_in_range(0usize..=4)?;
    let mut contours = Vec::with_capacity(n);
    for _ in 0..n {
        if u.is_empty() {
            break; // 0..=4 contours are all in the domain
        }
        contours.push(u_contour(u, style)?);
    }
    Ok(SimpleSpec { contours, instructions, overlap, limit })
}

/// `f2dot14()`: any i16, biased to the special values and to |v| <= 1.0
fn u_f2dot14(u: &mut Unstructured<'_>) -> UResult<i16> {
    Ok(match u.int_in_range(0u8..=7)? {
        0..=2 => *u.choose(&F2DOT14_SPECIALS)?,
        3..=5 => u.int_in_range(-0x4000i16..=0x4000)?,
        _ => u.arbitrary::<i16>()?,
    })
}

/// `transform()`
fn u_transform(u: &mut Unstructured<'_>) -> UResult<Transform> {
    Ok(match u.int_in_range(0u8..=13)? {
        0..=2 => Transform::None,
        3 | 4 => Transform::Scale(u_f2dot14(u)?),
        5 | 6 => Transform::XY(u_f2dot14(u)?, u_f2dot14(u)?),
        7..=11 => Transform::Matrix(u_f2dot14(u)?, u_f2dot14(u)?, u_f2dot14(u)?, u_f2dot14(u)?),
        12 => {
            let (a, b, d) = (u_f2dot14(u)?, u_f2dot14(u)?, u_f2dot14(u)?);
            Transform::Matrix(a, b, b, d)
        }
        _ => {
            let a = u_f2dot14(u)?;
            let b = u.int_in_range(-0x4000i16..=0x4000)?;
            Transform::Matrix(a, b, -b, a)
        }
    })
}

/// `anchor()`'s `off()`: −4000..=4000 or i16::MIN / i16::MAX
fn u_offset(u: &mut Unstructured<'_>) -> UResult<i16> {
    Ok(match u.int_in_range(0u8..=10)? {
        0 | 1 => 0,
        2..=5 => u.int_in_range(-128i16..=127)?,
        6 | 7 => *u.choose(&OFFSET_SPECIALS)?,
        _ => u.int_in_range(-4000i16..=4000)?,
    })
}

/// `anchor()`
fn u_anchor(u: &mut Unstructured<'_>) -> UResult<Anchor> {
    Ok(match u.int_in_range(0u8..=61)? {
        0..=59 => Anchor::Offset(u_offset(u)?, u_offset(u)?),
        60 => Anchor::Points(u.int_in_range(0u16..=11)?, u.int_in_range(0u16..=11)?),
        _ => Anchor::Points(u.arbitrary()?, u.arbitrary()?),
    })
}

/// `component_flags()`: any subset of the four common bits; SCALED_COMPONENT_OFFSET rare
fn u_component_flags(u: &mut Unstructured<'_>) -> UResult<u16> {
    let b: u8 = u.arbitrary()?;
    let mut f = 0u16;
    if b & 1 != 0 {
        f |= flag::ROUND_XY_TO_GRID;
    }
    if b & 2 != 0 {
        f |= flag::USE_MY_METRICS;
    }
    if b & 4 != 0 {
        f |= flag::OVERLAP_COMPOUND;
    }
    if b & 8 != 0 {
        f |= flag::UNSCALED_COMPONENT_OFFSET;
    }
    if b & 0xF0 == 0xF0 {
        f |= flag::SCALED_COMPONENT_OFFSET;
    }
    Ok(f)
}

/// `component()`
fn u_component(u: &mut Unstructured<'_>) -> UResult<ComponentSpec> {
    // chain: weighted 0.45 in the strategy
    let chain = u.int_in_range(0u8..=8)? >= 5;
    let target: u32 = u.arbitrary()?;
    let anchor = u_anchor(u)?;
    let transform = u_transform(u)?;
    let flags = u_component_flags(u)?;
    Ok(ComponentSpec { target, chain, anchor, transform, flags })
}

/// `composite()` with 1..=`max_components` components (4 in `tables`; `chains` truncates to 2)
fn u_composite(u: &mut Unstructured<'_>, max_components: usize) -> UResult<CompositeSpec> {
    let instructions = if u.int_in_range(0u8..=9)? >= 7 {
        let n = u.int_in_range(0usize..=4)?;
        let mut v = Vec::with_capacity(n);
        for _ in 0..n {
            v.push(u.arbitrary::<u8>()?);
        }
        Some(v)
    } else {
        None
    };
    let n = u.int_in_range(1usize..=max_components)?;
    let mut components = Vec::with_capacity(n);
    for i in 0..n {
        if i >= 1 && u.is_empty() {
            break;
        }
        components.push(u_component(u)?);
    }
    Ok(CompositeSpec { components, instructions })
}

fn u_form(u: &mut Unstructured<'_>) -> UResult<Form> {
    Ok(match u.int_in_range(0u8..=5)? {
        0 | 1 => Form::Compact,
        2 => Form::Long,
        _ => Form::Mixed,
    })
}

/// `encoding()`
fn u_encoding(u: &mut Unstructured<'_>) -> UResult<Encoding> {
    Ok(Encoding {
        coords: u_form(u)?,
        repeats: u_form(u)?,
        args: u_form(u)?,
        transforms: u_form(u)?,
        seed: u.arbitrary()?,
    })
}

/// `layout()`
fn u_layout(u: &mut Unstructured<'_>) -> UResult<Layout> {
    let long_loca: bool = u.arbitrary()?;
    let a = u.int_in_range(0usize..=2)?;
    let extra = u.int_in_range(0usize..=2)?;
    let lead = u.int_in_range(0usize..=2)?;
    let seed: u64 = u.arbitrary()?;
    let align = if long_loca { [1, 2, 4][a] } else { [2, 2, 4][a] };
    Ok(Layout {
        long_loca,
        align,
        max_extra_units: extra,
        leading: lead * 4,
        seed,
    })
}

fn u_opt_u32(u: &mut Unstructured<'_>, some_of_10: u8) -> UResult<Option<u32>> {
    Ok(if u.int_in_range(0u8..=9)? >= 10 - some_of_10 {
        Some(u.arbitrary()?)
    } else {
        None
    })
}

/// bytes → `Case`. First byte: `b % 6 == 5` → a case of `chain_strategy()` (section `chains`),
/// otherwise a case of `case_strategy()` (section `tables`). Fixed-size choices (special, encoding,
/// layout, visiting order, renumbering, empty glyph) come first, the glyph lists last.
pub fn case_from_bytes(data: &[u8]) -> arbitrary::Result<Case> {
    let mut u = Unstructured::new(data);
    let chains = u.arbitrary::<u8>()? % 6 == 5;
    let s = u.int_in_range(0u8..=42)?;
    let special = if chains {
        // 12 : 1 : 1, no dangling index
        match s % 14 {
            12 => Special::SelfCycle,
            13 => Special::MutualCycle,
            _ => Special::None,
        }
    } else {
        match s {
            40 => Special::SelfCycle,
            41 => Special::MutualCycle,
            42 => Special::DanglingIndex,
            _ => Special::None,
        }
    };
    let reverse_visit: bool = u.arbitrary()?;
    let renumber = u_opt_u32(&mut u, 4)?;
    let enc = u_encoding(&mut u)?;
    let layout = u_layout(&mut u)?;
    if chains {
        let leaf = u_simple(&mut u)?;
        let n = u.int_in_range(4usize..=9)?;
        let mut composites = Vec::with_capacity(n);
        for i in 0..n {
            if i >= 4 && u.is_empty() {
                break; // 4..=9 links
            }
            let mut c = u_composite(&mut u, 2)?;
            // the same post-processing as `chain_strategy()`
            c.components[0].chain = true;
            if let Anchor::Points(p, q) = c.components[0].anchor {
                c.components[0].anchor = Anchor::Offset((p % 300) as i16 - 150, (q % 300) as i16 - 150);
            }
            c.components[0].flags &= !flag::SCALED_COMPONENT_OFFSET;
            composites.push(c);
        }
        return Ok(Case {
            simples: vec![leaf],
            empty_at: None,
            composites,
            special,
            enc,
            layout,
            reverse_visit,
            renumber,
        });
    }
    let empty_at = u_opt_u32(&mut u, 3)?;
    let ns = u.int_in_range(1usize..=4)?;
    let nc = u.int_in_range(0usize..=8)?;
    let mut simples = Vec::with_capacity(ns);
    for i in 0..ns {
        if i >= 1 && u.is_empty() {
            break; // 1..=4 simple glyphs
        }
        simples.push(u_simple(&mut u)?);
    }
    let mut composites = Vec::with_capacity(nc);
    for _ in 0..nc {
        if u.is_empty() {
            break; // 0..=8 composites
        }
        composites.push(u_composite(&mut u, 4)?);
    }
    Ok(Case {
        simples,
        empty_at,
        composites,
        special,
        enc,
        layout,
        reverse_visit,
        renumber,
    })
}
