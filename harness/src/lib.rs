//! vcheck: property-based testing / fuzzing harness for yeslogic/allsorts. See /verif/DESIGN.md.
#![allow(clippy::all)]

pub mod engine;
pub mod fontgen;
pub mod props;
pub mod refmodel;

#[global_allocator]
static GLOBAL: engine::alloc::GuardAlloc = engine::alloc::GuardAlloc;
