//! Minimal big-endian byte buffer used by all encoders.

#[derive(Clone, Debug, Default)]
pub struct Buf(pub Vec<u8>);

impl Buf {
    pub fn new() -> Buf {
        Buf(Vec::new())
    }
    pub fn len(&self) -> usize {
        self.0.len()
    }
    pub fn is_empty(&self) -> bool {
        self.0.is_empty()
    }
    pub fn u8(&mut self, v: u8) -> &mut Self {
        self.0.push(v);
        self
    }
    pub fn i8(&mut self, v: i8) -> &mut Self {
        self.0.push(v as u8);
        self
    }
    pub fn u16(&mut self, v: u16) -> &mut Self {
        self.0.extend_from_slice(&v.to_be_bytes());
        self
    }
    pub fn i16(&mut self, v: i16) -> &mut Self {
        self.0.extend_from_slice(&v.to_be_bytes());
        self
    }
    pub fn u24(&mut self, v: u32) -> &mut Self {
        self.0.extend_from_slice(&v.to_be_bytes()[1..]);
        self
    }
    pub fn u32(&mut self, v: u32) -> &mut Self {
        self.0.extend_from_slice(&v.to_be_bytes());
        self
    }
    pub fn i32(&mut self, v: i32) -> &mut Self {
        self.0.extend_from_slice(&v.to_be_bytes());
        self
    }
    pub fn i64(&mut self, v: i64) -> &mut Self {
        self.0.extend_from_slice(&v.to_be_bytes());
        self
    }
    pub fn u64(&mut self, v: u64) -> &mut Self {
        self.0.extend_from_slice(&v.to_be_bytes());
        self
    }
    pub fn tag(&mut self, t: &[u8; 4]) -> &mut Self {
        self.0.extend_from_slice(t);
        self
    }
    pub fn bytes(&mut self, b: &[u8]) -> &mut Self {
        self.0.extend_from_slice(b);
        self
    }
    pub fn zeros(&mut self, n: usize) -> &mut Self {
        self.0.resize(self.0.len() + n, 0);
        self
    }
    pub fn pad_to(&mut self, align: usize) -> &mut Self {
        while self.0.len() % align != 0 {
            self.0.push(0);
        }
        self
    }
    pub fn set_u16(&mut self, at: usize, v: u16) {
        self.0[at..at + 2].copy_from_slice(&v.to_be_bytes());
    }
    pub fn set_u32(&mut self, at: usize, v: u32) {
        self.0[at..at + 4].copy_from_slice(&v.to_be_bytes());
    }
    pub fn into_vec(self) -> Vec<u8> {
        self.0
    }
}

pub fn tag_u32(t: &[u8; 4]) -> u32 {
    u32::from_be_bytes(*t)
}
