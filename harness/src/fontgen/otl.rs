//! OpenType Layout common-table and GSUB/GDEF ENCODERS, written from the OpenType
//! specification (chapter 2 "OpenType Layout Common Table Formats", "GSUB", "GDEF").
//! Nothing here calls into allsorts.
//!
//! Layering (all `pub`, reusable by a GPOS encoder):
//!
//! * [`Tbl`] — a tiny offset-graph serializer: a table is its own bytes plus links (16- or
//!   32-bit offsets, relative to the table's first byte) to child tables, which are appended
//!   depth-first behind the parent. `Tbl::build()` resolves the offsets.
//! * common tables: [`Cov`] (Coverage format 1/2), [`ClassDefM`] (ClassDef format 1/2),
//!   [`LookupFlags`], [`LookupEnc`] + [`lookup_list`] (with Extension wrapping; the extension
//!   lookup type number is a parameter: 7 for GSUB, 9 for GPOS), [`ScriptM`]/[`LangSysM`] +
//!   [`script_list`], [`FeatureM`] + [`feature_list`], [`FeatureVariationsM`] +
//!   [`feature_variations`], [`layout_header`] (GSUB/GPOS header 1.0/1.1).
//! * GDEF: [`GdefModel`] + [`gdef_table`] (glyph classdef, mark attach classdef, mark glyph
//!   sets; header versions 1.0, 1.2, 1.3).
//! * GSUB: the *program model* [`GsubModel`] ([`Lookup`], [`Subtable`], rules) and
//!   [`gsub_table`], covering subtable types 1.1, 1.2, 2, 3, 4, 5.1–5.3, 6.1–6.3, 8.
//!
//! Conventions of the model: glyph lists of a [`Cov`] are sorted and unique; a rule's `input`
//! excludes the first glyph (which is selected by the coverage / class set); a rule's
//! `backtrack` is stored in *font order*: element 0 is matched against the glyph immediately
//! before the first input glyph, element 1 the one before that, and so on.

use std::collections::BTreeMap;

// ------------------------------------------------------------------------------ Tbl

#[derive(Clone, Debug)]
enum Link {
    Child(Tbl),
    /// same target as the n-th link of this table (shared subtable)
    Alias(usize),
}

/// A table under construction: own bytes + offset links to children.
#[derive(Clone, Debug, Default)]
pub struct Tbl {
    bytes: Vec<u8>,
    /// (position of the offset field, width in bytes (2 or 4), target)
    links: Vec<(usize, u8, Link)>,
    /// zero bytes inserted after the table's own bytes, before its first child
    gap: usize,
}

#[derive(Clone, Debug, PartialEq)]
pub struct OffsetOverflow {
    pub offset: usize,
}

impl Tbl {
    pub fn new() -> Tbl {
        Tbl::default()
    }
    pub fn from_bytes(b: Vec<u8>) -> Tbl {
        Tbl { bytes: b, links: Vec::new(), gap: 0 }
    }
    pub fn len(&self) -> usize {
        self.bytes.len()
    }
    pub fn is_empty(&self) -> bool {
        self.bytes.is_empty()
    }
    pub fn u16(&mut self, v: u16) -> &mut Self {
        self.bytes.extend_from_slice(&v.to_be_bytes());
        self
    }
    pub fn i16(&mut self, v: i16) -> &mut Self {
        self.bytes.extend_from_slice(&v.to_be_bytes());
        self
    }
    pub fn u32(&mut self, v: u32) -> &mut Self {
        self.bytes.extend_from_slice(&v.to_be_bytes());
        self
    }
    pub fn tag(&mut self, t: &[u8; 4]) -> &mut Self {
        self.bytes.extend_from_slice(t);
        self
    }
    pub fn u16s(&mut self, vs: &[u16]) -> &mut Self {
        for v in vs {
            self.u16(*v);
        }
        self
    }
    /// 16-bit offset to `child` (from the start of this table)
    pub fn link16(&mut self, child: Tbl) -> &mut Self {
        self.links.push((self.bytes.len(), 2, Link::Child(child)));
        self.u16(0)
    }
    /// 32-bit offset to `child`
    pub fn link32(&mut self, child: Tbl) -> &mut Self {
        self.links.push((self.bytes.len(), 4, Link::Child(child)));
        self.u32(0)
    }
    /// 16-bit offset with the same target as link number `n` (in order of creation) of this table
    pub fn alias16(&mut self, n: usize) -> &mut Self {
        self.links.push((self.bytes.len(), 2, Link::Alias(n)));
        self.u16(0)
    }
    pub fn opt_link16(&mut self, child: Option<Tbl>) -> &mut Self {
        match child {
            Some(c) => self.link16(c),
            None => self.u16(0),
        }
    }
    pub fn opt_link32(&mut self, child: Option<Tbl>) -> &mut Self {
        match child {
            Some(c) => self.link32(c),
            None => self.u32(0),
        }
    }
    pub fn link_count(&self) -> usize {
        self.links.len()
    }
    pub fn set_gap(&mut self, n: usize) -> &mut Self {
        self.gap = n;
        self
    }
    /// Serialize: own bytes, gap, then every child (depth-first, in link order).
    pub fn try_build(self) -> Result<Vec<u8>, OffsetOverflow> {
        let mut out = self.bytes;
        out.resize(out.len() + self.gap, 0);
        let mut resolved: Vec<usize> = Vec::with_capacity(self.links.len());
        for (pos, width, link) in self.links {
            let off = match link {
                Link::Child(c) => {
                    let off = out.len();
                    let cb = c.try_build()?;
                    out.extend_from_slice(&cb);
                    off
                }
                Link::Alias(n) => resolved[n],
            };
            resolved.push(off);
            if width == 2 {
                if off > 0xFFFF {
                    return Err(OffsetOverflow { offset: off });
                }
                out[pos..pos + 2].copy_from_slice(&(off as u16).to_be_bytes());
            } else {
                out[pos..pos + 4].copy_from_slice(&(off as u32).to_be_bytes());
            }
        }
        Ok(out)
    }
}

// ------------------------------------------------------------------------------ Coverage / ClassDef

/// Coverage table model: sorted unique glyph ids + the format (1 = glyph list, 2 = ranges).
#[derive(Clone, Debug, PartialEq, Default)]
pub struct Cov {
    pub glyphs: Vec<u16>,
    pub format: u8,
}

impl Cov {
    /// sorts and de-duplicates
    pub fn new(mut glyphs: Vec<u16>, format: u8) -> Cov {
        glyphs.sort_unstable();
        glyphs.dedup();
        Cov { glyphs, format: if format == 2 { 2 } else { 1 } }
    }
    /// coverage index of a glyph (position in the sorted list)
    pub fn index(&self, g: u16) -> Option<usize> {
        self.glyphs.binary_search(&g).ok()
    }
    pub fn contains(&self, g: u16) -> bool {
        self.index(g).is_some()
    }
}

/// maximal runs of consecutive values: (first, last)
fn runs(sorted: &[u16]) -> Vec<(u16, u16)> {
    let mut out: Vec<(u16, u16)> = Vec::new();
    for &g in sorted {
        match out.last_mut() {
            Some(l) if l.1 != 0xFFFF && l.1 + 1 == g => l.1 = g,
            _ => out.push((g, g)),
        }
    }
    out
}

pub fn coverage(c: &Cov) -> Tbl {
    let mut t = Tbl::new();
    if c.format == 2 {
        let rs = runs(&c.glyphs);
        t.u16(2).u16(rs.len() as u16);
        let mut idx = 0u16;
        for (a, b) in rs {
            t.u16(a).u16(b).u16(idx);
            idx += b - a + 1;
        }
    } else {
        t.u16(1).u16(c.glyphs.len() as u16).u16s(&c.glyphs);
    }
    t
}

/// ClassDef model: glyph -> class for the non-zero classes (glyphs not listed are class 0).
#[derive(Clone, Debug, PartialEq, Default)]
pub struct ClassDefM {
    pub map: BTreeMap<u16, u16>,
    pub format: u8,
}

impl ClassDefM {
    pub fn new(map: BTreeMap<u16, u16>, format: u8) -> ClassDefM {
        let map = map.into_iter().filter(|(_, c)| *c != 0).collect();
        ClassDefM { map, format: if format == 2 { 2 } else { 1 } }
    }
    pub fn class_of(&self, g: u16) -> u16 {
        self.map.get(&g).copied().unwrap_or(0)
    }
    pub fn max_class(&self) -> u16 {
        self.map.values().copied().max().unwrap_or(0)
    }
}

pub fn classdef(c: &ClassDefM) -> Tbl {
    let mut t = Tbl::new();
    if c.format == 2 {
        // ranges of consecutive glyphs with equal class
        let mut rs: Vec<(u16, u16, u16)> = Vec::new();
        for (&g, &k) in &c.map {
            match rs.last_mut() {
                Some(l) if l.1 != 0xFFFF && l.1 + 1 == g && l.2 == k => l.1 = g,
                _ => rs.push((g, g, k)),
            }
        }
        t.u16(2).u16(rs.len() as u16);
        for (a, b, k) in rs {
            t.u16(a).u16(b).u16(k);
        }
    } else {
        match (c.map.keys().next(), c.map.keys().last()) {
            (Some(&first), Some(&last)) => {
                t.u16(1).u16(first).u16(last - first + 1);
                for g in first..=last {
                    t.u16(c.class_of(g));
                }
            }
            _ => {
                t.u16(1).u16(0).u16(0);
            }
        }
    }
    t
}

// ------------------------------------------------------------------------------ lookups

/// LookupFlag bits + markFilteringSet.
#[derive(Clone, Debug, PartialEq, Default)]
pub struct LookupFlags {
    pub right_to_left: bool,
    pub ignore_base: bool,
    pub ignore_ligatures: bool,
    pub ignore_marks: bool,
    /// 0 = no mark attachment type filter
    pub mark_attach_type: u8,
    /// Some(i) sets useMarkFilteringSet and writes markFilteringSet = i
    pub mark_filtering_set: Option<u16>,
}

impl LookupFlags {
    pub fn bits(&self) -> u16 {
        (self.right_to_left as u16)
            | (self.ignore_base as u16) << 1
            | (self.ignore_ligatures as u16) << 2
            | (self.ignore_marks as u16) << 3
            | (self.mark_filtering_set.is_some() as u16) << 4
            | (self.mark_attach_type as u16) << 8
    }
    pub fn is_plain(&self) -> bool {
        !self.ignore_base && !self.ignore_ligatures && !self.ignore_marks && self.mark_attach_type == 0 && self.mark_filtering_set.is_none()
    }
}

/// One lookup ready for encoding: already serialisable subtables.
#[derive(Clone, Debug)]
pub struct LookupEnc {
    /// the real lookup type (1..8 for GSUB, 1..8 for GPOS)
    pub lookup_type: u16,
    pub flags: LookupFlags,
    pub subtables: Vec<Tbl>,
    /// Some(gap): every subtable is wrapped in an Extension subtable (format 1, 32-bit offset);
    /// `gap` zero bytes are placed between the extension record and the real subtable.
    pub extension: Option<usize>,
}

/// LookupList. `extension_type` = 7 (GSUB) or 9 (GPOS).
pub fn lookup_list(lookups: Vec<LookupEnc>, extension_type: u16) -> Tbl {
    let mut list = Tbl::new();
    list.u16(lookups.len() as u16);
    for l in lookups {
        let mut t = Tbl::new();
        let ty = if l.extension.is_some() { extension_type } else { l.lookup_type };
        t.u16(ty).u16(l.flags.bits()).u16(l.subtables.len() as u16);
        for s in l.subtables {
            match l.extension {
                Some(gap) => {
                    let mut e = Tbl::new();
                    e.u16(1).u16(l.lookup_type).link32(s);
                    e.set_gap(gap);
                    t.link16(e);
                }
                None => {
                    t.link16(s);
                }
            }
        }
        if let Some(set) = l.flags.mark_filtering_set {
            t.u16(set);
        }
        list.link16(t);
    }
    list
}

// ------------------------------------------------------------------------------ scripts / features

#[derive(Clone, Debug, PartialEq)]
pub struct LangSysM {
    /// 0xFFFF = none
    pub required_feature: u16,
    pub feature_indices: Vec<u16>,
}

#[derive(Clone, Debug, PartialEq)]
pub struct ScriptM {
    pub tag: [u8; 4],
    pub default_langsys: Option<LangSysM>,
    /// (language tag, LangSys); written sorted by tag
    pub langsys: Vec<([u8; 4], LangSysM)>,
}

fn langsys(l: &LangSysM) -> Tbl {
    let mut t = Tbl::new();
    t.u16(0).u16(l.required_feature).u16(l.feature_indices.len() as u16).u16s(&l.feature_indices);
    t
}

pub fn script_list(scripts: &[ScriptM]) -> Tbl {
    let mut ss: Vec<&ScriptM> = scripts.iter().collect();
    ss.sort_by_key(|s| s.tag);
    let mut t = Tbl::new();
    t.u16(ss.len() as u16);
    for s in ss {
        let mut st = Tbl::new();
        st.opt_link16(s.default_langsys.as_ref().map(langsys));
        let mut ls: Vec<&([u8; 4], LangSysM)> = s.langsys.iter().collect();
        ls.sort_by_key(|l| l.0);
        st.u16(ls.len() as u16);
        for (tag, l) in ls {
            st.tag(tag).link16(langsys(l));
        }
        t.tag(&s.tag).link16(st);
    }
    t
}

#[derive(Clone, Debug, PartialEq)]
pub struct FeatureM {
    pub tag: [u8; 4],
    pub lookups: Vec<u16>,
}

pub fn feature_table(lookups: &[u16]) -> Tbl {
    let mut t = Tbl::new();
    t.u16(0).u16(lookups.len() as u16).u16s(lookups);
    t
}

/// FeatureList in the given order (the caller keeps the records sorted by tag, as the spec
/// recommends; feature indices are positions in this slice).
pub fn feature_list(features: &[FeatureM]) -> Tbl {
    let mut t = Tbl::new();
    t.u16(features.len() as u16);
    for f in features {
        t.tag(&f.tag).link16(feature_table(&f.lookups));
    }
    t
}

// ------------------------------------------------------------------------------ feature variations

/// Condition table format 1: axis range, raw 2.14 values.
#[derive(Clone, Debug, PartialEq)]
pub struct ConditionM {
    pub axis: u16,
    pub min: i16,
    pub max: i16,
}

#[derive(Clone, Debug, PartialEq)]
pub struct FeatureVariationRecordM {
    pub conditions: Vec<ConditionM>,
    /// true: an empty condition list is written as a NULL ConditionSet offset (universal
    /// condition); false: as a ConditionSet table with conditionCount = 0 (also matches all)
    pub null_condition_set: bool,
    /// None = NULL FeatureTableSubstitution offset; Some(list of (feature index, alternate
    /// lookup list)), sorted by feature index, unique
    pub substitutions: Option<Vec<(u16, Vec<u16>)>>,
}

#[derive(Clone, Debug, PartialEq)]
pub struct FeatureVariationsM {
    pub axis_count: u16,
    pub records: Vec<FeatureVariationRecordM>,
}

pub fn feature_variations(fv: &FeatureVariationsM) -> Tbl {
    let mut t = Tbl::new();
    t.u16(1).u16(0).u32(fv.records.len() as u32);
    for r in &fv.records {
        let cs = if r.conditions.is_empty() && r.null_condition_set {
            None
        } else {
            let mut c = Tbl::new();
            c.u16(r.conditions.len() as u16);
            for cond in &r.conditions {
                let mut ct = Tbl::new();
                ct.u16(1).u16(cond.axis).i16(cond.min).i16(cond.max);
                c.link32(ct);
            }
            Some(c)
        };
        let st = r.substitutions.as_ref().map(|subs| {
            let mut s = Tbl::new();
            s.u16(1).u16(0).u16(subs.len() as u16);
            for (fi, lookups) in subs {
                s.u16(*fi).link32(feature_table(lookups));
            }
            s
        });
        t.opt_link32(cs).opt_link32(st);
    }
    t
}

/// GSUB / GPOS header. Version 1.1 when `fv` is Some or `force_v11`.
pub fn layout_header(scripts: Tbl, features: Tbl, lookups: Tbl, fv: Option<Tbl>, force_v11: bool) -> Tbl {
    let mut t = Tbl::new();
    let v11 = fv.is_some() || force_v11;
    t.u16(1).u16(if v11 { 1 } else { 0 });
    t.link16(scripts).link16(features).link16(lookups);
    if v11 {
        t.opt_link32(fv);
    }
    t
}

// ------------------------------------------------------------------------------ GDEF

#[derive(Clone, Debug, PartialEq, Default)]
pub struct GdefModel {
    /// glyph class definition (1 base, 2 ligature, 3 mark, 4 component)
    pub glyph_classes: Option<ClassDefM>,
    pub mark_attach_classes: Option<ClassDefM>,
    /// GDEF 1.2 mark glyph sets (each a coverage table)
    pub mark_glyph_sets: Option<Vec<Cov>>,
    /// write a version 1.3 header (NULL ItemVariationStore offset) instead of the minimal one
    pub v13: bool,
}

impl GdefModel {
    pub fn glyph_class(&self, g: u16) -> u16 {
        self.glyph_classes.as_ref().map(|c| c.class_of(g)).unwrap_or(0)
    }
    pub fn mark_attach_class(&self, g: u16) -> u16 {
        self.mark_attach_classes.as_ref().map(|c| c.class_of(g)).unwrap_or(0)
    }
    pub fn in_mark_set(&self, set: u16, g: u16) -> bool {
        self.mark_glyph_sets
            .as_ref()
            .and_then(|s| s.get(set as usize))
            .map(|c| c.contains(g))
            .unwrap_or(false)
    }
}

pub fn gdef_table(g: &GdefModel) -> Vec<u8> {
    let mut t = Tbl::new();
    let minor = if g.v13 {
        3
    } else if g.mark_glyph_sets.is_some() {
        2
    } else {
        0
    };
    t.u16(1).u16(minor);
    t.opt_link16(g.glyph_classes.as_ref().map(classdef));
    t.u16(0).u16(0); // attachList, ligCaretList
    t.opt_link16(g.mark_attach_classes.as_ref().map(classdef));
    if minor >= 2 {
        t.opt_link16(g.mark_glyph_sets.as_ref().map(|sets| {
            let mut m = Tbl::new();
            m.u16(1).u16(sets.len() as u16);
            for s in sets {
                m.link32(coverage(s));
            }
            m
        }));
    }
    if minor >= 3 {
        t.u32(0);
    }
    t.try_build().expect("GDEF offsets fit")
}

// ------------------------------------------------------------------------------ GSUB model

/// (sequenceIndex, lookupListIndex)
pub type SeqLookup = (u16, u16);

#[derive(Clone, Debug, PartialEq)]
pub struct Lig {
    /// components after the first
    pub components: Vec<u16>,
    pub glyph: u16,
}

/// Rule of a (non-chained) context subtable format 1 (glyph ids) or 2 (class values).
#[derive(Clone, Debug, PartialEq)]
pub struct SeqRule {
    /// second and following input glyphs / classes
    pub input: Vec<u16>,
    pub records: Vec<SeqLookup>,
}

#[derive(Clone, Debug, PartialEq)]
pub struct ChainRule {
    /// font order: [0] is next to the first input glyph
    pub backtrack: Vec<u16>,
    pub input: Vec<u16>,
    pub lookahead: Vec<u16>,
    pub records: Vec<SeqLookup>,
}

#[derive(Clone, Debug, PartialEq)]
pub enum Subtable {
    Single1 { cov: Cov, delta: i16 },
    Single2 { cov: Cov, subst: Vec<u16> },
    Multiple { cov: Cov, seqs: Vec<Vec<u16>> },
    Alternate { cov: Cov, sets: Vec<Vec<u16>> },
    Ligature { cov: Cov, sets: Vec<Vec<Lig>> },
    /// one optional rule set per covered glyph
    Context1 { cov: Cov, rulesets: Vec<Option<Vec<SeqRule>>> },
    /// one optional rule set per class 0..n
    Context2 { cov: Cov, classdef: ClassDefM, rulesets: Vec<Option<Vec<SeqRule>>> },
    /// covs[0] is the coverage of the first input glyph
    Context3 { covs: Vec<Cov>, records: Vec<SeqLookup> },
    Chain1 { cov: Cov, rulesets: Vec<Option<Vec<ChainRule>>> },
    Chain2 {
        cov: Cov,
        backtrack_classdef: ClassDefM,
        input_classdef: ClassDefM,
        lookahead_classdef: ClassDefM,
        /// write one ClassDef table and point the three offsets at it when the three models are equal
        share_classdefs: bool,
        rulesets: Vec<Option<Vec<ChainRule>>>,
    },
    Chain3 { backtrack: Vec<Cov>, input: Vec<Cov>, lookahead: Vec<Cov>, records: Vec<SeqLookup> },
    Reverse { cov: Cov, backtrack: Vec<Cov>, lookahead: Vec<Cov>, subst: Vec<u16> },
}

impl Subtable {
    /// GSUB lookup type number
    pub fn lookup_type(&self) -> u16 {
        match self {
            Subtable::Single1 { .. } | Subtable::Single2 { .. } => 1,
            Subtable::Multiple { .. } => 2,
            Subtable::Alternate { .. } => 3,
            Subtable::Ligature { .. } => 4,
            Subtable::Context1 { .. } | Subtable::Context2 { .. } | Subtable::Context3 { .. } => 5,
            Subtable::Chain1 { .. } | Subtable::Chain2 { .. } | Subtable::Chain3 { .. } => 6,
            Subtable::Reverse { .. } => 8,
        }
    }
    /// "1.1", "1.2", "2", "3", "4", "5.1" … "6.3", "8"
    pub fn kind(&self) -> &'static str {
        match self {
            Subtable::Single1 { .. } => "1.1",
            Subtable::Single2 { .. } => "1.2",
            Subtable::Multiple { .. } => "2",
            Subtable::Alternate { .. } => "3",
            Subtable::Ligature { .. } => "4",
            Subtable::Context1 { .. } => "5.1",
            Subtable::Context2 { .. } => "5.2",
            Subtable::Context3 { .. } => "5.3",
            Subtable::Chain1 { .. } => "6.1",
            Subtable::Chain2 { .. } => "6.2",
            Subtable::Chain3 { .. } => "6.3",
            Subtable::Reverse { .. } => "8",
        }
    }
}

#[derive(Clone, Debug, PartialEq)]
pub struct Lookup {
    pub lookup_type: u16,
    pub flags: LookupFlags,
    /// all of `lookup_type`
    pub subtables: Vec<Subtable>,
    /// Some(gap): encode as an Extension lookup (type 7)
    pub extension: Option<usize>,
}

#[derive(Clone, Debug, PartialEq, Default)]
pub struct GsubModel {
    pub scripts: Vec<ScriptM>,
    /// FeatureList in table order (feature index = position)
    pub features: Vec<FeatureM>,
    pub lookups: Vec<Lookup>,
    pub feature_variations: Option<FeatureVariationsM>,
    /// write a 1.1 header with a NULL FeatureVariations offset when there are none
    pub force_v11: bool,
}

fn seq_records(t: &mut Tbl, records: &[SeqLookup]) {
    for (s, l) in records {
        t.u16(*s).u16(*l);
    }
}

fn seq_rule(r: &SeqRule) -> Tbl {
    let mut t = Tbl::new();
    t.u16(r.input.len() as u16 + 1).u16(r.records.len() as u16).u16s(&r.input);
    seq_records(&mut t, &r.records);
    t
}

fn chain_rule(r: &ChainRule) -> Tbl {
    let mut t = Tbl::new();
    t.u16(r.backtrack.len() as u16).u16s(&r.backtrack);
    t.u16(r.input.len() as u16 + 1).u16s(&r.input);
    t.u16(r.lookahead.len() as u16).u16s(&r.lookahead);
    t.u16(r.records.len() as u16);
    seq_records(&mut t, &r.records);
    t
}

fn rule_set<R>(rules: &Option<Vec<R>>, enc: impl Fn(&R) -> Tbl) -> Option<Tbl> {
    rules.as_ref().map(|rs| {
        let mut t = Tbl::new();
        t.u16(rs.len() as u16);
        for r in rs {
            t.link16(enc(r));
        }
        t
    })
}

/// One GSUB subtable.
pub fn gsub_subtable(s: &Subtable) -> Tbl {
    let mut t = Tbl::new();
    match s {
        Subtable::Single1 { cov, delta } => {
            t.u16(1).link16(coverage(cov)).i16(*delta);
        }
        Subtable::Single2 { cov, subst } => {
            t.u16(2).link16(coverage(cov)).u16(subst.len() as u16).u16s(subst);
        }
        Subtable::Multiple { cov, seqs } => {
            t.u16(1).link16(coverage(cov)).u16(seqs.len() as u16);
            for s in seqs {
                let mut q = Tbl::new();
                q.u16(s.len() as u16).u16s(s);
                t.link16(q);
            }
        }
        Subtable::Alternate { cov, sets } => {
            t.u16(1).link16(coverage(cov)).u16(sets.len() as u16);
            for s in sets {
                let mut q = Tbl::new();
                q.u16(s.len() as u16).u16s(s);
                t.link16(q);
            }
        }
        Subtable::Ligature { cov, sets } => {
            t.u16(1).link16(coverage(cov)).u16(sets.len() as u16);
            for set in sets {
                let mut st = Tbl::new();
                st.u16(set.len() as u16);
                for l in set {
                    let mut lt = Tbl::new();
                    lt.u16(l.glyph).u16(l.components.len() as u16 + 1).u16s(&l.components);
                    st.link16(lt);
                }
                t.link16(st);
            }
        }
        Subtable::Context1 { cov, rulesets } => {
            t.u16(1).link16(coverage(cov)).u16(rulesets.len() as u16);
            for rs in rulesets {
                t.opt_link16(rule_set(rs, seq_rule));
            }
        }
        Subtable::Context2 { cov, classdef: cd, rulesets } => {
            t.u16(2).link16(coverage(cov)).link16(classdef(cd)).u16(rulesets.len() as u16);
            for rs in rulesets {
                t.opt_link16(rule_set(rs, seq_rule));
            }
        }
        Subtable::Context3 { covs, records } => {
            t.u16(3).u16(covs.len() as u16).u16(records.len() as u16);
            for c in covs {
                t.link16(coverage(c));
            }
            seq_records(&mut t, records);
        }
        Subtable::Chain1 { cov, rulesets } => {
            t.u16(1).link16(coverage(cov)).u16(rulesets.len() as u16);
            for rs in rulesets {
                t.opt_link16(rule_set(rs, chain_rule));
            }
        }
        Subtable::Chain2 { cov, backtrack_classdef, input_classdef, lookahead_classdef, share_classdefs, rulesets } => {
            t.u16(2).link16(coverage(cov));
            let first = t.link_count();
            t.link16(classdef(backtrack_classdef));
            if *share_classdefs && backtrack_classdef == input_classdef && input_classdef == lookahead_classdef {
                t.alias16(first).alias16(first);
            } else {
                t.link16(classdef(input_classdef)).link16(classdef(lookahead_classdef));
            }
            t.u16(rulesets.len() as u16);
            for rs in rulesets {
                t.opt_link16(rule_set(rs, chain_rule));
            }
        }
        Subtable::Chain3 { backtrack, input, lookahead, records } => {
            t.u16(3).u16(backtrack.len() as u16);
            for c in backtrack {
                t.link16(coverage(c));
            }
            t.u16(input.len() as u16);
            for c in input {
                t.link16(coverage(c));
            }
            t.u16(lookahead.len() as u16);
            for c in lookahead {
                t.link16(coverage(c));
            }
            t.u16(records.len() as u16);
            seq_records(&mut t, records);
        }
        Subtable::Reverse { cov, backtrack, lookahead, subst } => {
            t.u16(1).link16(coverage(cov)).u16(backtrack.len() as u16);
            for c in backtrack {
                t.link16(coverage(c));
            }
            t.u16(lookahead.len() as u16);
            for c in lookahead {
                t.link16(coverage(c));
            }
            t.u16(subst.len() as u16).u16s(subst);
        }
    }
    t
}

/// The complete GSUB table for a program model.
pub fn gsub_table(m: &GsubModel) -> Result<Vec<u8>, OffsetOverflow> {
    let lookups: Vec<LookupEnc> = m
        .lookups
        .iter()
        .map(|l| LookupEnc {
            lookup_type: l.lookup_type,
            flags: l.flags.clone(),
            subtables: l.subtables.iter().map(gsub_subtable).collect(),
            extension: l.extension,
        })
        .collect();
    layout_header(
        script_list(&m.scripts),
        feature_list(&m.features),
        lookup_list(lookups, 7),
        m.feature_variations.as_ref().map(feature_variations),
        m.force_v11,
    )
    .try_build()
}

/// Convenience for tests and other encoders: raw bytes of a standalone table.
pub fn bytes_of(t: Tbl) -> Vec<u8> {
    t.try_build().expect("offsets fit")
}
