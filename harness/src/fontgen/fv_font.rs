//! A generated variable font whose GSUB *and* GPOS carry FeatureVariations: two condition sets
//! over the single axis (`wght`) select different lookups for `calt`, `liga`, `rvrn`, `smcp`
//! (GSUB) and `kern`, `dist` (GPOS). Every lookup is a plain single substitution / single
//! adjustment, so the expected shaping result in each of the three regimes (low / default /
//! high) follows directly from the model. Written from the OpenType specification (chapter 2,
//! GSUB, GPOS); nothing here calls an allsorts writer.

use super::basic::BasicFont;
use super::buf::Buf;
use super::var::{fvar_table, AxisModel};

pub type Tag = [u8; 4];

// ---------------------------------------------------------------- common layout model

#[derive(Clone, Debug)]
pub struct ScriptModel {
    pub tag: Tag,
    /// feature indices of the default LangSys (None: no default LangSys)
    pub default: Option<Vec<u16>>,
    pub langs: Vec<(Tag, Vec<u16>)>,
}

#[derive(Clone, Debug)]
pub struct FeatureModel {
    pub tag: Tag,
    pub lookups: Vec<u16>,
}

/// One FeatureVariationRecord: all conditions (axis index, min, max as raw 2.14) must hold;
/// then the listed features (by feature index) get the alternate lookup lists.
#[derive(Clone, Debug)]
pub struct FvRecord {
    pub conditions: Vec<(u16, i16, i16)>,
    pub substitutions: Vec<(u16, Vec<u16>)>,
}

#[derive(Clone, Debug)]
pub enum GsubLookup {
    /// single substitution: every covered glyph g becomes g + delta
    Single { covered: Vec<u16>, delta: i16 },
}

#[derive(Clone, Debug)]
pub enum GposLookup {
    /// single adjustment, one value for every covered glyph
    Single { covered: Vec<u16>, x_placement: i16, x_advance: i16 },
}

#[derive(Clone, Debug)]
pub struct LayoutModel<L> {
    pub scripts: Vec<ScriptModel>,
    pub features: Vec<FeatureModel>,
    pub lookups: Vec<L>,
    pub variations: Vec<FvRecord>,
}

/// encoding choices that do not change the meaning
#[derive(Clone, Copy, Debug)]
pub struct Encoding {
    /// Coverage format 2 (ranges) instead of format 1 (glyph list)
    pub coverage_ranges: bool,
    /// SingleSubst format 2 (substitute list) instead of format 1 (delta)
    pub subst_list: bool,
    /// coverage tables pooled after the lookups, identical ones shared between lookups
    pub pooled_coverage: bool,
}

fn coverage(glyphs: &[u16], ranges: bool) -> Vec<u8> {
    let mut g: Vec<u16> = glyphs.to_vec();
    g.sort();
    g.dedup();
    let mut b = Buf::new();
    if !ranges {
        b.u16(1).u16(g.len() as u16);
        for x in &g {
            b.u16(*x);
        }
    } else {
        let mut rs: Vec<(u16, u16, u16)> = Vec::new();
        for (i, x) in g.iter().enumerate() {
            match rs.last_mut() {
                Some(last) if last.1 + 1 == *x => last.1 = *x,
                _ => rs.push((*x, *x, i as u16)),
            }
        }
        b.u16(2).u16(rs.len() as u16);
        for r in &rs {
            b.u16(r.0).u16(r.1).u16(r.2);
        }
    }
    b.into_vec()
}

fn script_list(scripts: &[ScriptModel]) -> Vec<u8> {
    let mut ss: Vec<&ScriptModel> = scripts.iter().collect();
    ss.sort_by_key(|s| s.tag);
    let langsys = |features: &[u16]| {
        let mut b = Buf::new();
        b.u16(0).u16(0xFFFF).u16(features.len() as u16);
        for f in features {
            b.u16(*f);
        }
        b.into_vec()
    };
    let mut tables: Vec<Vec<u8>> = Vec::new();
    for s in &ss {
        let mut langs: Vec<&(Tag, Vec<u16>)> = s.langs.iter().collect();
        langs.sort_by_key(|l| l.0);
        let header = 4 + 6 * langs.len();
        let mut body = Buf::new();
        let mut b = Buf::new();
        match &s.default {
            Some(f) => {
                b.u16(header as u16);
                body.bytes(&langsys(f));
            }
            None => {
                b.u16(0);
            }
        }
        b.u16(langs.len() as u16);
        for l in &langs {
            b.tag(&l.0).u16((header + body.len()) as u16);
            body.bytes(&langsys(&l.1));
        }
        b.bytes(&body.0);
        tables.push(b.into_vec());
    }
    let mut b = Buf::new();
    b.u16(ss.len() as u16);
    let mut off = 2 + 6 * ss.len();
    for (s, t) in ss.iter().zip(&tables) {
        b.tag(&s.tag).u16(off as u16);
        off += t.len();
    }
    for t in &tables {
        b.bytes(t);
    }
    b.into_vec()
}

fn feature_table(lookups: &[u16]) -> Vec<u8> {
    let mut b = Buf::new();
    b.u16(0).u16(lookups.len() as u16);
    for l in lookups {
        b.u16(*l);
    }
    b.into_vec()
}

/// Feature records keep the model's order (feature indices are referenced from LangSys and
/// FeatureVariations); the model lists them sorted by tag where that matters.
fn feature_list(features: &[FeatureModel]) -> Vec<u8> {
    let mut b = Buf::new();
    b.u16(features.len() as u16);
    let mut off = 2 + 6 * features.len();
    let tables: Vec<Vec<u8>> = features.iter().map(|f| feature_table(&f.lookups)).collect();
    for (f, t) in features.iter().zip(&tables) {
        b.tag(&f.tag).u16(off as u16);
        off += t.len();
    }
    for t in &tables {
        b.bytes(t);
    }
    b.into_vec()
}

/// `lookups`: (lookup type, subtable body whose bytes 2..4 are the coverage offset field,
/// coverage table). Not pooled: every coverage table follows its subtable. Pooled: all
/// coverage tables are stored once each (identical tables shared) after the last lookup, the
/// way font compilers pack them.
fn lookup_list(lookups: &[(u16, Vec<u8>, Vec<u8>)], pooled: bool) -> Vec<u8> {
    let mut b = Buf::new();
    b.u16(lookups.len() as u16);
    let mut off = 2 + 2 * lookups.len();
    let mut starts = Vec::new();
    for (_, body, cov) in lookups {
        b.u16(off as u16);
        starts.push(off + 8);
        off += 8 + body.len() + if pooled { 0 } else { cov.len() };
    }
    let mut pool: Vec<(Vec<u8>, usize)> = Vec::new();
    if pooled {
        for (_, _, cov) in lookups {
            if !pool.iter().any(|p| &p.0 == cov) {
                pool.push((cov.clone(), off));
                off += cov.len();
            }
        }
    }
    for (i, (ty, body, cov)) in lookups.iter().enumerate() {
        let mut sub = body.clone();
        let cov_off = if pooled { pool.iter().find(|p| &p.0 == cov).map(|p| p.1).unwrap_or(0) - starts[i] } else { body.len() };
        sub[2..4].copy_from_slice(&(cov_off as u16).to_be_bytes());
        b.u16(*ty).u16(0).u16(1).u16(8).bytes(&sub);
        if !pooled {
            b.bytes(cov);
        }
    }
    for (cov, _) in &pool {
        b.bytes(cov);
    }
    b.into_vec()
}

fn feature_variations(records: &[FvRecord]) -> Vec<u8> {
    let mut b = Buf::new();
    b.u16(1).u16(0).u32(records.len() as u32);
    let mut body = Buf::new();
    let header = 8 + 8 * records.len();
    for r in records {
        // condition set
        let cs_off = header + body.len();
        let mut cs = Buf::new();
        cs.u16(r.conditions.len() as u16);
        for i in 0..r.conditions.len() {
            cs.u32((2 + 4 * r.conditions.len() + 8 * i) as u32);
        }
        for c in &r.conditions {
            cs.u16(1).u16(c.0).i16(c.1).i16(c.2);
        }
        body.bytes(&cs.0);
        // feature table substitution
        let fts_off = header + body.len();
        let mut subs: Vec<&(u16, Vec<u16>)> = r.substitutions.iter().collect();
        subs.sort_by_key(|s| s.0);
        let mut fts = Buf::new();
        fts.u16(1).u16(0).u16(subs.len() as u16);
        let mut alt = Buf::new();
        let fts_header = 6 + 6 * subs.len();
        for s in &subs {
            fts.u16(s.0).u32((fts_header + alt.len()) as u32);
            alt.bytes(&feature_table(&s.1));
        }
        fts.bytes(&alt.0);
        body.bytes(&fts.0);
        b.u32(cs_off as u32).u32(fts_off as u32);
    }
    b.bytes(&body.0);
    b.into_vec()
}

fn layout_table(scripts: &[ScriptModel], features: &[FeatureModel], lookups: &[(u16, Vec<u8>, Vec<u8>)], pooled: bool, fv: &[FvRecord]) -> Vec<u8> {
    let sl = script_list(scripts);
    let fl = feature_list(features);
    let ll = lookup_list(lookups, pooled);
    let mut b = Buf::new();
    let header = 14;
    b.u16(1).u16(1);
    b.u16(header as u16);
    b.u16((header + sl.len()) as u16);
    b.u16((header + sl.len() + fl.len()) as u16);
    if fv.is_empty() {
        b.u32(0);
    } else {
        b.u32((header + sl.len() + fl.len() + ll.len()) as u32);
    }
    b.bytes(&sl).bytes(&fl).bytes(&ll);
    if !fv.is_empty() {
        b.bytes(&feature_variations(fv));
    }
    b.into_vec()
}

pub fn gsub_table(m: &LayoutModel<GsubLookup>, enc: Encoding) -> Vec<u8> {
    let lookups: Vec<(u16, Vec<u8>, Vec<u8>)> = m
        .lookups
        .iter()
        .map(|l| match l {
            GsubLookup::Single { covered, delta } => {
                let mut g = covered.clone();
                g.sort();
                g.dedup();
                let mut b = Buf::new();
                if enc.subst_list {
                    b.u16(2).u16(0).u16(g.len() as u16);
                    for x in &g {
                        b.u16(x.wrapping_add(*delta as u16));
                    }
                } else {
                    b.u16(1).u16(0).i16(*delta);
                }
                (1u16, b.into_vec(), coverage(&g, enc.coverage_ranges))
            }
        })
        .collect();
    layout_table(&m.scripts, &m.features, &lookups, enc.pooled_coverage, &m.variations)
}

pub fn gpos_table(m: &LayoutModel<GposLookup>, enc: Encoding) -> Vec<u8> {
    let lookups: Vec<(u16, Vec<u8>, Vec<u8>)> = m
        .lookups
        .iter()
        .map(|l| match l {
            GposLookup::Single { covered, x_placement, x_advance } => {
                let mut fmt = 0u16;
                if *x_placement != 0 {
                    fmt |= 0x0001;
                }
                if *x_advance != 0 {
                    fmt |= 0x0004;
                }
                let mut b = Buf::new();
                b.u16(1).u16(0).u16(fmt);
                if *x_placement != 0 {
                    b.i16(*x_placement);
                }
                if *x_advance != 0 {
                    b.i16(*x_advance);
                }
                (1u16, b.into_vec(), coverage(covered, enc.coverage_ranges))
            }
        })
        .collect();
    layout_table(&m.scripts, &m.features, &lookups, enc.pooled_coverage, &m.variations)
}

// ---------------------------------------------------------------- the font

pub const LETTERS: u16 = 8; // 'a'..'h' -> glyphs 1..=8
pub const ALT_SETS: u16 = 5; // glyph g + 8k is the k-th alternate of letter glyph g
pub const GID_SPACE: u16 = 49;
pub const GID_DOTTED_CIRCLE: u16 = 50;
pub const GID_SLASH: u16 = 51;
pub const GID_DIGIT0: u16 = 52; // '0'..'3' -> 52..=55, alternates 56..=59
pub const NUM_GLYPHS: u16 = 60;
/// number of encoding / condition-range variants of the font
pub const VARIANTS: u8 = 6;

#[derive(Clone, Copy, Debug, PartialEq, Eq)]
pub enum Regime {
    /// no tuple, or a tuple matched by neither condition set
    Default,
    Low,
    High,
}

#[derive(Clone, Debug)]
pub struct FvFont {
    pub variant: u8,
    /// raw 2.14 bounds: Low = [-1, -low_edge], High = [high_edge, 1]
    pub low_edge: i16,
    pub high_edge: i16,
    pub gsub: LayoutModel<GsubLookup>,
    pub gpos: LayoutModel<GposLookup>,
    pub enc: Encoding,
}

fn t(s: &[u8; 4]) -> Tag {
    *s
}

impl FvFont {
    pub fn new(variant: u8) -> FvFont {
        let (low_edge, high_edge) = match variant % 4 {
            0 => (4096, 4096),  // ±0.25
            1 => (8192, 4096),  // -0.5 / +0.25
            2 => (4096, 12288), // -0.25 / +0.75
            _ => (1, 1),        // everything except exactly 0
        };
        let enc = Encoding { coverage_ranges: variant & 1 == 1, subst_list: variant & 2 == 2, pooled_coverage: variant >= 4 };
        let ab = vec![1u16, 2];
        let cd = vec![3u16, 4];
        let ef = vec![5u16, 6];
        let gh = vec![7u16, 8];
        let digits: Vec<u16> = (GID_DIGIT0..GID_DIGIT0 + 4).collect();
        let s = |covered: &Vec<u16>, k: i16| GsubLookup::Single { covered: covered.clone(), delta: 8 * k };
        let gsub_lookups = vec![
            s(&ab, 1),                                           // 0 calt default
            s(&cd, 1),                                           // 1 liga default
            s(&ef, 1),                                           // 2 rvrn low
            s(&ab, 2),                                           // 3 calt low
            s(&cd, 2),                                           // 4 liga low
            s(&ef, 2),                                           // 5 rvrn high
            s(&ab, 3),                                           // 6 calt high
            s(&gh, 1),                                           // 7 smcp default
            s(&gh, 2),                                           // 8 smcp low
            GsubLookup::Single { covered: digits, delta: 4 },    // 9 frac
            s(&cd, 4),                                           // 10 liga (latn/TRK)
            s(&ab, 5),                                           // 11 calt (cyrl)
        ];
        let f = |tag: &[u8; 4], l: &[u16]| FeatureModel { tag: t(tag), lookups: l.to_vec() };
        // feature records are listed alphabetically by tag, as the specification requires
        let gsub_features = vec![
            f(b"calt", &[0]),  // 0
            f(b"calt", &[11]), // 1 (cyrl)
            f(b"frac", &[9]),  // 2
            f(b"liga", &[1]),  // 3
            f(b"liga", &[10]), // 4 (latn/TRK)
            f(b"rvrn", &[]),   // 5
            f(b"smcp", &[7]),  // 6
        ];
        let gsub_scripts = vec![
            ScriptModel { tag: t(b"DFLT"), default: Some(vec![0, 2, 3, 5, 6]), langs: vec![] },
            ScriptModel { tag: t(b"latn"), default: Some(vec![0, 2, 3, 5, 6]), langs: vec![(t(b"TRK "), vec![0, 4, 5, 6])] },
            ScriptModel { tag: t(b"cyrl"), default: Some(vec![1, 3, 5]), langs: vec![] },
            ScriptModel { tag: t(b"thai"), default: Some(vec![0, 3, 5]), langs: vec![] },
        ];
        let gsub_fv = vec![
            FvRecord {
                conditions: vec![(0, -16384, -low_edge)],
                substitutions: vec![(0, vec![3]), (3, vec![4]), (5, vec![2]), (6, vec![8])],
            },
            FvRecord { conditions: vec![(0, high_edge, 16384)], substitutions: vec![(0, vec![6]), (5, vec![5])] },
        ];
        let all: Vec<u16> = (1..=LETTERS * (ALT_SETS + 1)).collect();
        let p = |xp: i16, xa: i16| GposLookup::Single { covered: all.clone(), x_placement: xp, x_advance: xa };
        let gpos_lookups = vec![
            p(0, -10), // 0 kern default
            p(0, -20), // 1 kern low
            p(0, -30), // 2 kern high
            p(7, 0),   // 3 dist default
            p(9, 0),   // 4 dist high
        ];
        let gpos_features = vec![f(b"dist", &[3]), f(b"kern", &[0])];
        let gpos_scripts = vec![
            ScriptModel { tag: t(b"DFLT"), default: Some(vec![0, 1]), langs: vec![] },
            ScriptModel { tag: t(b"latn"), default: Some(vec![0, 1]), langs: vec![(t(b"TRK "), vec![1])] },
        ];
        let gpos_fv = vec![
            FvRecord { conditions: vec![(0, -16384, -low_edge)], substitutions: vec![(1, vec![1])] },
            FvRecord { conditions: vec![(0, high_edge, 16384)], substitutions: vec![(0, vec![4]), (1, vec![2])] },
        ];
        FvFont {
            variant,
            low_edge,
            high_edge,
            gsub: LayoutModel { scripts: gsub_scripts, features: gsub_features, lookups: gsub_lookups, variations: gsub_fv },
            gpos: LayoutModel { scripts: gpos_scripts, features: gpos_features, lookups: gpos_lookups, variations: gpos_fv },
            enc,
        }
    }

    /// the axis: wght 100..400..900 (user units)
    pub fn axis() -> AxisModel {
        AxisModel { tag: *b"wght", min: 100 << 16, default: 400 << 16, max: 900 << 16, flags: 0, name_id: 256 }
    }

    pub fn build(&self) -> Vec<u8> {
        let mut f = BasicFont::with_glyphs(NUM_GLYPHS);
        for i in 0..LETTERS {
            f.cmap.insert('a' as u32 + i as u32, 1 + i);
        }
        f.cmap.insert(0x20, GID_SPACE);
        f.cmap.insert(0x25CC, GID_DOTTED_CIRCLE);
        f.cmap.insert('/' as u32, GID_SLASH);
        for i in 0..4u16 {
            f.cmap.insert('0' as u32 + i as u32, GID_DIGIT0 + i);
        }
        f.extra.push((*b"GSUB", gsub_table(&self.gsub, self.enc)));
        f.extra.push((*b"GPOS", gpos_table(&self.gpos, self.enc)));
        f.extra.push((*b"fvar", fvar_table(&[Self::axis()], &[], 0)));
        // vertical metrics that differ from the horizontal ones in values and in the number of
        // long metrics (vhea has the layout of hhea, version 1.1)
        let long_ver = NUM_GLYPHS / 2;
        let mut vhea = super::basic::hhea(500, -500, 1000 + 7 * NUM_GLYPHS, long_ver);
        vhea[0..4].copy_from_slice(&0x0001_1000u32.to_be_bytes());
        let vmetrics: Vec<(u16, i16)> = (0..NUM_GLYPHS).map(|i| (1000 + 7 * i, 10)).collect();
        f.extra.push((*b"vhea", vhea));
        f.extra.push((*b"vmtx", super::basic::hmtx(&vmetrics, long_ver)));
        f.build()
    }

    /// which regime a normalised coordinate (raw 2.14) selects (first matching record wins)
    pub fn regime(&self, coord: Option<i16>) -> Regime {
        match coord {
            None => Regime::Default,
            Some(c) if c <= -self.low_edge => Regime::Low,
            Some(c) if c >= self.high_edge => Regime::High,
            _ => Regime::Default,
        }
    }

    fn fv_index(r: Regime) -> Option<usize> {
        match r {
            Regime::Default => None,
            Regime::Low => Some(0),
            Regime::High => Some(1),
        }
    }

    fn langsys<'a, L>(m: &'a LayoutModel<L>, script: &Tag, lang: Option<&Tag>) -> Option<&'a Vec<u16>> {
        let s = m.scripts.iter().find(|s| &s.tag == script).or_else(|| m.scripts.iter().find(|s| &s.tag == b"DFLT"))?;
        if let Some(l) = lang {
            if let Some(ls) = s.langs.iter().find(|x| &x.0 == l) {
                return Some(&ls.1);
            }
        }
        s.default.as_ref()
    }

    /// lookups of the first feature with `tag` in the langsys, after feature-variation substitution
    fn feature_lookups<L>(m: &LayoutModel<L>, langsys: &[u16], tag: &Tag, regime: Regime) -> Option<Vec<u16>> {
        for fi in langsys {
            let f = &m.features[*fi as usize];
            if &f.tag == tag {
                if let Some(r) = Self::fv_index(regime) {
                    if let Some(s) = m.variations[r].substitutions.iter().find(|s| s.0 == *fi) {
                        return Some(s.1.clone());
                    }
                }
                return Some(f.lookups.clone());
            }
        }
        None
    }

    /// Expected glyph ids after GSUB for a "default" (non-complex) script: `rvrn` first when a
    /// tuple was supplied, then the lookups of the enabled features in lookup-index order.
    pub fn expect_gsub(&self, glyphs: &[u16], script: &Tag, lang: Option<&Tag>, features: &[Tag], regime: Regime, have_tuple: bool) -> Vec<u16> {
        let mut out = glyphs.to_vec();
        let ls = match Self::langsys(&self.gsub, script, lang) {
            Some(l) => l,
            None => return out,
        };
        let apply = |out: &mut Vec<u16>, li: u16| match &self.gsub.lookups[li as usize] {
            GsubLookup::Single { covered, delta } => {
                for g in out.iter_mut() {
                    if covered.contains(g) {
                        *g = g.wrapping_add(*delta as u16);
                    }
                }
            }
        };
        if have_tuple {
            if let Some(ls_rvrn) = Self::feature_lookups(&self.gsub, ls, b"rvrn", regime) {
                for li in ls_rvrn {
                    apply(&mut out, li);
                }
            }
        }
        let mut lookups: Vec<u16> = Vec::new();
        for tag in features {
            if tag == b"rvrn" {
                continue;
            }
            if let Some(l) = Self::feature_lookups(&self.gsub, ls, tag, regime) {
                lookups.extend(l);
            }
        }
        lookups.sort();
        lookups.dedup();
        for li in lookups {
            apply(&mut out, li);
        }
        out
    }

    /// Expected (kerning, x placement) of every letter glyph after GPOS with `dist` and (if
    /// `kerning`) `kern` enabled.
    pub fn expect_gpos(&self, script: &Tag, lang: Option<&Tag>, regime: Regime, kerning: bool) -> (i16, i16) {
        let ls = match Self::langsys(&self.gpos, script, lang) {
            Some(l) => l,
            None => return (0, 0),
        };
        let mut kern = 0i16;
        let mut place = 0i16;
        let mut tags: Vec<&Tag> = vec![b"dist"];
        if kerning {
            tags.push(b"kern");
        }
        for tag in tags {
            if let Some(l) = Self::feature_lookups(&self.gpos, ls, tag, regime) {
                for li in l {
                    match &self.gpos.lookups[li as usize] {
                        GposLookup::Single { x_placement, x_advance, .. } => {
                            kern += *x_advance;
                            place += *x_placement;
                        }
                    }
                }
            }
        }
        (kern, place)
    }
}

// =============================================================================================
// Non-canonical (but accepted) layout encodings.
//
// `NcFont::new(seed)` builds a font whose GSUB and GPOS are valid for a forgiving reader but not
// canonical: Coverage format 2 with range records out of glyph order / overlapping / adjacent
// but unmerged / duplicated, Coverage format 1 unsorted or with duplicates, ClassDef format 2
// with ranges out of order / overlapping, several subtables of one lookup covering the same
// glyph, lookups listed in several features, feature records with equal tags, LangSys tables
// with duplicate feature indices, PairSets not sorted by second glyph. There is no expected
// output for such fonts; they exist for metamorphic checks (used font vs. fresh font), where
// any per-object mutable state inside the reader (search hints, cursors, memoised "last
// match") shows up as a difference.
// =============================================================================================

pub struct NcRng(pub u64);

impl NcRng {
    pub fn next(&mut self) -> u64 {
        self.0 = self.0.wrapping_add(0x9e3779b97f4a7c15);
        let mut z = self.0;
        z = (z ^ (z >> 30)).wrapping_mul(0xbf58476d1ce4e5b9);
        z = (z ^ (z >> 27)).wrapping_mul(0x94d049bb133111eb);
        z ^ (z >> 31)
    }
    pub fn below(&mut self, n: usize) -> usize {
        if n == 0 {
            0
        } else {
            (self.next() % n as u64) as usize
        }
    }
    pub fn chance(&mut self, percent: u32) -> bool {
        self.next() % 100 < percent as u64
    }
    pub fn shuffle<T>(&mut self, v: &mut Vec<T>) {
        for i in (1..v.len()).rev() {
            let j = self.below(i + 1);
            v.swap(i, j);
        }
    }
    /// k distinct values out of lo..=hi (fewer if the interval is smaller)
    pub fn subset(&mut self, lo: u16, hi: u16, k: usize) -> Vec<u16> {
        let mut all: Vec<u16> = (lo..=hi).collect();
        self.shuffle(&mut all);
        all.truncate(k);
        all.sort();
        all
    }
}

pub const NC_LETTERS: u16 = 40; // 'a'..'z' -> 1..=26, 'A'..'N' -> 27..=40
pub const NC_ALT0: u16 = 41; // 41..=80: substitution outputs
pub const NC_SPACE: u16 = 81;
pub const NC_DOTTED_CIRCLE: u16 = 82;
pub const NC_GLYPHS: u16 = 83;

pub fn nc_alphabet() -> Vec<char> {
    ('a'..='z').chain('A'..='N').collect()
}

fn runs_of(sorted: &[u16]) -> Vec<(u16, u16)> {
    let mut out: Vec<(u16, u16)> = Vec::new();
    for &g in sorted {
        match out.last_mut() {
            Some(l) if l.1 + 1 == g => l.1 = g,
            _ => out.push((g, g)),
        }
    }
    out
}

/// A coverage table over `glyphs` in a randomly chosen (mostly non-canonical) style. Returns the
/// bytes and the size of the coverage-index space (= number of per-index records the owning
/// subtable must provide).
pub fn nc_coverage(rng: &mut NcRng, glyphs: &[u16]) -> (Vec<u8>, usize) {
    let mut g: Vec<u16> = glyphs.to_vec();
    g.sort();
    g.dedup();
    let mut b = Buf::new();
    let style = rng.below(10);
    if style < 3 {
        // format 1: sorted / shuffled / with duplicates
        if style >= 1 {
            rng.shuffle(&mut g);
        }
        if style == 2 && !g.is_empty() {
            let d = g[rng.below(g.len())];
            let at = rng.below(g.len() + 1);
            g.insert(at, d);
        }
        b.u16(1).u16(g.len() as u16);
        for x in &g {
            b.u16(*x);
        }
        return (b.into_vec(), g.len());
    }
    let mut rs: Vec<(u16, u16)> = runs_of(&g);
    match style {
        3 => {}
        4 => rs.reverse(),
        5 => rng.shuffle(&mut rs),
        6 => {
            // adjacent but unmerged: split every run longer than one glyph
            let mut out = Vec::new();
            for (a, e) in rs {
                if e > a {
                    let m = a + rng.below((e - a) as usize) as u16;
                    out.push((a, m));
                    out.push((m + 1, e));
                } else {
                    out.push((a, e));
                }
            }
            rs = out;
            if rng.chance(50) {
                rng.shuffle(&mut rs);
            }
        }
        7 => {
            // overlapping: some ranges reach into their successor, one range spans several
            let n = rs.len();
            for i in 0..n.saturating_sub(1) {
                if rng.chance(40) {
                    rs[i].1 = rs[i + 1].0 + rng.below(2) as u16;
                }
            }
            if n >= 2 && rng.chance(50) {
                let i = rng.below(n - 1);
                let span = (rs[i].0, rs[(i + 1 + rng.below(n - 1 - i)).min(n - 1)].1);
                let at = rng.below(n + 1);
                rs.insert(at, span);
            }
            if rng.chance(40) {
                rng.shuffle(&mut rs);
            }
        }
        8 => {
            // duplicated records
            if !rs.is_empty() {
                let d = rs[rng.below(rs.len())];
                let at = rng.below(rs.len() + 1);
                rs.insert(at, d);
            }
            if rng.chance(50) {
                rs.reverse();
            }
        }
        _ => {
            // one range per glyph, out of order
            rs = g.iter().map(|x| (*x, *x)).collect();
            rng.shuffle(&mut rs);
        }
    }
    b.u16(2).u16(rs.len() as u16);
    let mut idx = 0usize;
    for (a, e) in &rs {
        b.u16(*a).u16(*e).u16(idx as u16);
        idx += (*e - *a) as usize + 1;
    }
    (b.into_vec(), idx)
}

/// ClassDef over `map` (glyph, class) in a randomly chosen style.
pub fn nc_classdef(rng: &mut NcRng, map: &[(u16, u16)]) -> Vec<u8> {
    let mut m: Vec<(u16, u16)> = map.to_vec();
    m.sort();
    m.dedup_by_key(|x| x.0);
    let mut b = Buf::new();
    if rng.chance(20) && !m.is_empty() {
        let lo = m[0].0;
        let hi = m[m.len() - 1].0;
        b.u16(1).u16(lo).u16(hi - lo + 1);
        for gl in lo..=hi {
            b.u16(m.iter().find(|x| x.0 == gl).map(|x| x.1).unwrap_or(0));
        }
        return b.into_vec();
    }
    let mut rs: Vec<(u16, u16, u16)> = Vec::new();
    for (gl, k) in &m {
        match rs.last_mut() {
            Some(l) if l.1 + 1 == *gl && l.2 == *k => l.1 = *gl,
            _ => rs.push((*gl, *gl, *k)),
        }
    }
    match rng.below(5) {
        0 => {}
        1 => rs.reverse(),
        2 => rng.shuffle(&mut rs),
        3 => {
            // overlapping ranges with different classes
            let n = rs.len();
            for i in 0..n.saturating_sub(1) {
                if rng.chance(50) {
                    rs[i].1 = rs[i + 1].0;
                }
            }
            if rng.chance(50) {
                rng.shuffle(&mut rs);
            }
        }
        _ => {
            if !rs.is_empty() {
                let mut d = rs[rng.below(rs.len())];
                d.2 = 1 + rng.below(3) as u16;
                let at = rng.below(rs.len() + 1);
                rs.insert(at, d);
            }
            rs.reverse();
        }
    }
    b.u16(2).u16(rs.len() as u16);
    for r in &rs {
        b.u16(r.0).u16(r.1).u16(r.2);
    }
    b.into_vec()
}

/// lookup list whose lookups have several self-contained subtables
fn lookup_list_multi(lookups: &[(u16, Vec<Vec<u8>>)]) -> Vec<u8> {
    let mut b = Buf::new();
    b.u16(lookups.len() as u16);
    let mut off = 2 + 2 * lookups.len();
    for (_, subs) in lookups {
        b.u16(off as u16);
        off += 6 + 2 * subs.len() + subs.iter().map(|s| s.len()).sum::<usize>();
    }
    for (ty, subs) in lookups {
        b.u16(*ty).u16(0).u16(subs.len() as u16);
        let mut so = 6 + 2 * subs.len();
        for s in subs {
            b.u16(so as u16);
            so += s.len();
        }
        for s in subs {
            b.bytes(s);
        }
    }
    b.into_vec()
}

fn nc_layout_table(scripts: &[ScriptModel], features: &[FeatureModel], lookups: &[(u16, Vec<Vec<u8>>)], fv: &[FvRecord]) -> Vec<u8> {
    let sl = script_list(scripts);
    let fl = feature_list(features);
    let ll = lookup_list_multi(lookups);
    let mut b = Buf::new();
    let header = 14;
    b.u16(1).u16(1);
    b.u16(header as u16).u16((header + sl.len()) as u16).u16((header + sl.len() + fl.len()) as u16);
    if fv.is_empty() {
        b.u32(0);
    } else {
        b.u32((header + sl.len() + fl.len() + ll.len()) as u32);
    }
    b.bytes(&sl).bytes(&fl).bytes(&ll);
    if !fv.is_empty() {
        b.bytes(&feature_variations(fv));
    }
    b.into_vec()
}

/// A "far twin": an Extension lookup (`ext`) whose only subtable `twin` is placed beyond the first 64 KiB of the
/// table, at the position where its Coverage table starts exactly `span` bytes behind the Coverage table of the first
/// subtable of the near lookup `near`. Valid (Extension subtables carry 32-bit offsets); it exists so that any
/// per-table cache keyed by a *narrowed* table offset makes the two coverages collide.
pub struct FarTwin {
    pub ext: usize,
    pub near: usize,
    pub twin: Vec<u8>,
    pub span: usize,
}

/// position of subtable `si` of lookup `li` relative to the start of the lookup list written by `lookup_list_multi`
fn subtable_pos(lookups: &[(u16, Vec<Vec<u8>>)], li: usize, si: usize) -> usize {
    let mut off = 2 + 2 * lookups.len();
    for (_, subs) in &lookups[..li] {
        off += 6 + 2 * subs.len() + subs.iter().map(|s| s.len()).sum::<usize>();
    }
    let subs = &lookups[li].1;
    off + 6 + 2 * subs.len() + subs[..si].iter().map(|s| s.len()).sum::<usize>()
}

/// `nc_layout_table` plus far twins. `lookups[t.ext]` must be an Extension lookup with one 8-byte subtable
/// (format 1, wrapped type, offset placeholder); the placeholder is patched here.
fn nc_layout_table_far(scripts: &[ScriptModel], features: &[FeatureModel], lookups: &[(u16, Vec<Vec<u8>>)], fv: &[FvRecord], twins: &[FarTwin], filler: u8) -> Vec<u8> {
    let mut table = nc_layout_table(scripts, features, lookups, fv);
    let sl = script_list(scripts);
    let fl = feature_list(features);
    let ll_start = 14 + sl.len() + fl.len();
    let mut twins: Vec<&FarTwin> = twins.iter().collect();
    let cov_rel = |sub: &[u8]| u16::from_be_bytes([sub[2], sub[3]]) as usize;
    let near_cov = |t: &FarTwin| ll_start + subtable_pos(lookups, t.near, 0) + cov_rel(&lookups[t.near].1[0]);
    // place the twins in ascending order of their target position
    twins.sort_by_key(|t| near_cov(t) + t.span - cov_rel(&t.twin));
    for t in twins {
        let mut at = near_cov(t) + t.span - cov_rel(&t.twin);
        while at < table.len() {
            at += 0x10000; // keep the congruence, move one more span out
        }
        table.resize(at, filler);
        table.extend_from_slice(&t.twin);
        let ext_at = ll_start + subtable_pos(lookups, t.ext, 0);
        let rel = (at - ext_at) as u32;
        table[ext_at + 4..ext_at + 8].copy_from_slice(&rel.to_be_bytes());
    }
    table
}

fn nc_single_subst(rng: &mut NcRng, lo: u16, hi: u16) -> Vec<u8> {
    let k = 3 + rng.below(12);
    let cov_glyphs = rng.subset(lo, hi, k);
    let (cov, space) = nc_coverage(rng, &cov_glyphs);
    let mut b = Buf::new();
    if rng.chance(30) {
        b.u16(1).u16(6).i16(NC_LETTERS as i16);
    } else {
        b.u16(2).u16((6 + 2 * space) as u16).u16(space as u16);
        for _ in 0..space {
            b.u16(NC_ALT0 + rng.below(NC_LETTERS as usize) as u16);
        }
    }
    b.bytes(&cov);
    b.into_vec()
}

/// ContextSubst format 2 (class based): two-glyph rules calling `nested` lookups
fn nc_context_subst(rng: &mut NcRng, nested: &[u16]) -> Vec<u8> {
    let k = 4 + rng.below(10);
    let cov_glyphs = rng.subset(1, NC_LETTERS, k);
    let (cov, _) = nc_coverage(rng, &cov_glyphs);
    let nclass = 3usize;
    let k2 = 20 + rng.below(30);
    let class_glyphs = rng.subset(1, NC_LETTERS * 2, k2);
    let map: Vec<(u16, u16)> = class_glyphs.iter().map(|g| (*g, 1 + rng.below(nclass) as u16)).collect();
    let cd = nc_classdef(rng, &map);
    // class sets 0..=nclass, each with 1-2 rules
    let mut sets: Vec<Vec<u8>> = Vec::new();
    for _ in 0..=nclass {
        let nrules = 1 + rng.below(2);
        let mut rules: Vec<Vec<u8>> = Vec::new();
        for _ in 0..nrules {
            let mut r = Buf::new();
            let second_class = rng.below(nclass + 1) as u16;
            r.u16(2).u16(1).u16(second_class);
            r.u16(rng.below(2) as u16).u16(nested[rng.below(nested.len())]);
            rules.push(r.into_vec());
        }
        let mut s = Buf::new();
        s.u16(rules.len() as u16);
        let mut off = 2 + 2 * rules.len();
        for r in &rules {
            s.u16(off as u16);
            off += r.len();
        }
        for r in &rules {
            s.bytes(r);
        }
        sets.push(s.into_vec());
    }
    let header = 8 + 2 * sets.len();
    let mut b = Buf::new();
    b.u16(2).u16(header as u16).u16((header + cov.len()) as u16).u16(sets.len() as u16);
    let mut off = header + cov.len() + cd.len();
    for s in &sets {
        b.u16(off as u16);
        off += s.len();
    }
    b.bytes(&cov).bytes(&cd);
    for s in &sets {
        b.bytes(s);
    }
    b.into_vec()
}

fn nc_single_pos(rng: &mut NcRng) -> Vec<u8> {
    let k = 4 + rng.below(20);
    let cov_glyphs = rng.subset(1, NC_LETTERS * 2, k);
    let (cov, space) = nc_coverage(rng, &cov_glyphs);
    let mut b = Buf::new();
    if rng.chance(25) {
        b.u16(1).u16(8).u16(0x0004).i16(10 + rng.below(50) as i16);
    } else {
        b.u16(2).u16((8 + 2 * space) as u16).u16(0x0004).u16(space as u16);
        for i in 0..space {
            b.i16(10 * (i as i16 + 1));
        }
    }
    b.bytes(&cov);
    b.into_vec()
}

fn nc_pair_pos1(rng: &mut NcRng) -> Vec<u8> {
    let k = 3 + rng.below(10);
    let cov_glyphs = rng.subset(1, NC_LETTERS * 2, k);
    let (cov, space) = nc_coverage(rng, &cov_glyphs);
    let mut sets: Vec<Vec<u8>> = Vec::new();
    for i in 0..space {
        let ks = 2 + rng.below(6);
        let mut seconds = rng.subset(1, NC_LETTERS * 2, ks);
        if rng.chance(35) {
            rng.shuffle(&mut seconds); // not sorted by second glyph
        }
        let mut s = Buf::new();
        s.u16(seconds.len() as u16);
        for (j, g2) in seconds.iter().enumerate() {
            s.u16(*g2).i16(-(100 * (i as i16 + 1)) - j as i16);
        }
        sets.push(s.into_vec());
    }
    let header = 10 + 2 * sets.len();
    let mut b = Buf::new();
    b.u16(1).u16(header as u16).u16(0x0004).u16(0).u16(sets.len() as u16);
    let mut off = header + cov.len();
    for s in &sets {
        b.u16(off as u16);
        off += s.len();
    }
    b.bytes(&cov);
    for s in &sets {
        b.bytes(s);
    }
    b.into_vec()
}

fn nc_pair_pos2(rng: &mut NcRng) -> Vec<u8> {
    let k = 6 + rng.below(20);
    let cov_glyphs = rng.subset(1, NC_LETTERS * 2, k);
    let (cov, _) = nc_coverage(rng, &cov_glyphs);
    let c1 = 2 + rng.below(3);
    let c2 = 2 + rng.below(3);
    let k1 = 20 + rng.below(30);
    let g1 = rng.subset(1, NC_LETTERS * 2, k1);
    let m1: Vec<(u16, u16)> = g1.iter().map(|g| (*g, rng.below(c1) as u16)).filter(|x| x.1 != 0).collect();
    let k2 = 20 + rng.below(30);
    let g2 = rng.subset(1, NC_LETTERS * 2, k2);
    let m2: Vec<(u16, u16)> = g2.iter().map(|g| (*g, rng.below(c2) as u16)).filter(|x| x.1 != 0).collect();
    let cd1 = nc_classdef(rng, &m1);
    let cd2 = nc_classdef(rng, &m2);
    let header = 16 + 2 * c1 * c2;
    let mut b = Buf::new();
    b.u16(2).u16(header as u16).u16(0x0004).u16(0);
    b.u16((header + cov.len()) as u16).u16((header + cov.len() + cd1.len()) as u16);
    b.u16(c1 as u16).u16(c2 as u16);
    for i in 0..c1 {
        for j in 0..c2 {
            b.i16(if i == 0 && j == 0 { 0 } else { -(7 * i as i16) - 50 * j as i16 });
        }
    }
    b.bytes(&cov).bytes(&cd1).bytes(&cd2);
    b.into_vec()
}

pub struct NcFont {
    pub seed: u64,
    pub bytes: Vec<u8>,
    pub variable: bool,
    pub gsub_feature_tags: Vec<Tag>,
    pub gpos_feature_tags: Vec<Tag>,
}

impl NcFont {
    pub fn new(seed: u64) -> NcFont {
        let mut rng = NcRng(seed.wrapping_mul(0x2545F4914F6CDD1D) ^ 0xC03);
        // ---- GSUB
        let n_plain = 3 + rng.below(4);
        let mut gsub_lookups: Vec<(u16, Vec<Vec<u8>>)> = Vec::new();
        for _ in 0..n_plain {
            let nsub = 1 + rng.below(3);
            let (lo, hi) = if rng.chance(70) { (1, NC_LETTERS) } else { (1, NC_LETTERS * 2) };
            gsub_lookups.push((1, (0..nsub).map(|_| nc_single_subst(&mut rng, lo, hi)).collect()));
        }
        let nested: Vec<u16> = (0..n_plain as u16).collect();
        let n_ctx = 1 + rng.below(2);
        for _ in 0..n_ctx {
            let nsub = 1 + rng.below(2);
            gsub_lookups.push((5, (0..nsub).map(|_| nc_context_subst(&mut rng, &nested)).collect()));
        }
        // seeds >= 24: the features whose lookups allsorts' default shaper handles specially
        // (frac with its numr/dnom slices, afrc), sharing lookups with ordinary default features
        let gsub_tags: &[Tag] = if seed >= 24 {
            &[*b"ccmp", *b"calt", *b"frac", *b"frac", *b"afrc", *b"numr", *b"dnom", *b"liga", *b"clig", *b"frac"]
        } else {
            &[*b"calt", *b"liga", *b"ccmp", *b"smcp", *b"rlig", *b"locl", *b"rvrn"]
        };
        // seeds >= 36: tables larger than 64 KiB. Some single-substitution lookups get a far twin (an Extension
        // lookup whose subtable lies 64 / 128 KiB further out, Coverage tables at offsets congruent modulo 65536)
        let far = seed >= 36;
        let mut gsub_twins: Vec<FarTwin> = Vec::new();
        if far {
            let ntw = 1 + rng.below(3);
            for k in 0..ntw {
                let near = rng.below(n_plain);
                let twin = nc_single_subst(&mut rng, 1, NC_LETTERS);
                gsub_lookups.push((7, vec![vec![0, 1, 0, 1, 0, 0, 0, 0]]));
                gsub_twins.push(FarTwin { ext: gsub_lookups.len() - 1, near, twin, span: 0x10000 * (1 + (k + rng.below(2)) % 2) });
            }
        }
        let (gsub_scripts, gsub_features, gsub_fv, variable) = Self::nc_features(&mut rng, gsub_lookups.len(), gsub_tags);
        let gsub = if far {
            nc_layout_table_far(&gsub_scripts, &gsub_features, &gsub_lookups, &gsub_fv, &gsub_twins, 0)
        } else {
            nc_layout_table(&gsub_scripts, &gsub_features, &gsub_lookups, &gsub_fv)
        };
        // ---- GPOS
        let n_pos = 3 + rng.below(4);
        let mut gpos_lookups: Vec<(u16, Vec<Vec<u8>>)> = Vec::new();
        for _ in 0..n_pos {
            let nsub = 1 + rng.below(3);
            match rng.below(3) {
                0 => gpos_lookups.push((1, (0..nsub).map(|_| nc_single_pos(&mut rng)).collect())),
                1 => gpos_lookups.push((2, (0..nsub).map(|_| nc_pair_pos1(&mut rng)).collect())),
                _ => gpos_lookups.push((2, (0..nsub).map(|_| if rng.chance(70) { nc_pair_pos2(&mut rng) } else { nc_pair_pos1(&mut rng) }).collect())),
            }
        }
        let mut gpos_twins: Vec<FarTwin> = Vec::new();
        if far {
            let ntw = 1 + rng.below(3);
            for k in 0..ntw {
                let near = rng.below(n_pos);
                let ty = gpos_lookups[near].0;
                let twin = if ty == 1 { nc_single_pos(&mut rng) } else if rng.chance(50) { nc_pair_pos1(&mut rng) } else { nc_pair_pos2(&mut rng) };
                gpos_lookups.push((9, vec![vec![0, 1, 0, ty as u8, 0, 0, 0, 0]]));
                gpos_twins.push(FarTwin { ext: gpos_lookups.len() - 1, near, twin, span: 0x10000 * (1 + (k + rng.below(2)) % 2) });
            }
        }
        let (gpos_scripts, gpos_features, mut gpos_fv, _) = Self::nc_features(&mut rng, gpos_lookups.len(), &[*b"kern", *b"dist", *b"kern", *b"mark", *b"liga"]);
        if !variable {
            gpos_fv.clear();
        }
        let gpos = if far {
            nc_layout_table_far(&gpos_scripts, &gpos_features, &gpos_lookups, &gpos_fv, &gpos_twins, 0)
        } else {
            nc_layout_table(&gpos_scripts, &gpos_features, &gpos_lookups, &gpos_fv)
        };
        // ---- font
        let mut f = BasicFont::with_glyphs(NC_GLYPHS);
        for (i, c) in nc_alphabet().iter().enumerate() {
            f.cmap.insert(*c as u32, 1 + i as u16);
        }
        f.cmap.insert(0x20, NC_SPACE);
        f.cmap.insert(0x25CC, NC_DOTTED_CIRCLE);
        f.extra.push((*b"GSUB", gsub));
        f.extra.push((*b"GPOS", gpos));
        if variable {
            f.extra.push((*b"fvar", fvar_table(&[FvFont::axis()], &[], 0)));
        }
        let mut gt: Vec<Tag> = gsub_features.iter().map(|x| x.tag).collect();
        gt.sort();
        gt.dedup();
        let mut pt: Vec<Tag> = gpos_features.iter().map(|x| x.tag).collect();
        pt.sort();
        pt.dedup();
        NcFont { seed, bytes: f.build(), variable, gsub_feature_tags: gt, gpos_feature_tags: pt }
    }

    /// scripts, features (equal tags, shared lookups), optional feature variations
    fn nc_features(rng: &mut NcRng, n_lookups: usize, tags: &[Tag]) -> (Vec<ScriptModel>, Vec<FeatureModel>, Vec<FvRecord>, bool) {
        let nf = 4 + rng.below(4);
        let mut features: Vec<FeatureModel> = Vec::new();
        for _ in 0..nf {
            let tag = tags[rng.below(tags.len())];
            let nl = 1 + rng.below(3);
            // lookups drawn with repetition: the same lookup is listed by several features, and
            // sometimes twice by one feature
            let lookups: Vec<u16> = (0..nl).map(|_| rng.below(n_lookups) as u16).collect();
            features.push(FeatureModel { tag, lookups });
        }
        features.sort_by_key(|f| f.tag);
        let langsys = |rng: &mut NcRng| -> Vec<u16> {
            let k = 2 + rng.below(nf);
            let mut v: Vec<u16> = (0..k).map(|_| rng.below(nf) as u16).collect(); // duplicates possible
            if rng.chance(50) {
                v.sort();
            }
            v
        };
        let mut scripts = vec![
            ScriptModel { tag: *b"DFLT", default: Some(langsys(rng)), langs: vec![] },
            ScriptModel { tag: *b"latn", default: Some(langsys(rng)), langs: vec![(*b"TRK ", langsys(rng))] },
            ScriptModel { tag: *b"cyrl", default: Some(langsys(rng)), langs: vec![] },
        ];
        let variable = rng.chance(50);
        let mut fv = Vec::new();
        if variable {
            let nrec = 1 + rng.below(2);
            for r in 0..nrec {
                let (lo, hi) = if r == 0 { (-16384, -4096) } else { (4096, 16384) };
                let mut subs: Vec<(u16, Vec<u16>)> = Vec::new();
                for fi in 0..nf as u16 {
                    if rng.chance(50) {
                        let nl = 1 + rng.below(2);
                        subs.push((fi, (0..nl).map(|_| rng.below(n_lookups) as u16).collect()));
                    }
                }
                fv.push(FvRecord { conditions: vec![(0, lo, hi)], substitutions: subs });
            }
        }
        // A LangSysRecord literally tagged 'DFLT' ('DFLT' is a script tag, not a language tag, but such
        // records are accepted by the reader): a caller that passes Some(DFLT) as the language - as the
        // library's own documentation examples do - must get the same answer whatever was asked before
        // (drawn last so that the rest of the font is the one the seed produced before this was added).
        if rng.chance(40) {
            let f = langsys(rng);
            scripts[1].langs.push((*b"DFLT", f));
        }
        (scripts, features, fv, variable)
    }
}
