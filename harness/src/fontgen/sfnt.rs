//! sfnt container encoder and an independent directory reader (written from the OpenType spec).

use super::buf::Buf;

pub type Tag = [u8; 4];

pub const TTF: u32 = 0x0001_0000;
pub const OTTO: u32 = 0x4F54_544F;
pub const TRUE: u32 = 0x7472_7565;

pub fn table_checksum(data: &[u8]) -> u32 {
    let mut sum = 0u32;
    let mut i = 0;
    while i < data.len() {
        let mut w = [0u8; 4];
        let n = (data.len() - i).min(4);
        w[..n].copy_from_slice(&data[i..i + n]);
        sum = sum.wrapping_add(u32::from_be_bytes(w));
        i += 4;
    }
    sum
}

/// (searchRange, entrySelector, rangeShift) for n entries of `unit` bytes
pub fn search_fields(n: u16, unit: u16) -> (u16, u16, u16) {
    let mut pow = 1u16;
    let mut sel = 0u16;
    while (pow as u32) * 2 <= n as u32 {
        pow *= 2;
        sel += 1;
    }
    if n == 0 {
        return (0, 0, 0);
    }
    let sr = pow.wrapping_mul(unit);
    (sr, sel, n.wrapping_mul(unit).wrapping_sub(sr))
}

/// Canonical sfnt: directory sorted by tag, tables 4-byte aligned in directory order, zero
/// padding, per-table checksums, and (if a `head` table of at least 12 bytes is present) a
/// correct checkSumAdjustment.
pub fn build_sfnt(flavour: u32, tables: &[(Tag, Vec<u8>)]) -> Vec<u8> {
    let mut tabs: Vec<(Tag, Vec<u8>)> = tables.to_vec();
    tabs.sort_by(|a, b| a.0.cmp(&b.0));
    // zero head.checkSumAdjustment before computing checksums
    for (t, d) in tabs.iter_mut() {
        if t == b"head" && d.len() >= 12 {
            d[8..12].copy_from_slice(&[0, 0, 0, 0]);
        }
    }
    let n = tabs.len() as u16;
    let (sr, es, rs) = search_fields(n, 16);
    let mut b = Buf::new();
    b.u32(flavour).u16(n).u16(sr).u16(es).u16(rs);
    let mut offset = 12 + 16 * tabs.len();
    let mut offsets = Vec::new();
    for (t, d) in &tabs {
        b.tag(t).u32(table_checksum(d)).u32(offset as u32).u32(d.len() as u32);
        offsets.push(offset);
        offset += (d.len() + 3) / 4 * 4;
    }
    let mut head_at = None;
    for (i, (t, d)) in tabs.iter().enumerate() {
        debug_assert_eq!(b.len(), offsets[i]);
        if t == b"head" && d.len() >= 12 {
            head_at = Some(b.len());
        }
        b.bytes(d).pad_to(4);
    }
    let mut out = b.into_vec();
    if let Some(h) = head_at {
        let adj = 0xB1B0AFBAu32.wrapping_sub(table_checksum(&out));
        out[h + 8..h + 12].copy_from_slice(&adj.to_be_bytes());
    }
    out
}

#[derive(Clone, Debug, PartialEq)]
pub struct DirEntry {
    pub tag: Tag,
    pub checksum: u32,
    pub offset: u32,
    pub length: u32,
    /// byte position of this record in the file
    pub record_at: usize,
}

/// Independent reader of a bare sfnt directory (not TTC/WOFF). None if the header is short.
pub fn parse_directory(data: &[u8]) -> Option<(u32, Vec<DirEntry>)> {
    if data.len() < 12 {
        return None;
    }
    let flavour = u32::from_be_bytes(data[0..4].try_into().ok()?);
    let n = u16::from_be_bytes(data[4..6].try_into().ok()?) as usize;
    let mut v = Vec::new();
    for i in 0..n {
        let at = 12 + 16 * i;
        if at + 16 > data.len() {
            return None;
        }
        let w = |o: usize| u32::from_be_bytes(data[at + o..at + o + 4].try_into().unwrap());
        v.push(DirEntry {
            tag: data[at..at + 4].try_into().unwrap(),
            checksum: w(4),
            offset: w(8),
            length: w(12),
            record_at: at,
        });
    }
    Some((flavour, v))
}

/// Table bytes of a bare sfnt by tag (independent of allsorts).
pub fn find_table<'a>(data: &'a [u8], tag: &Tag) -> Option<&'a [u8]> {
    let (_, dir) = parse_directory(data)?;
    let e = dir.iter().find(|e| &e.tag == tag)?;
    data.get(e.offset as usize..(e.offset as usize).checked_add(e.length as usize)?)
}
