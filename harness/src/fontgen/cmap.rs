//! `cmap` ENCODERS for formats 0, 2, 4, 6, 10, 12 (and an empty format 14 stub) plus the table
//! header, written from the OpenType specification. A subtable is produced from a *model*
//! (code -> glyph id, glyph 0 = unmapped) and a stream of layout choices: everything the format
//! leaves free (segmentation, idDelta vs idRangeOffset addressing, modulo-65536 deltas,
//! glyphIdArray window order / sharing / padding, bridged gaps that land on 0, the shape of the
//! final 0xFFFF segment, group splitting, ...) is decided by a `Chooser`, so that the same model
//! is presented to the reader under many byte layouts. Choice 0 is always the plain layout.

use super::buf::Buf;
use super::sfnt::search_fields;
use crate::engine::util::pick;
use std::collections::{BTreeMap, BTreeSet};

/// Source of layout decisions. Runs dry into "always 0" (the plain choice).
pub struct Chooser<'a> {
    words: &'a [u32],
    i: usize,
}

impl<'a> Chooser<'a> {
    pub fn new(words: &'a [u32]) -> Chooser<'a> {
        Chooser { words, i: 0 }
    }
    pub fn word(&mut self) -> u32 {
        let w = self.words.get(self.i).copied().unwrap_or(0);
        self.i += 1;
        w
    }
    /// uniform in 0..n (0 when dry)
    pub fn pick(&mut self, n: usize) -> usize {
        let w = self.word();
        pick(n, w)
    }
    /// true with probability num/den (false when dry)
    pub fn chance(&mut self, num: usize, den: usize) -> bool {
        self.pick(den) >= den - num
    }
}

/// Result of encoding one subtable.
#[derive(Clone, Debug, Default)]
pub struct Encoded {
    pub bytes: Vec<u8>,
    /// layout classes that occur in this subtable (for the evidence histogram)
    pub classes: BTreeSet<&'static str>,
    /// segment / group / window boundaries (codes); probes are placed at and around them
    pub edges: Vec<u32>,
    /// format 4 only: codes that sit on a 0 entry of the glyphIdArray inside a segment whose
    /// idDelta is not 0, with that idDelta. The specification says such a code is unmapped
    /// ("if the value obtained from indexing into the glyphIdArray is not 0, idDelta is added").
    pub zero_entry_with_delta: BTreeMap<u32, u16>,
    pub segments: usize,
}

// ---------------------------------------------------------------------------------------------
// format 0

/// Byte encoding table: 256 glyph ids of one byte each. Codes > 255 and glyph ids > 255 of the
/// model cannot be represented and must not be present.
pub fn format0(map: &BTreeMap<u32, u16>, language: u16) -> Encoded {
    let mut b = Buf::new();
    b.u16(0).u16(262).u16(language);
    for c in 0..256u32 {
        let g = map.get(&c).copied().unwrap_or(0);
        assert!(g <= 255, "format 0 cannot hold glyph {}", g);
        b.u8(g as u8);
    }
    assert!(map.keys().all(|c| *c < 256), "format 0 cannot hold codes above 255");
    let mut e = Encoded { bytes: b.into_vec(), ..Default::default() };
    e.classes.insert("f0");
    e.edges = vec![0, 255];
    e
}

// ---------------------------------------------------------------------------------------------
// format 6 / 10 (trimmed arrays)

fn trimmed_window(map: &BTreeMap<u32, u16>, max_code: u32, ch: &mut Chooser) -> (u32, Vec<u16>) {
    if map.is_empty() {
        // empty array at an arbitrary first code
        let first = [0u32, 0x20, max_code][ch.pick(3)];
        return (first, Vec::new());
    }
    let lo = *map.keys().next().unwrap();
    let hi = *map.keys().last().unwrap();
    assert!(hi <= max_code);
    // optional leading / trailing zero entries
    let lead = (ch.pick(4) as u32).min(lo);
    let trail = (ch.pick(4) as u32).min(max_code - hi);
    let first = lo - lead;
    let last = hi + trail;
    let mut v = Vec::with_capacity((last - first + 1) as usize);
    for c in first..=last {
        v.push(map.get(&c).copied().unwrap_or(0));
    }
    (first, v)
}

pub fn format6(map: &BTreeMap<u32, u16>, language: u16, ch: &mut Chooser) -> Encoded {
    let (first, v) = trimmed_window(map, 0xFFFF, ch);
    assert!(v.len() <= 0xFFFF, "format 6 window too large");
    let mut b = Buf::new();
    // the 16-bit length field cannot describe more than 32762 entries; entryCount governs
    b.u16(6).u16((10 + 2 * v.len()).min(0xFFFF) as u16).u16(language).u16(first as u16).u16(v.len() as u16);
    for g in &v {
        b.u16(*g);
    }
    let mut e = Encoded { bytes: b.into_vec(), ..Default::default() };
    e.classes.insert("f6");
    if first == 0 {
        e.classes.insert("f6:first=0");
    }
    if first as usize + v.len() == 0x10000 {
        e.classes.insert("f6:ends-at-ffff");
    }
    if v.iter().any(|g| *g == 0) {
        e.classes.insert("f6:holes");
    }
    e.edges = vec![first, first + v.len() as u32];
    e
}

pub fn format10(map: &BTreeMap<u32, u16>, language: u32, ch: &mut Chooser) -> Encoded {
    let (first, v) = trimmed_window(map, 0x10FFFF, ch);
    let mut b = Buf::new();
    b.u16(10).u16(0).u32((20 + 2 * v.len()) as u32).u32(language).u32(first).u32(v.len() as u32);
    for g in &v {
        b.u16(*g);
    }
    let mut e = Encoded { bytes: b.into_vec(), ..Default::default() };
    e.classes.insert("f10");
    if first == 0 {
        e.classes.insert("f10:first=0");
    }
    if first > 0xFFFF {
        e.classes.insert("f10:astral");
    }
    e.edges = vec![first, first + v.len() as u32];
    e
}

// ---------------------------------------------------------------------------------------------
// format 12 (segmented coverage)

pub fn format12(map: &BTreeMap<u32, u16>, language: u32, ch: &mut Chooser) -> Encoded {
    let mut groups: Vec<(u32, u32, u32)> = Vec::new();
    let mut e = Encoded::default();
    e.classes.insert("f12");
    let mut prev: Option<(u32, u16)> = None;
    for (&c, &g) in map {
        let mut joined = false;
        if let (Some(last), Some((pc, pg))) = (groups.last_mut(), prev) {
            let consecutive = pc.checked_add(1) == Some(c) && pg.checked_add(1) == Some(g);
            // a consecutive code/glyph pair may continue the group or start an adjacent one
            if consecutive && !ch.chance(1, 6) {
                last.1 = c;
                joined = true;
            } else if consecutive {
                e.classes.insert("f12:adjacent-groups");
            }
        }
        if !joined {
            // a group may begin one code early at glyph 0: (c-1 -> 0, c -> 1, ...) says the same
            // as (c -> 1, ...) when c-1 is unmapped
            let free_before = c >= 1 && !map.contains_key(&(c - 1)) && groups.last().map_or(true, |l| l.1 < c - 1);
            if g == 1 && free_before && ch.chance(2, 3) {
                groups.push((c - 1, c, 0));
                e.classes.insert("f12:group-starts-at-glyph-0");
            } else {
                groups.push((c, c, g as u32));
            }
        }
        prev = Some((c, g));
    }
    // optionally a group that explicitly maps one unmapped code to glyph 0
    if ch.chance(1, 12) {
        let cand = [0u32, 0xFFFF, 0x10000, 0x10FFFF][ch.pick(4)];
        if !map.contains_key(&cand) && !groups.iter().any(|g| g.0 <= cand && cand <= g.1) {
            let at = groups.iter().position(|g| g.0 > cand).unwrap_or(groups.len());
            groups.insert(at, (cand, cand, 0));
            e.classes.insert("f12:null-group");
        }
    }
    // the groups never overlap, so their order carries no information: a reader that scans them
    // (as allsorts does) serves the same mapping in any order; sometimes write them out of order
    if groups.len() >= 2 && ch.chance(1, 8) {
        let n = groups.len();
        match ch.pick(3) {
            0 => groups.reverse(),
            1 => groups.rotate_left(1 + ch.pick(n - 1)),
            _ => {
                let (i, j) = (ch.pick(n), ch.pick(n));
                groups.swap(i, j);
            }
        }
        if groups.windows(2).any(|w| w[0].0 > w[1].0) {
            e.classes.insert("f12:groups-out-of-order");
        }
    }
    let mut b = Buf::new();
    b.u16(12).u16(0).u32(16 + 12 * groups.len() as u32).u32(language).u32(groups.len() as u32);
    for g in &groups {
        b.u32(g.0).u32(g.1).u32(g.2);
        e.edges.push(g.0);
        e.edges.push(g.1);
        if g.0 == g.1 {
            e.classes.insert("f12:singleton");
        }
        if g.1 > 0xFFFF {
            e.classes.insert("f12:astral");
        }
        if g.0 <= 0xFFFF && g.1 > 0xFFFF {
            e.classes.insert("f12:group-spans-bmp-edge");
        }
    }
    e.segments = groups.len();
    e.bytes = b.into_vec();
    e
}

// ---------------------------------------------------------------------------------------------
// format 4 (segment mapping to delta values)

#[derive(Clone, Debug)]
struct Seg4 {
    start: u16,
    end: u16,
    /// glyph per code of the segment, 0 = bridged gap
    gids: Vec<u16>,
    /// None = idRangeOffset 0 (delta addressing); Some(values) = glyphIdArray addressing
    window: Option<Vec<u16>>,
    delta: u16,
    win_at: usize,
}

fn consecutive(gids: &[u16]) -> bool {
    gids.iter().enumerate().all(|(i, g)| *g != 0 && *g == gids[0].wrapping_add(i as u16))
}

/// Encode a 16-bit model as a format 4 subtable. Codes must be <= 0xFFFF, glyphs non-zero.
pub fn format4(map: &BTreeMap<u32, u16>, language: u16, ch: &mut Chooser) -> Encoded {
    let mut e = Encoded::default();
    e.classes.insert("f4");
    assert!(map.keys().all(|c| *c <= 0xFFFF) && map.values().all(|g| *g != 0));

    // A. segmentation
    let mut segs: Vec<Seg4> = Vec::new();
    for (&c32, &g) in map {
        let c = c32 as u16;
        let mut joined = false;
        if let Some(last) = segs.last_mut() {
            let gap = c - last.end - 1;
            if gap == 0 {
                // consecutive code: usually the same segment, sometimes a new abutting one
                if !ch.chance(1, 8) {
                    last.gids.push(g);
                    last.end = c;
                    joined = true;
                }
            } else if gap <= 3 && ch.chance(1, 3) {
                // bridge a small hole: the hole's glyphIdArray entries are 0
                for _ in 0..gap {
                    last.gids.push(0);
                }
                last.gids.push(g);
                last.end = c;
                joined = true;
            }
        }
        if !joined {
            segs.push(Seg4 { start: c, end: c, gids: vec![g], window: None, delta: 0, win_at: 0 });
        }
    }

    // B. explicit "maps to glyph 0" one-code segments in front of / between the real ones
    if ch.chance(1, 6) {
        let mut i = 0;
        let mut added = 0;
        while i < segs.len() && added < 2 {
            let prev_end: i32 = if i == 0 { -1 } else { segs[i - 1].end as i32 };
            let room = segs[i].start as i32 - prev_end - 1;
            if room >= 1 && ch.chance(1, 3) {
                let code = (prev_end + 1) as u16;
                segs.insert(i, Seg4 { start: code, end: code, gids: vec![0], window: None, delta: 0, win_at: 0 });
                e.classes.insert("f4:null-segment");
                added += 1;
                i += 1;
            }
            i += 1;
        }
    }

    // C. the final segment must end at 0xFFFF
    let last_maps = map.contains_key(&0xFFFF);
    if last_maps {
        e.classes.insert("f4:last-segment-maps");
        if segs.last().map_or(false, |s| s.start < 0xFFFF) {
            e.classes.insert("f4:last-segment-is-a-range");
        }
    } else {
        let can_extend = segs.last().map_or(false, |s| 0xFFFF - s.end <= 3 && s.gids.iter().any(|g| *g != 0));
        let choice = ch.pick(3);
        if can_extend && choice >= 1 {
            // stretch the last real segment up to 0xFFFF over 0 entries
            let s = segs.last_mut().unwrap();
            while s.end < 0xFFFF {
                s.gids.push(0);
                s.end += 1;
            }
            e.classes.insert("f4:last-segment-stretched");
        } else if choice == 1 {
            // 0xFFFF through the glyphIdArray, landing on 0
            segs.push(Seg4 { start: 0xFFFF, end: 0xFFFF, gids: vec![0], window: Some(vec![0]), delta: 0, win_at: 0 });
            e.classes.insert("f4:last-segment-via-array");
        } else {
            segs.push(Seg4 { start: 0xFFFF, end: 0xFFFF, gids: vec![0], window: None, delta: 0, win_at: 0 });
        }
    }
    if segs.iter().any(|s| s.end == 0xFFFE) {
        e.classes.insert("f4:segment-abuts-ffff");
    }

    // D. addressing per segment
    for s in segs.iter_mut() {
        if s.window.is_some() {
            continue;
        }
        let all_zero = s.gids.iter().all(|g| *g == 0);
        if all_zero {
            // null segment: delta addressing, start + delta == 0 (mod 65536)
            debug_assert!(s.start == s.end);
            if s.start == 0xFFFF && !ch.chance(1, 4) {
                s.delta = 1;
            } else {
                s.delta = 0u16.wrapping_sub(s.start);
            }
            continue;
        }
        let cons = consecutive(&s.gids);
        if cons && !ch.chance(1, 4) {
            s.delta = s.gids[0].wrapping_sub(s.start);
            e.classes.insert("f4:delta");
            if s.gids[0] < s.start {
                e.classes.insert("f4:delta-wraps-mod-65536");
            }
            continue;
        }
        // glyphIdArray addressing, with an idDelta that is usually 0
        let mut d = 0u16;
        if ch.chance(1, 3) {
            let mut cand = ch.word() as u16;
            if ch.chance(1, 2) {
                cand = [1u16, 0xFFFF, 0x8000, 0x7FFF][ch.pick(4)];
            }
            for _ in 0..8 {
                // a mapped entry must not become 0 in the array
                if cand != 0 && !s.gids.iter().any(|g| *g != 0 && *g == cand) {
                    d = cand;
                    break;
                }
                cand = cand.wrapping_add(1);
            }
        }
        s.delta = d;
        let vals: Vec<u16> = s.gids.iter().map(|g| if *g == 0 { 0 } else { g.wrapping_sub(d) }).collect();
        let has_zero = s.gids.iter().any(|g| *g == 0);
        e.classes.insert("f4:range-offset");
        if d != 0 {
            e.classes.insert("f4:range-offset+delta");
            if s.gids.iter().any(|g| *g != 0 && *g < d) {
                e.classes.insert("f4:range-offset+delta-wraps");
            }
        }
        if has_zero {
            e.classes.insert("f4:range-offset-lands-on-0");
            if d != 0 {
                e.classes.insert("f4:range-offset-lands-on-0,delta!=0");
                for (i, g) in s.gids.iter().enumerate() {
                    if *g == 0 {
                        e.zero_entry_with_delta.insert(s.start as u32 + i as u32, d);
                    }
                }
            }
        }
        if cons {
            e.classes.insert("f4:range-offset-for-a-consecutive-run");
        }
        s.window = Some(vals);
    }

    // E. glyphIdArray layout: window order, sharing, padding
    let n = segs.len();
    let mut order: Vec<usize> = (0..n).filter(|i| segs[*i].window.is_some()).collect();
    match ch.pick(3) {
        1 => {
            order.reverse();
            if order.len() > 1 {
                e.classes.insert("f4:windows-reversed");
            }
        }
        2 => {
            if order.len() > 1 {
                let k = 1 + ch.pick(order.len() - 1);
                order.rotate_left(k);
                e.classes.insert("f4:windows-rotated");
            }
        }
        _ => {}
    }
    let mut array: Vec<u16> = Vec::new();
    for &i in &order {
        let vals = segs[i].window.clone().unwrap();
        // share an identical run of values that is already in the array
        let mut placed = false;
        if !array.is_empty() && vals.len() <= array.len() && ch.chance(2, 3) {
            if let Some(pos) = array.windows(vals.len()).position(|w| w == &vals[..]) {
                segs[i].win_at = pos;
                placed = true;
                e.classes.insert("f4:shared-window");
            }
        }
        if !placed {
            if ch.chance(1, 5) {
                for _ in 0..1 + ch.pick(2) {
                    array.push(0xBEEF);
                }
                e.classes.insert("f4:array-padding");
            }
            segs[i].win_at = array.len();
            array.extend_from_slice(&vals);
        }
    }

    // F. serialise
    let nn = n as u16;
    let (sr, es, rs) = search_fields(nn, 2);
    let length = 16 + 8 * n + 2 * array.len();
    assert!(length <= 0xFFFF, "format 4 subtable too large: {}", length);
    let mut b = Buf::new();
    b.u16(4).u16(length as u16).u16(language).u16(nn * 2).u16(sr).u16(es).u16(rs);
    for s in &segs {
        b.u16(s.end);
    }
    b.u16(0);
    for s in &segs {
        b.u16(s.start);
    }
    for s in &segs {
        b.u16(s.delta);
    }
    for (i, s) in segs.iter().enumerate() {
        match &s.window {
            None => {
                b.u16(0);
            }
            Some(_) => {
                // byte distance from this idRangeOffset word to the window's first entry
                let ro = 2 * (n - i + s.win_at);
                assert!(ro <= 0xFFFE, "idRangeOffset does not fit");
                b.u16(ro as u16);
            }
        }
    }
    for v in &array {
        b.u16(*v);
    }
    for s in &segs {
        e.edges.push(s.start as u32);
        e.edges.push(s.end as u32);
    }
    e.segments = n;
    e.bytes = b.into_vec();
    e
}

// ---------------------------------------------------------------------------------------------
// format 2 (high-byte mapping through table)

/// Encode a mixed 8/16-bit model. Codes < 0x100 are single-byte characters; a code >= 0x100 is
/// a two-byte character whose high byte is a lead byte. No single-byte code may equal a lead
/// byte (asserted). `extra_leads` are lead bytes that have no mapped character. Glyphs are
/// non-zero.
pub fn format2(map: &BTreeMap<u32, u16>, extra_leads: &BTreeSet<u8>, language: u16, ch: &mut Chooser) -> Encoded {
    let mut e = Encoded::default();
    e.classes.insert("f2");
    assert!(map.keys().all(|c| *c <= 0xFFFF) && map.values().all(|g| *g != 0));
    let mut singles: BTreeMap<u8, u16> = BTreeMap::new();
    let mut leads: BTreeMap<u8, BTreeMap<u8, u16>> = BTreeMap::new();
    for (&c, &g) in map {
        if c < 0x100 {
            singles.insert(c as u8, g);
        } else {
            leads.entry((c >> 8) as u8).or_default().insert(c as u8, g);
        }
    }
    for l in extra_leads {
        // a lead byte without any character: every trail byte is unmapped
        leads.entry(*l).or_default();
    }
    assert!(!leads.contains_key(&0), "lead byte 0 is not representable");
    assert!(singles.keys().all(|b| !leads.contains_key(b)), "a byte is both a character and a lead byte");

    struct Sh {
        first: u16,
        count: u16,
        delta: u16,
        vals: Vec<u16>,
        win_at: usize,
    }
    // value array of a sub-header for low-byte map `m`
    let make = |m: &BTreeMap<u8, u16>, ch: &mut Chooser, e: &mut Encoded| -> Sh {
        if m.is_empty() {
            return Sh { first: [0u16, 0x40, 0xFF][ch.pick(3)], count: 0, delta: 0, vals: vec![], win_at: 0 };
        }
        let lo = *m.keys().next().unwrap() as u16;
        let hi = *m.keys().last().unwrap() as u16;
        let first = lo - (ch.pick(3) as u16).min(lo);
        let last = hi + (ch.pick(3) as u16).min(255 - hi);
        let mut d = 0u16;
        if ch.chance(1, 3) {
            let mut cand = if ch.chance(1, 2) { ch.word() as u16 } else { [1u16, 0xFFFF, 0x8000][ch.pick(3)] };
            for _ in 0..8 {
                if cand != 0 && !m.values().any(|g| *g == cand) {
                    d = cand;
                    break;
                }
                cand = cand.wrapping_add(1);
            }
        }
        if d != 0 {
            e.classes.insert("f2:idDelta");
            if m.values().any(|g| *g < d) {
                e.classes.insert("f2:idDelta-wraps");
            }
        }
        let vals: Vec<u16> = (first..=last)
            .map(|b| m.get(&(b as u8)).map_or(0, |g| g.wrapping_sub(d)))
            .collect();
        if vals.iter().any(|v| *v == 0) {
            e.classes.insert("f2:zero-entries");
        }
        Sh { first, count: last - first + 1, delta: d, vals, win_at: 0 }
    };

    // sub-header 0: the single-byte characters
    let mut shs: Vec<Sh> = vec![make(&singles, ch, &mut e)];
    // lead bytes: identical low-byte maps may share one sub-header
    let mut keys = [0u16; 256];
    let mut by_map: Vec<(BTreeMap<u8, u16>, usize)> = Vec::new();
    for (lead, m) in &leads {
        let mut k = None;
        if let Some((_, idx)) = by_map.iter().find(|(mm, _)| mm == m) {
            if ch.chance(2, 3) {
                k = Some(*idx);
                e.classes.insert("f2:shared-subheader");
            }
        }
        let k = match k {
            Some(k) => k,
            None => {
                shs.push(make(m, ch, &mut e));
                by_map.push((m.clone(), shs.len() - 1));
                shs.len() - 1
            }
        };
        keys[*lead as usize] = (k * 8) as u16;
    }
    if !leads.is_empty() {
        e.classes.insert("f2:two-byte");
    }
    for (lead, m) in &leads {
        // a lead byte looked up on its own must stay unmapped even when its own value is a
        // valid (mapped) low byte of its sub-header
        let sh = &shs[(keys[*lead as usize] / 8) as usize];
        if sh.first <= *lead as u16 && (*lead as u16) < sh.first + sh.count {
            e.classes.insert("f2:lead-byte-inside-own-low-byte-range");
        }
        if m.contains_key(lead) {
            e.classes.insert("f2:lead-byte-inside-own-low-byte-range,mapped");
        }
    }
    if !singles.is_empty() {
        e.classes.insert("f2:single-byte");
    }
    // glyphIndexArray: windows in sub-header order or reversed, identical windows shared
    let mut order: Vec<usize> = (0..shs.len()).filter(|i| shs[*i].count > 0).collect();
    if ch.chance(1, 3) {
        order.reverse();
    }
    let mut array: Vec<u16> = Vec::new();
    for &i in &order {
        let vals = shs[i].vals.clone();
        let mut placed = false;
        if vals.len() <= array.len() && ch.chance(2, 3) {
            if let Some(pos) = array.windows(vals.len()).position(|w| w == &vals[..]) {
                shs[i].win_at = pos;
                placed = true;
                e.classes.insert("f2:shared-index-array");
            }
        }
        if !placed {
            if ch.chance(1, 6) {
                array.push(0xBEEF);
            }
            shs[i].win_at = array.len();
            array.extend_from_slice(&vals);
        }
    }
    let nsh = shs.len();
    let length = 6 + 512 + 8 * nsh + 2 * array.len();
    assert!(length <= 0xFFFF, "format 2 subtable too large");
    let mut b = Buf::new();
    b.u16(2).u16(length as u16).u16(language);
    for k in keys.iter() {
        b.u16(*k);
    }
    for (i, s) in shs.iter().enumerate() {
        // idRangeOffset: bytes from the idRangeOffset word itself to the first entry
        let field_at = 8 * i + 6;
        let win_at = 8 * nsh + 2 * s.win_at;
        let ro = if s.count == 0 { 0 } else { win_at - field_at };
        assert!(ro <= 0xFFFF);
        b.u16(s.first).u16(s.count).u16(s.delta).u16(ro as u16);
    }
    for v in &array {
        b.u16(*v);
    }
    for (lead, m) in &leads {
        if let (Some(lo), Some(hi)) = (m.keys().next(), m.keys().last()) {
            e.edges.push((*lead as u32) << 8 | *lo as u32);
            e.edges.push((*lead as u32) << 8 | *hi as u32);
        }
    }
    if let (Some(lo), Some(hi)) = (singles.keys().next(), singles.keys().last()) {
        e.edges.push(*lo as u32);
        e.edges.push(*hi as u32);
    }
    e.segments = nsh;
    e.bytes = b.into_vec();
    e
}

/// The lead bytes of a format 2 subtable built from `map` and `extra_leads`.
pub fn format2_leads(map: &BTreeMap<u32, u16>, extra_leads: &BTreeSet<u8>) -> BTreeSet<u8> {
    let mut l: BTreeSet<u8> = extra_leads.clone();
    for c in map.keys() {
        if *c >= 0x100 {
            l.insert((*c >> 8) as u8);
        }
    }
    l
}

/// Is `code` a character code that a format 2 subtable with these lead bytes defines
/// unambiguously? (a single byte that is not a lead byte, or a two-byte code whose high byte is
/// a lead byte)
pub fn format2_unambiguous(leads: &BTreeSet<u8>, code: u32) -> bool {
    if code > 0xFFFF {
        return false;
    }
    if code < 0x100 {
        !leads.contains(&(code as u8))
    } else {
        leads.contains(&((code >> 8) as u8))
    }
}

// ---------------------------------------------------------------------------------------------
// raw subtables for count / width boundaries that a code -> glyph model cannot express

/// format 6 with the given firstCode and glyph array, unchecked (firstCode + entryCount may
/// exceed 0x10000)
pub fn format6_raw(first: u16, gids: &[u16]) -> Vec<u8> {
    let mut b = Buf::new();
    b.u16(6).u16((10 + 2 * gids.len()).min(0xFFFF) as u16).u16(0).u16(first).u16(gids.len() as u16);
    for g in gids {
        b.u16(*g);
    }
    b.into_vec()
}

/// format 10 with the given startCharCode and glyph array
pub fn format10_raw(first: u32, gids: &[u16]) -> Vec<u8> {
    let mut b = Buf::new();
    b.u16(10).u16(0).u32((20 + 2 * gids.len()) as u32).u32(0).u32(first).u32(gids.len() as u32);
    for g in gids {
        b.u16(*g);
    }
    b.into_vec()
}

/// format 12 from explicit (startCharCode, endCharCode, startGlyphID) groups, unchecked
pub fn format12_raw(groups: &[(u32, u32, u32)]) -> Vec<u8> {
    let mut b = Buf::new();
    b.u16(12).u16(0).u32(16 + 12 * groups.len() as u32).u32(0).u32(groups.len() as u32);
    for g in groups {
        b.u32(g.0).u32(g.1).u32(g.2);
    }
    b.into_vec()
}

// ---------------------------------------------------------------------------------------------
// format 14 stub (no variation selector records) — a subtable that maps no character

pub fn format14_empty() -> Vec<u8> {
    let mut b = Buf::new();
    b.u16(14).u32(10).u32(0);
    b.into_vec()
}

// ---------------------------------------------------------------------------------------------
// table header

/// cmap table from encoding records `(platform, encoding, index into subtables)`. Records are
/// written sorted by (platform, encoding) as the specification requires; the order of the
/// subtable bodies, even-sized padding between them and the sharing of one body by several
/// records are free choices.
pub fn cmap_table(records: &[(u16, u16, usize)], subtables: &[Vec<u8>], ch: &mut Chooser) -> Vec<u8> {
    let mut recs: Vec<(u16, u16, usize)> = records.to_vec();
    recs.sort_by_key(|r| (r.0, r.1));
    let mut order: Vec<usize> = (0..subtables.len()).collect();
    match ch.pick(3) {
        1 => order.reverse(),
        2 if order.len() > 1 => {
            let k = ch.pick(order.len());
            order.rotate_left(k);
        }
        _ => {}
    }
    let header = 4 + 8 * recs.len();
    let mut body = Buf::new();
    let mut offsets = vec![0usize; subtables.len()];
    for &i in &order {
        if ch.chance(1, 5) {
            body.zeros(2 * (1 + ch.pick(2)));
        }
        offsets[i] = header + body.len();
        body.bytes(&subtables[i]);
    }
    let mut b = Buf::new();
    b.u16(0).u16(recs.len() as u16);
    for r in &recs {
        b.u16(r.0).u16(r.1).u32(offsets[r.2] as u32);
    }
    b.bytes(&body.0);
    b.into_vec()
}
