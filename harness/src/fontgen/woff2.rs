//! WOFF2 encoder written from the W3C WOFF2 Recommendation (sections 3 header, 4 table
//! directory / collection directory, 5.1–5.2 transformed glyf with triplet encoding, 5.4
//! transformed hmtx, 6 data types) and RFC 7932 (brotli; only *stored* meta-blocks are
//! emitted). It shares no code with allsorts' `woff2.rs` / `lut.rs`. Every place where the
//! format leaves the encoder a choice takes that choice from a `Choices` stream.

use super::buf::Buf;
use super::glyfgen::{encode_components, Glyph};

pub type Tag = [u8; 4];

/// Stream of encoder choices (cycled). All-zero choices give the smallest/most common forms.
#[derive(Clone, Debug, Default)]
pub struct Choices {
    bytes: Vec<u8>,
    pos: usize,
}

impl Choices {
    pub fn new(bytes: &[u8]) -> Choices {
        Choices { bytes: bytes.to_vec(), pos: 0 }
    }
    pub fn next(&mut self) -> u8 {
        if self.bytes.is_empty() {
            return 0;
        }
        let v = self.bytes[self.pos % self.bytes.len()];
        // vary the cycle a little so that short choice vectors do not lock step with the data
        self.pos = self.pos.wrapping_add(1);
        v.wrapping_add((self.pos / self.bytes.len()) as u8)
    }
    /// index into `n` alternatives
    pub fn pick(&mut self, n: usize) -> usize {
        if n <= 1 {
            0
        } else {
            self.next() as usize % n
        }
    }
}

// ------------------------------------------------------------------------------------------
// data types (section 6)

/// UIntBase128, the unique legal (no leading zero) form.
pub fn uint_base128(v: u32) -> Vec<u8> {
    let mut groups = vec![(v & 0x7F) as u8];
    let mut r = v >> 7;
    while r != 0 {
        groups.push((r & 0x7F) as u8 | 0x80);
        r >>= 7;
    }
    groups.reverse();
    groups
}

/// every legal 255UInt16 encoding of `v`, shortest first
pub fn u255_forms(v: u16) -> Vec<Vec<u8>> {
    let mut f = Vec::new();
    if v < 253 {
        f.push(vec![v as u8]);
    }
    if (253..253 + 256).contains(&v) {
        f.push(vec![255, (v - 253) as u8]);
    }
    if (506..506 + 256).contains(&v) {
        f.push(vec![254, (v - 506) as u8]);
    }
    f.push(vec![253, (v >> 8) as u8, v as u8]);
    f
}

#[derive(Clone, Debug, Default)]
pub struct XStats {
    pub triplet_bins: Vec<u32>,
    pub bbox_elided: u32,
    pub bbox_explicit_diff: u32,
    pub bbox_explicit_equal: u32,
    /// by leading code: [direct, 255, 254, 253]
    pub u255_forms: [u32; 4],
    pub simple_ge3_points: u32,
    pub composites: u32,
    pub empty: u32,
    pub overlap_bitmaps: u32,
}

impl XStats {
    pub fn new() -> XStats {
        XStats { triplet_bins: vec![0; 128], ..Default::default() }
    }
}

pub fn u255(v: u16, ch: &mut Choices, st: &mut XStats) -> Vec<u8> {
    let forms = u255_forms(v);
    let f = forms[ch.pick(forms.len())].clone();
    let k = match f[0] {
        255 if f.len() == 2 => 1,
        254 if f.len() == 2 => 2,
        253 if f.len() == 3 => 3,
        _ => 0,
    };
    st.u255_forms[k] += 1;
    f
}

// ------------------------------------------------------------------------------------------
// known tags (section 4.1)

pub const KNOWN_TAGS: [&[u8; 4]; 63] = [
    b"cmap", b"head", b"hhea", b"hmtx", b"maxp", b"name", b"OS/2", b"post", b"cvt ", b"fpgm", b"glyf", b"loca", b"prep",
    b"CFF ", b"VORG", b"EBDT", b"EBLC", b"gasp", b"hdmx", b"kern", b"LTSH", b"PCLT", b"VDMX", b"vhea", b"vmtx", b"BASE",
    b"GDEF", b"GPOS", b"GSUB", b"EBSC", b"JSTF", b"MATH", b"CBDT", b"CBLC", b"COLR", b"CPAL", b"SVG ", b"sbix", b"acnt",
    b"avar", b"bdat", b"bloc", b"bsln", b"cvar", b"fdsc", b"feat", b"fmtx", b"fvar", b"gvar", b"hsty", b"just", b"lcar",
    b"mort", b"morx", b"opbd", b"prop", b"trak", b"Zapf", b"Silf", b"Glat", b"Gloc", b"Feat", b"Sill",
];

pub fn known_tag_index(tag: &Tag) -> Option<u8> {
    KNOWN_TAGS.iter().position(|t| *t == tag).map(|i| i as u8)
}

// ------------------------------------------------------------------------------------------
// triplet encoding (section 5.2)

#[derive(Clone, Copy, Debug, PartialEq)]
pub struct Triplet {
    /// number of data bytes following the flag byte
    pub data_bytes: usize,
    pub x_bits: u32,
    pub y_bits: u32,
    pub delta_x: i32,
    pub delta_y: i32,
    pub x_neg: bool,
    pub y_neg: bool,
}

/// Row `idx` (0..128) of the triplet table of section 5.2.
pub fn triplet_entry(idx: u8) -> Triplet {
    let idx = idx as i32 & 0x7F;
    // sign pattern shared by all two-axis rows: (-,-) (+,-) (-,+) (+,+)
    let signs = |k: i32| (k % 4 == 0 || k % 4 == 2, k % 4 == 0 || k % 4 == 1);
    if idx < 10 {
        Triplet { data_bytes: 1, x_bits: 0, y_bits: 8, delta_x: 0, delta_y: (idx / 2) * 256, x_neg: false, y_neg: idx % 2 == 0 }
    } else if idx < 20 {
        let k = idx - 10;
        Triplet { data_bytes: 1, x_bits: 8, y_bits: 0, delta_x: (k / 2) * 256, delta_y: 0, x_neg: k % 2 == 0, y_neg: false }
    } else if idx < 84 {
        let k = idx - 20;
        let (x_neg, y_neg) = signs(k);
        Triplet { data_bytes: 1, x_bits: 4, y_bits: 4, delta_x: 1 + (k / 16) * 16, delta_y: 1 + ((k / 4) % 4) * 16, x_neg, y_neg }
    } else if idx < 120 {
        let k = idx - 84;
        let (x_neg, y_neg) = signs(k);
        Triplet { data_bytes: 2, x_bits: 8, y_bits: 8, delta_x: 1 + (k / 12) * 256, delta_y: 1 + ((k / 4) % 3) * 256, x_neg, y_neg }
    } else if idx < 124 {
        let (x_neg, y_neg) = signs(idx - 120);
        Triplet { data_bytes: 3, x_bits: 12, y_bits: 12, delta_x: 0, delta_y: 0, x_neg, y_neg }
    } else {
        let (x_neg, y_neg) = signs(idx - 124);
        Triplet { data_bytes: 4, x_bits: 16, y_bits: 16, delta_x: 0, delta_y: 0, x_neg, y_neg }
    }
}

/// Decode per the spec: (dx, dy) of the data bytes under row `idx`.
pub fn triplet_decode(idx: u8, data: &[u8]) -> (i32, i32) {
    let t = triplet_entry(idx);
    let mut v: u64 = 0;
    for b in &data[..t.data_bytes] {
        v = (v << 8) | *b as u64;
    }
    let total = 8 * t.data_bytes as u32;
    let xv = if t.x_bits == 0 { 0 } else { (v >> (total - t.x_bits)) & ((1u64 << t.x_bits) - 1) };
    let yv = if t.y_bits == 0 { 0 } else { (v >> (total - t.x_bits - t.y_bits)) & ((1u64 << t.y_bits) - 1) };
    let dx = xv as i32 + t.delta_x;
    let dy = yv as i32 + t.delta_y;
    (if t.x_neg { -dx } else { dx }, if t.y_neg { -dy } else { dy })
}

fn axis_fits(v: i32, bits: u32, delta: i32, neg: bool) -> bool {
    let m = v.abs() - delta;
    if m < 0 || (m as i64) >= (1i64 << bits) {
        return false;
    }
    // the sign column must agree, except that zero is zero under either sign
    v == 0 || (v < 0) == neg
}

/// All rows that can represent (dx, dy), smallest encoding first.
pub fn triplet_candidates(dx: i32, dy: i32) -> Vec<u8> {
    let mut v: Vec<u8> = (0u8..128)
        .filter(|i| {
            let t = triplet_entry(*i);
            axis_fits(dx, t.x_bits, t.delta_x, t.x_neg) && axis_fits(dy, t.y_bits, t.delta_y, t.y_neg)
        })
        .collect();
    v.sort_by_key(|i| triplet_entry(*i).data_bytes);
    v
}

/// Data bytes of (dx, dy) under row `idx` (which must be a candidate).
pub fn triplet_encode(idx: u8, dx: i32, dy: i32) -> Vec<u8> {
    let t = triplet_entry(idx);
    let xv = (dx.abs() - t.delta_x) as u64;
    let yv = (dy.abs() - t.delta_y) as u64;
    let total = 8 * t.data_bytes as u32;
    let mut v: u64 = 0;
    if t.x_bits > 0 {
        v |= xv << (total - t.x_bits);
    }
    if t.y_bits > 0 {
        v |= yv << (total - t.x_bits - t.y_bits);
    }
    (0..t.data_bytes).map(|i| (v >> (8 * (t.data_bytes - 1 - i))) as u8).collect()
}

// ------------------------------------------------------------------------------------------
// transformed glyf (section 5.1)

/// How explicit bounding boxes of simple glyphs are chosen when the stored box equals the
/// computed one.
#[derive(Clone, Copy, Debug, PartialEq)]
pub enum BboxPolicy {
    /// elide whenever equal (what the reference encoder does)
    ElideWhenEqual,
    /// per glyph choice
    Choose,
}

/// Per-point override used by the triplet sweep: force row `idx` for point `k` of glyph `g`.
pub type ForcedTriplets = std::collections::BTreeMap<(usize, usize), u8>;

pub fn transform_glyf(
    glyphs: &[Glyph],
    index_format: u16,
    policy: BboxPolicy,
    forced: Option<&ForcedTriplets>,
    ch: &mut Choices,
    st: &mut XStats,
) -> Vec<u8> {
    let n = glyphs.len();
    let mut n_contour = Buf::new();
    let mut n_points = Buf::new();
    let mut flags = Buf::new();
    let mut glyph_stream = Buf::new();
    let mut composite = Buf::new();
    let bitmap_len = 4 * ((n + 31) / 32);
    let mut bitmap = vec![0u8; bitmap_len];
    let mut bbox = Buf::new();
    let mut instr = Buf::new();
    for (gi, g) in glyphs.iter().enumerate() {
        let mut explicit: Option<(i16, i16, i16, i16)> = None;
        match g {
            Glyph::Empty | Glyph::EmptyHeader => {
                n_contour.i16(0);
                st.empty += 1;
            }
            Glyph::Simple(s) => {
                n_contour.i16(s.contours.len() as i16);
                for c in &s.contours {
                    n_points.bytes(&u255(c.len() as u16, ch, st));
                }
                let (mut px, mut py) = (0i32, 0i32);
                let mut k = 0usize;
                for c in &s.contours {
                    for p in c {
                        let dx = p.0 as i32 - px;
                        let dy = p.1 as i32 - py;
                        px = p.0 as i32;
                        py = p.1 as i32;
                        let idx = match forced.and_then(|f| f.get(&(gi, k))) {
                            Some(i) => *i,
                            None => {
                                let cands = triplet_candidates(dx, dy);
                                cands[ch.pick(cands.len())]
                            }
                        };
                        st.triplet_bins[idx as usize] += 1;
                        flags.u8(idx | if p.2 { 0 } else { 0x80 });
                        glyph_stream.bytes(&triplet_encode(idx, dx, dy));
                        k += 1;
                    }
                }
                glyph_stream.bytes(&u255(s.instructions.len() as u16, ch, st));
                instr.bytes(&s.instructions);
                if s.bbox != s.computed_bbox() {
                    explicit = Some(s.bbox);
                    st.bbox_explicit_diff += 1;
                } else if policy == BboxPolicy::Choose && ch.next() & 3 == 3 {
                    explicit = Some(s.bbox);
                    st.bbox_explicit_equal += 1;
                } else {
                    st.bbox_elided += 1;
                }
                if s.num_points() >= 3 {
                    st.simple_ge3_points += 1;
                }
            }
            Glyph::Composite(c) => {
                n_contour.i16(-1);
                composite.bytes(&encode_components(c));
                // the instruction length is present iff *any* component has WE_HAVE_INSTRUCTIONS
                assert!(c.instructions.is_some() == c.any_instruction_flag());
                if let Some(ins) = &c.instructions {
                    glyph_stream.bytes(&u255(ins.len() as u16, ch, st));
                    instr.bytes(ins);
                }
                explicit = Some(c.bbox);
                st.composites += 1;
            }
        }
        if let Some(b) = explicit {
            bitmap[gi / 8] |= 0x80 >> (gi % 8);
            bbox.i16(b.0).i16(b.1).i16(b.2).i16(b.3);
        }
    }
    // optionFlags bit 0 (2022 Recommendation): an overlapSimpleBitmap of (numGlyphs + 7) >> 3 bytes follows
    // the instruction stream; its bits only carry the OVERLAP_SIMPLE flag of simple glyphs, which is not one
    // of the glyph attributes compared, so the expected glyphs are unchanged whatever the bits say.
    // (Drawn after all other choices so that enabling it does not disturb them.)
    let overlap_bitmap: Option<Vec<u8>> = if ch.next() % 5 == 0 {
        let mut bm = vec![0u8; (n + 7) >> 3];
        for (gi, g) in glyphs.iter().enumerate() {
            if matches!(g, Glyph::Simple(_)) && ch.next() & 1 == 1 {
                bm[gi / 8] |= 0x80 >> (gi % 8);
            }
        }
        st.overlap_bitmaps += 1;
        Some(bm)
    } else {
        None
    };
    let mut out = Buf::new();
    out.u16(0).u16(if overlap_bitmap.is_some() { 1 } else { 0 }); // reserved, optionFlags
    out.u16(n as u16).u16(index_format);
    out.u32(n_contour.len() as u32);
    out.u32(n_points.len() as u32);
    out.u32(flags.len() as u32);
    out.u32(glyph_stream.len() as u32);
    out.u32(composite.len() as u32);
    out.u32((bitmap.len() + bbox.len()) as u32);
    out.u32(instr.len() as u32);
    out.bytes(&n_contour.0).bytes(&n_points.0).bytes(&flags.0).bytes(&glyph_stream.0).bytes(&composite.0);
    out.bytes(&bitmap).bytes(&bbox.0).bytes(&instr.0);
    if let Some(bm) = &overlap_bitmap {
        out.bytes(bm);
    }
    out.into_vec()
}

// ------------------------------------------------------------------------------------------
// transformed hmtx (section 5.4)

pub const HMTX_NO_PROPORTIONAL_LSB: u8 = 1;
pub const HMTX_NO_MONOSPACE_LSB: u8 = 2;

/// `metrics`: (advance, lsb) per glyph. The caller is responsible for the precondition of
/// each flag bit (the elided side bearings equal xMin / 0).
pub fn transform_hmtx(metrics: &[(u16, i16)], nhm: usize, flags: u8) -> Vec<u8> {
    let mut b = Buf::new();
    b.u8(flags);
    for m in &metrics[..nhm] {
        b.u16(m.0);
    }
    if flags & HMTX_NO_PROPORTIONAL_LSB == 0 {
        for m in &metrics[..nhm] {
            b.i16(m.1);
        }
    }
    if flags & HMTX_NO_MONOSPACE_LSB == 0 {
        for m in &metrics[nhm..] {
            b.i16(m.1);
        }
    }
    b.into_vec()
}

// ------------------------------------------------------------------------------------------
// brotli stored stream (RFC 7932 sections 9.1, 9.2)

struct BitW {
    out: Vec<u8>,
    acc: u64,
    n: u32,
}

impl BitW {
    fn bits(&mut self, v: u32, count: u32) {
        self.acc |= (v as u64) << self.n;
        self.n += count;
        while self.n >= 8 {
            self.out.push(self.acc as u8);
            self.acc >>= 8;
            self.n -= 8;
        }
    }
    fn align(&mut self) {
        if self.n > 0 {
            self.out.push(self.acc as u8);
            self.acc = 0;
            self.n = 0;
        }
    }
}

#[derive(Clone, Debug)]
pub struct BrotliOpts {
    /// window bits 10..=24
    pub wbits: u8,
    /// meta-block lengths, cycled; each clamped to 1..=2^24
    pub chunks: Vec<u32>,
    /// insert an empty metadata meta-block (with this many skipped bytes) before every data
    /// meta-block whose ordinal is a multiple of `meta_every` (0 = never)
    pub meta_every: u8,
    pub meta_skip: u8,
}

impl Default for BrotliOpts {
    fn default() -> Self {
        BrotliOpts { wbits: 16, chunks: vec![65536], meta_every: 0, meta_skip: 0 }
    }
}

pub fn brotli_stored(data: &[u8], o: &BrotliOpts) -> Vec<u8> {
    let mut w = BitW { out: Vec::new(), acc: 0, n: 0 };
    match o.wbits {
        16 => w.bits(0, 1),
        17 => w.bits(0b0000001, 7),
        18..=24 => w.bits(((o.wbits as u32 - 17) << 1) | 1, 4),
        10..=15 => w.bits(((o.wbits as u32 - 8) << 4) | 1, 7),
        _ => w.bits(0, 1),
    }
    let mut at = 0usize;
    let mut k = 0usize;
    while at < data.len() {
        if o.meta_every != 0 && k % o.meta_every as usize == 0 {
            // empty meta-block carrying skipped metadata bytes
            w.bits(0, 1); // ISLAST
            w.bits(3, 2); // MNIBBLES = 0
            w.bits(0, 1); // reserved
            if o.meta_skip == 0 {
                w.bits(0, 2);
                w.align();
            } else {
                w.bits(1, 2); // MSKIPBYTES = 1
                w.bits(o.meta_skip as u32 - 1, 8);
                w.align();
                for i in 0..o.meta_skip {
                    w.out.push(0xC0 ^ i);
                }
            }
        }
        let want = if o.chunks.is_empty() { 65536 } else { o.chunks[k % o.chunks.len()] };
        let len = (want.clamp(1, 1 << 24) as usize).min(data.len() - at);
        let m = (len - 1) as u32;
        let nibbles = if m < (1 << 16) {
            4
        } else if m < (1 << 20) {
            5
        } else {
            6
        };
        w.bits(0, 1); // ISLAST
        w.bits(nibbles - 4, 2); // MNIBBLES
        w.bits(m, nibbles * 4); // MLEN - 1
        w.bits(1, 1); // ISUNCOMPRESSED
        w.align();
        w.out.extend_from_slice(&data[at..at + len]);
        at += len;
        k += 1;
    }
    w.bits(1, 1); // ISLAST
    w.bits(1, 1); // ISLASTEMPTY
    w.align();
    w.out
}

// ------------------------------------------------------------------------------------------
// container (sections 3, 4)

#[derive(Clone, Debug)]
pub struct EncTable {
    pub tag: Tag,
    /// write flag 63 + the tag even if the tag is in the known-tag list
    pub explicit_tag: bool,
    /// bits 6-7 of the flags byte
    pub transform_version: u8,
    pub orig_length: u32,
    /// written iff Some (i.e. iff the table is transformed)
    pub transform_length: Option<u32>,
    /// the bytes stored in the (uncompressed) table data stream
    pub data: Vec<u8>,
}

impl EncTable {
    /// an untransformed table (glyf/loca get transform version 3, all others 0)
    pub fn plain(tag: Tag, data: &[u8], explicit_tag: bool) -> EncTable {
        let tv = if &tag == b"glyf" || &tag == b"loca" { 3 } else { 0 };
        EncTable { tag, explicit_tag, transform_version: tv, orig_length: data.len() as u32, transform_length: None, data: data.to_vec() }
    }
    pub fn transformed(tag: Tag, version: u8, orig_length: u32, data: Vec<u8>, explicit_tag: bool) -> EncTable {
        EncTable { tag, explicit_tag, transform_version: version, orig_length, transform_length: Some(data.len() as u32), data }
    }
}

#[derive(Clone, Debug)]
pub struct EncCollection {
    /// 0x00010000 or 0x00020000
    pub version: u32,
    /// per font: flavour and indices into the table directory
    pub fonts: Vec<(u32, Vec<u16>)>,
}

#[derive(Clone, Debug, Default)]
pub struct ContainerOpts {
    pub brotli: BrotliOpts,
    pub major: u16,
    pub minor: u16,
    /// extended metadata (XML text), stored brotli-compressed after the font data
    pub metadata: Option<Vec<u8>>,
    pub private: Vec<u8>,
}

fn pad4(b: &mut Buf) {
    b.pad_to(4);
}

/// Assemble a WOFF2 file. `flavour` is the sfnt version of a single font, or 'ttcf' when
/// `collection` is given.
pub fn encode_woff2(
    flavour: u32,
    tables: &[EncTable],
    collection: Option<&EncCollection>,
    opts: &ContainerOpts,
    ch: &mut Choices,
    st: &mut XStats,
) -> Vec<u8> {
    let mut dir = Buf::new();
    let mut stream = Vec::new();
    for t in tables {
        let known = known_tag_index(&t.tag);
        match known {
            Some(k) if !t.explicit_tag => {
                dir.u8((t.transform_version << 6) | k);
            }
            _ => {
                dir.u8((t.transform_version << 6) | 63).tag(&t.tag);
            }
        }
        dir.bytes(&uint_base128(t.orig_length));
        if let Some(tl) = t.transform_length {
            dir.bytes(&uint_base128(tl));
        }
        stream.extend_from_slice(&t.data);
    }
    let mut total_sfnt: u64 = 0;
    if let Some(c) = collection {
        dir.u32(c.version);
        dir.bytes(&u255(c.fonts.len() as u16, ch, st));
        total_sfnt += 12 + 4 * c.fonts.len() as u64;
        for (fl, idx) in &c.fonts {
            dir.bytes(&u255(idx.len() as u16, ch, st));
            dir.u32(*fl);
            for i in idx {
                dir.bytes(&u255(*i, ch, st));
            }
            total_sfnt += 12 + 16 * idx.len() as u64;
        }
    } else {
        total_sfnt += 12 + 16 * tables.len() as u64;
    }
    for t in tables {
        total_sfnt += (t.orig_length as u64 + 3) / 4 * 4;
    }
    let compressed = brotli_stored(&stream, &opts.brotli);
    let mut b = Buf::new();
    b.tag(b"wOF2").u32(flavour);
    b.u32(0); // length, patched below
    b.u16(tables.len() as u16).u16(0);
    b.u32(total_sfnt.min(u32::MAX as u64) as u32);
    b.u32(compressed.len() as u32);
    b.u16(opts.major).u16(opts.minor);
    let meta_fields_at = b.len();
    b.u32(0).u32(0).u32(0).u32(0).u32(0);
    debug_assert_eq!(b.len(), 48);
    b.bytes(&dir.0);
    b.bytes(&compressed);
    if let Some(m) = &opts.metadata {
        pad4(&mut b);
        let c = brotli_stored(m, &BrotliOpts::default());
        b.set_u32(meta_fields_at, b.len() as u32);
        b.set_u32(meta_fields_at + 4, c.len() as u32);
        b.set_u32(meta_fields_at + 8, m.len() as u32);
        b.bytes(&c);
    }
    if !opts.private.is_empty() {
        pad4(&mut b);
        b.set_u32(meta_fields_at + 12, b.len() as u32);
        b.set_u32(meta_fields_at + 16, opts.private.len() as u32);
        b.bytes(&opts.private);
    }
    let len = b.len() as u32;
    b.set_u32(8, len);
    b.into_vec()
}
