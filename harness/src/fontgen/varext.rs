//! Encoders for the tables the C12 extension sections add to a generated variable font, written
//! from the OpenType specification: vhea / VVAR (vmtx has the hmtx layout), STAT with axis value
//! tables of formats 1–4, OS/2 of every version (0 short, 0, 1, 2, 3, 4, 5), a name table with a
//! free choice of records, gasp, and a patcher for component flags of a composite glyph record.

use super::buf::Buf;

/// vhea, version 1.0 or 1.1 (36 bytes, the hhea layout).
pub fn vhea_table(v11: bool, ascent: i16, descent: i16, line_gap: i16, adv_max: u16, caret: (i16, i16, i16), num_long: u16) -> Vec<u8> {
    let mut b = Buf::new();
    b.u32(if v11 { 0x0001_1000 } else { 0x0001_0000 });
    b.i16(ascent).i16(descent).i16(line_gap);
    b.u16(adv_max).i16(0).i16(0).i16(adv_max as i16);
    b.i16(caret.0).i16(caret.1).i16(caret.2);
    b.i16(0).i16(0).i16(0).i16(0);
    b.i16(0);
    b.u16(num_long);
    b.into_vec()
}

/// Turn an HVAR table (20 byte header: version, store offset, three map offsets) into a VVAR
/// table (24 byte header: the same plus vOrgMappingOffset): the fourth offset is inserted and
/// every non-null offset grows by four. `vorg_map`, if given, is appended and referenced.
pub fn vvar_from_hvar(hvar: &[u8], vorg_map: Option<&[u8]>) -> Vec<u8> {
    let rd = |at: usize| u32::from_be_bytes([hvar[at], hvar[at + 1], hvar[at + 2], hvar[at + 3]]);
    let mut b = Buf::new();
    b.bytes(&hvar[0..4]);
    for k in 0..4 {
        let o = rd(4 + 4 * k);
        b.u32(if o == 0 { 0 } else { o + 4 });
    }
    let vorg_off = match vorg_map {
        Some(_) => hvar.len() as u32 + 4,
        None => 0,
    };
    b.u32(vorg_off);
    b.bytes(&hvar[20..]);
    if let Some(m) = vorg_map {
        b.bytes(m);
    }
    b.into_vec()
}

#[derive(Clone, Debug)]
pub enum StatValue {
    /// format 1: axis index, value
    F1 { axis: u16, value: i32 },
    /// format 2: axis index, nominal, range min, range max
    F2 { axis: u16, nominal: i32, min: i32, max: i32 },
    /// format 3: axis index, value, linked value
    F3 { axis: u16, value: i32, linked: i32 },
    /// format 4: (axis index, value) pairs
    F4 { values: Vec<(u16, i32)> },
}

#[derive(Clone, Debug)]
pub struct StatValueEnc {
    pub value: StatValue,
    pub flags: u16,
    pub name_id: u16,
}

/// STAT table. `minor` 0, 1 or 2; version 1.0 has no elidedFallbackNameID field.
/// `axis_size_extra` pads each design axis record (designAxisSize > 8 is legal).
pub fn stat_table(minor: u16, axes: &[([u8; 4], u16, u16)], axis_size_extra: u16, values: &[StatValueEnc], elided_fallback: u16, gap: usize) -> Vec<u8> {
    let header = if minor == 0 { 18 } else { 20 };
    let axis_size = 8 + axis_size_extra as usize;
    let axes_off = header + gap;
    let offsets_off = axes_off + axes.len() * axis_size;
    let mut b = Buf::new();
    b.u16(1).u16(minor).u16(axis_size as u16).u16(axes.len() as u16);
    b.u32(if axes.is_empty() { 0 } else { axes_off as u32 });
    b.u16(values.len() as u16);
    b.u32(if values.is_empty() { 0 } else { offsets_off as u32 });
    if minor >= 1 {
        b.u16(elided_fallback);
    }
    b.zeros(gap);
    for (tag, name, ordering) in axes {
        b.tag(tag).u16(*name).u16(*ordering);
        b.zeros(axis_size_extra as usize);
    }
    let mut tables: Vec<Vec<u8>> = Vec::new();
    for v in values {
        let mut t = Buf::new();
        match &v.value {
            StatValue::F1 { axis, value } => {
                t.u16(1).u16(*axis).u16(v.flags).u16(v.name_id).i32(*value);
            }
            StatValue::F2 { axis, nominal, min, max } => {
                t.u16(2).u16(*axis).u16(v.flags).u16(v.name_id).i32(*nominal).i32(*min).i32(*max);
            }
            StatValue::F3 { axis, value, linked } => {
                t.u16(3).u16(*axis).u16(v.flags).u16(v.name_id).i32(*value).i32(*linked);
            }
            StatValue::F4 { values } => {
                t.u16(4).u16(values.len() as u16).u16(v.flags).u16(v.name_id);
                for (a, x) in values {
                    t.u16(*a).i32(*x);
                }
            }
        }
        tables.push(t.into_vec());
    }
    // offsets count from the start of the offsets array
    let mut off = 2 * values.len();
    for t in &tables {
        b.u16(off as u16);
        off += t.len();
    }
    for t in &tables {
        b.bytes(t);
    }
    b.into_vec()
}

/// Values of the OS/2 fields MVAR can address (the rest is fixed).
#[derive(Clone, Debug)]
pub struct Os2Values {
    /// ySubscriptXSize .. yStrikeoutPosition (10 values)
    pub sub_super_strike: [i16; 10],
    pub typo: (i16, i16, i16),
    pub win: (u16, u16),
    pub x_height: i16,
    pub cap_height: i16,
}

/// OS/2 table. `kind`: 0 = version 0 in the 68 byte form of Apple's TrueType manual (ends after
/// usLastCharIndex), 1 = version 0 (78 bytes), 2 = version 1 (86), 3/4/5 = version 2/3/4 (96),
/// 6 = version 5 (100).
pub fn os2_table(kind: u8, v: &Os2Values, first_char: u16, last_char: u16) -> Vec<u8> {
    let version: u16 = match kind {
        0 | 1 => 0,
        2 => 1,
        3 => 2,
        4 => 3,
        5 => 4,
        _ => 5,
    };
    let mut b = Buf::new();
    b.u16(version).i16(500).u16(400).u16(5).u16(0);
    for x in v.sub_super_strike {
        b.i16(x);
    }
    b.i16(0);
    b.bytes(&[0u8; 10]);
    b.u32(1).u32(0).u32(0).u32(0);
    b.tag(b"VRIF");
    b.u16(0x0040);
    b.u16(first_char).u16(last_char);
    if kind == 0 {
        return b.into_vec();
    }
    b.i16(v.typo.0).i16(v.typo.1).i16(v.typo.2);
    b.u16(v.win.0).u16(v.win.1);
    if version >= 1 {
        b.u32(1).u32(0);
    }
    if version >= 2 {
        b.i16(v.x_height).i16(v.cap_height).u16(0).u16(32).u16(1);
    }
    if version >= 5 {
        b.u16(8).u16(0xFFFF);
    }
    b.into_vec()
}

/// name table (format 0). Each record: (platform, encoding, language, name id, text); Windows
/// and Unicode platform strings are written as UTF-16BE, Macintosh ones as bytes (ASCII only).
/// Records are sorted as the specification requires. `storage_gap` unused bytes precede the
/// string storage.
pub fn name_table_records(records: &[(u16, u16, u16, u16, String)], storage_gap: usize) -> Vec<u8> {
    let mut sorted: Vec<&(u16, u16, u16, u16, String)> = records.iter().collect();
    sorted.sort_by_key(|r| (r.0, r.1, r.2, r.3));
    let mut strings = Buf::new();
    let mut recs = Buf::new();
    for r in sorted {
        let enc: Vec<u8> = if r.0 == 1 { r.4.bytes().map(|c| if c < 0x80 { c } else { b'?' }).collect() } else { r.4.encode_utf16().flat_map(|u| u.to_be_bytes()).collect() };
        recs.u16(r.0).u16(r.1).u16(r.2).u16(r.3).u16(enc.len() as u16).u16(strings.len() as u16);
        strings.bytes(&enc);
    }
    let mut b = Buf::new();
    b.u16(0).u16(records.len() as u16).u16((6 + 12 * records.len() + storage_gap) as u16);
    b.bytes(&recs.0);
    b.zeros(storage_gap);
    b.bytes(&strings.0);
    b.into_vec()
}

/// gasp table: (rangeMaxPPEM, behaviour) ranges, sorted by ppem, the last one 0xFFFF.
pub fn gasp_table(version: u16, ranges: &[(u16, u16)]) -> Vec<u8> {
    let mut b = Buf::new();
    b.u16(version).u16(ranges.len() as u16);
    for (p, f) in ranges {
        b.u16(*p).u16(*f);
    }
    b.into_vec()
}

/// post table version 3 with the given underline position / thickness.
pub fn post_v3_with(underline_position: i16, underline_thickness: i16) -> Vec<u8> {
    let mut b = Buf::new();
    b.u32(0x0003_0000).u32(0).i16(underline_position).i16(underline_thickness).u32(0).u32(0).u32(0).u32(0).u32(0);
    b.into_vec()
}

/// hhea with a caret (rise, run, offset) of choice.
pub fn hhea_with(ascender: i16, descender: i16, line_gap: i16, advance_max: u16, caret: (i16, i16, i16), num_h_metrics: u16) -> Vec<u8> {
    let mut b = Buf::new();
    b.u16(1).u16(0).i16(ascender).i16(descender).i16(line_gap);
    b.u16(advance_max).i16(0).i16(0).i16(advance_max as i16);
    b.i16(caret.0).i16(caret.1).i16(caret.2);
    b.i16(0).i16(0).i16(0).i16(0);
    b.i16(0);
    b.u16(num_h_metrics);
    b.into_vec()
}

/// OR `flag` into the flags word of component `index` of a composite glyph record (a record as
/// written by `gvar::glyf_composite`: no transforms). Returns false if there is no such component.
pub fn or_component_flag(record: &mut [u8], index: usize, flag: u16) -> bool {
    if record.len() < 10 || i16::from_be_bytes([record[0], record[1]]) >= 0 {
        return false;
    }
    let mut at = 10usize;
    let mut k = 0usize;
    loop {
        if at + 4 > record.len() {
            return false;
        }
        let flags = u16::from_be_bytes([record[at], record[at + 1]]);
        if k == index {
            let f = flags | flag;
            record[at..at + 2].copy_from_slice(&f.to_be_bytes());
            return true;
        }
        let mut size = 4 + if flags & 0x0001 != 0 { 4 } else { 2 };
        if flags & 0x0008 != 0 {
            size += 2;
        } else if flags & 0x0040 != 0 {
            size += 4;
        } else if flags & 0x0080 != 0 {
            size += 8;
        }
        if flags & 0x0020 == 0 {
            return false;
        }
        at += size;
        k += 1;
    }
}
