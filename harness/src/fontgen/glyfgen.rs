//! Glyph model (simple / composite / empty) and a plain `glyf`/`loca` encoder with a few
//! encoding styles, written from the OpenType `glyf` specification. Used by C11 as the
//! *source* font of the WOFF2 encoder. Minimal on purpose.

use super::buf::Buf;

/// (x, y, on_curve), absolute coordinates
pub type Pt = (i16, i16, bool);
/// (xMin, yMin, xMax, yMax)
pub type BBox = (i16, i16, i16, i16);

pub const ARG_1_AND_2_ARE_WORDS: u16 = 0x0001;
pub const ARGS_ARE_XY_VALUES: u16 = 0x0002;
pub const ROUND_XY_TO_GRID: u16 = 0x0004;
pub const WE_HAVE_A_SCALE: u16 = 0x0008;
pub const MORE_COMPONENTS: u16 = 0x0020;
pub const WE_HAVE_AN_X_AND_Y_SCALE: u16 = 0x0040;
pub const WE_HAVE_A_TWO_BY_TWO: u16 = 0x0080;
pub const WE_HAVE_INSTRUCTIONS: u16 = 0x0100;
pub const USE_MY_METRICS: u16 = 0x0200;
pub const OVERLAP_COMPOUND: u16 = 0x0400;
pub const SCALED_COMPONENT_OFFSET: u16 = 0x0800;
pub const UNSCALED_COMPONENT_OFFSET: u16 = 0x1000;
/// the flag bits a model may choose freely (the others are derived from the structure)
pub const FREE_COMPONENT_FLAGS: u16 = ARGS_ARE_XY_VALUES
    | ROUND_XY_TO_GRID
    | WE_HAVE_INSTRUCTIONS
    | USE_MY_METRICS
    | OVERLAP_COMPOUND
    | SCALED_COMPONENT_OFFSET
    | UNSCALED_COMPONENT_OFFSET;

#[derive(Clone, Debug, PartialEq)]
pub struct Simple {
    /// every contour has at least one point; at least one contour
    pub contours: Vec<Vec<Pt>>,
    pub instructions: Vec<u8>,
    /// the bounding box stored in the glyph header (may differ from the computed one)
    pub bbox: BBox,
}

impl Simple {
    pub fn computed_bbox(&self) -> BBox {
        let mut it = self.contours.iter().flatten();
        let f = it.next().expect("simple glyph without points");
        let mut b = (f.0, f.1, f.0, f.1);
        for p in it {
            b.0 = b.0.min(p.0);
            b.1 = b.1.min(p.1);
            b.2 = b.2.max(p.0);
            b.3 = b.3.max(p.1);
        }
        b
    }
    pub fn num_points(&self) -> usize {
        self.contours.iter().map(|c| c.len()).sum()
    }
}

#[derive(Clone, Copy, Debug, PartialEq)]
pub enum Xform {
    None,
    Scale(i16),
    XY(i16, i16),
    /// xscale, scale01, scale10, yscale (file order)
    Matrix(i16, i16, i16, i16),
}

#[derive(Clone, Debug, PartialEq)]
pub struct Component {
    /// subset of FREE_COMPONENT_FLAGS
    pub misc_flags: u16,
    pub words: bool,
    pub glyph: u16,
    /// raw argument values; must fit the width/signedness implied by `words` and ARGS_ARE_XY_VALUES
    pub arg1: i32,
    pub arg2: i32,
    pub xform: Xform,
}

impl Component {
    /// the complete flags word as stored in the file
    pub fn flags(&self, more: bool) -> u16 {
        let mut f = self.misc_flags & FREE_COMPONENT_FLAGS;
        if self.words {
            f |= ARG_1_AND_2_ARE_WORDS;
        }
        f |= match self.xform {
            Xform::None => 0,
            Xform::Scale(_) => WE_HAVE_A_SCALE,
            Xform::XY(..) => WE_HAVE_AN_X_AND_Y_SCALE,
            Xform::Matrix(..) => WE_HAVE_A_TWO_BY_TWO,
        };
        if more {
            f |= MORE_COMPONENTS;
        }
        f
    }
    pub fn xy(&self) -> bool {
        self.misc_flags & ARGS_ARE_XY_VALUES != 0
    }
}

#[derive(Clone, Debug, PartialEq)]
pub struct Composite {
    /// at least one
    pub components: Vec<Component>,
    /// Some (possibly zero length) iff at least one component — any of them, not necessarily
    /// the last — carries WE_HAVE_INSTRUCTIONS; the instructions follow the last component
    pub instructions: Option<Vec<u8>>,
    pub bbox: BBox,
}

#[derive(Clone, Debug, PartialEq)]
pub enum Glyph {
    /// zero-length glyf record
    Empty,
    /// numberOfContours = 0 with a 12-byte record (header, no endPts, instructionLength 0)
    EmptyHeader,
    Simple(Simple),
    Composite(Composite),
}

impl Composite {
    pub fn any_instruction_flag(&self) -> bool {
        self.components.iter().any(|c| c.misc_flags & WE_HAVE_INSTRUCTIONS != 0)
    }
}

impl Glyph {
    /// xMin of the stored bounding box (0 for empty glyphs)
    pub fn x_min(&self) -> i16 {
        match self {
            Glyph::Empty | Glyph::EmptyHeader => 0,
            Glyph::Simple(s) => s.bbox.0,
            Glyph::Composite(c) => c.bbox.0,
        }
    }
}

/// Component records exactly as they appear both in a `glyf` composite glyph and in the WOFF2
/// composite stream (flags, glyphIndex, arguments, transformation), without the instructions.
pub fn encode_components(c: &Composite) -> Vec<u8> {
    let mut b = Buf::new();
    let last = c.components.len() - 1;
    for (i, comp) in c.components.iter().enumerate() {
        let flags = comp.flags(i != last);
        b.u16(flags).u16(comp.glyph);
        match (comp.words, comp.xy()) {
            (true, true) => {
                b.i16(comp.arg1 as i16).i16(comp.arg2 as i16);
            }
            (true, false) => {
                b.u16(comp.arg1 as u16).u16(comp.arg2 as u16);
            }
            (false, true) => {
                b.i8(comp.arg1 as i8).i8(comp.arg2 as i8);
            }
            (false, false) => {
                b.u8(comp.arg1 as u8).u8(comp.arg2 as u8);
            }
        }
        match comp.xform {
            Xform::None => {}
            Xform::Scale(s) => {
                b.i16(s);
            }
            Xform::XY(x, y) => {
                b.i16(x).i16(y);
            }
            Xform::Matrix(a, bb, cc, d) => {
                b.i16(a).i16(bb).i16(cc).i16(d);
            }
        }
    }
    b.into_vec()
}

/// style bits for `encode_simple`
pub const STYLE_SHORT: u8 = 1;
pub const STYLE_SAME: u8 = 2;
pub const STYLE_REPEAT: u8 = 4;

fn encode_simple(s: &Simple, style: u8) -> Vec<u8> {
    let mut b = Buf::new();
    b.i16(s.contours.len() as i16);
    b.i16(s.bbox.0).i16(s.bbox.1).i16(s.bbox.2).i16(s.bbox.3);
    let mut end = 0usize;
    for c in &s.contours {
        end += c.len();
        b.u16((end - 1) as u16);
    }
    b.u16(s.instructions.len() as u16).bytes(&s.instructions);
    let pts: Vec<Pt> = s.contours.iter().flatten().copied().collect();
    let mut flags: Vec<u8> = Vec::with_capacity(pts.len());
    let mut xs = Buf::new();
    let mut ys = Buf::new();
    let (mut px, mut py) = (0i32, 0i32);
    for p in &pts {
        let mut f = if p.2 { 1u8 } else { 0 };
        let dx = p.0 as i32 - px;
        let dy = p.1 as i32 - py;
        px = p.0 as i32;
        py = p.1 as i32;
        if dx == 0 && style & STYLE_SAME != 0 {
            f |= 0x10;
        } else if dx.abs() <= 255 && style & STYLE_SHORT != 0 {
            f |= 0x02;
            if dx >= 0 {
                f |= 0x10;
            }
            xs.u8(dx.unsigned_abs() as u8);
        } else {
            xs.i16(dx as i16);
        }
        if dy == 0 && style & STYLE_SAME != 0 {
            f |= 0x20;
        } else if dy.abs() <= 255 && style & STYLE_SHORT != 0 {
            f |= 0x04;
            if dy >= 0 {
                f |= 0x20;
            }
            ys.u8(dy.unsigned_abs() as u8);
        } else {
            ys.i16(dy as i16);
        }
        flags.push(f);
    }
    if style & STYLE_REPEAT != 0 {
        let mut i = 0;
        while i < flags.len() {
            let mut run = 1;
            while i + run < flags.len() && flags[i + run] == flags[i] && run < 256 {
                run += 1;
            }
            if run > 1 {
                b.u8(flags[i] | 0x08).u8((run - 1) as u8);
            } else {
                b.u8(flags[i]);
            }
            i += run;
        }
    } else {
        b.bytes(&flags);
    }
    b.bytes(&xs.0).bytes(&ys.0);
    b.into_vec()
}

fn encode_composite(c: &Composite) -> Vec<u8> {
    let mut b = Buf::new();
    b.i16(-1);
    b.i16(c.bbox.0).i16(c.bbox.1).i16(c.bbox.2).i16(c.bbox.3);
    b.bytes(&encode_components(c));
    assert!(c.instructions.is_some() == c.any_instruction_flag(), "composite model: instructions vs WE_HAVE_INSTRUCTIONS flags");
    if let Some(ins) = &c.instructions {
        b.u16(ins.len() as u16).bytes(ins);
    }
    b.into_vec()
}

/// One glyf record (unpadded).
pub fn encode_glyph(g: &Glyph, style: u8) -> Vec<u8> {
    match g {
        Glyph::Empty => Vec::new(),
        Glyph::EmptyHeader => {
            let mut b = Buf::new();
            b.i16(0).i16(0).i16(0).i16(0).i16(0).u16(0);
            b.into_vec()
        }
        Glyph::Simple(s) => encode_simple(s, style),
        Glyph::Composite(c) => encode_composite(c),
    }
}

/// glyf + loca. `align` is the padding unit of each record (1, 2 or 4; forced even for the
/// short format). Returns (glyf, loca).
pub fn encode_glyf_loca(glyphs: &[Glyph], styles: &[u8], long: bool, align: usize) -> (Vec<u8>, Vec<u8>) {
    let align = if long { align.max(1) } else { align.max(2) & !1 };
    let mut glyf = Buf::new();
    let mut loca = Buf::new();
    for (i, g) in glyphs.iter().enumerate() {
        if long {
            loca.u32(glyf.len() as u32);
        } else {
            loca.u16((glyf.len() / 2) as u16);
        }
        let style = styles.get(i).copied().unwrap_or(0);
        glyf.bytes(&encode_glyph(g, style));
        glyf.pad_to(align);
    }
    if long {
        loca.u32(glyf.len() as u32);
    } else {
        loca.u16((glyf.len() / 2) as u16);
    }
    (glyf.into_vec(), loca.into_vec())
}
