//! Re-encode a `ttgen::cffgen::CffModel` (glyph programs, subroutines, widths: unchanged) with
//! the byte-level CFF encoder `fontgen::cffgen` so that the *container* side of the table varies:
//! charset formats 0 / 1 / 2 with non-contiguous SIDs / CIDs (custom strings past the standard
//! ones), predefined or custom Encodings (formats 0 and 1) in name-keyed fonts, FDSelect formats
//! 0 / 3, minimal or 4-byte INDEX offsets, fixed-size or shortest-form DICT offsets.
//! Written for the subsetting checks (C07; usable by C08). Nothing here calls allsorts.

use super::cffgen as cg;
use super::ttgen::cffgen as tg;
use proptest::prelude::*;

#[derive(Clone, Debug)]
pub struct CffXLayout {
    /// 0, 1, 2
    pub charset_fmt: u8,
    /// 0: ids 1..n (contiguous); else seed of the gaps between consecutive SIDs/CIDs
    pub gaps: u32,
    /// name-keyed: 0 no operator (Standard), 1 explicit Standard, 2 Expert, 3 custom format 0, 4 custom format 1
    pub encoding: u8,
    pub short_offsets: bool,
    pub wide_index: bool,
}

pub fn layout_strategy() -> impl Strategy<Value = CffXLayout> {
    (0u8..3, prop_oneof![1 => Just(0u32), 3 => any::<u32>()], 0u8..5, any::<bool>(), prop::bool::weighted(0.25))
        .prop_map(|(charset_fmt, gaps, encoding, short_offsets, wide_index)| CffXLayout { charset_fmt, gaps, encoding, short_offsets, wide_index })
}

fn subr(global: bool, k: usize, n_gsubrs: usize) -> Vec<u8> {
    tg::subr_bytes(global, k, n_gsubrs)
}

fn ranges(ids: &[u16], max_left: u32) -> Vec<(u16, u32)> {
    let mut r: Vec<(u16, u32)> = Vec::new();
    for id in ids {
        if let Some(last) = r.last_mut() {
            if last.0 as u32 + last.1 + 1 == *id as u32 && last.1 < max_left {
                last.1 += 1;
                continue;
            }
        }
        r.push((*id, 0));
    }
    r
}

/// The `CFF ` table and classification labels.
pub fn recode(m: &tg::CffModel, l: &CffXLayout) -> (Vec<u8>, Vec<&'static str>) {
    let n = m.glyphs.len();
    let mut classes = Vec::new();
    // seac resolves StandardEncoding codes to SIDs and SIDs to glyphs: keep "glyph k has SID k" then
    let has_seac = m.glyphs.iter().any(|g| g.seac.is_some());
    let mut ids: Vec<u16> = Vec::with_capacity(n.saturating_sub(1));
    let mut cur = 0u32;
    let mut x = l.gaps | 1;
    for _ in 1..n {
        x = x.wrapping_mul(1_664_525).wrapping_add(1_013_904_223);
        let gap = if has_seac || l.gaps == 0 {
            0
        } else {
            match (x >> 24) % 8 {
                0 => 1 + (x >> 16) % 5,
                1 => 37,
                _ => 0,
            }
        };
        cur += 1 + gap;
        ids.push(cur as u16);
    }
    let max_id = ids.last().copied().unwrap_or(0) as usize;
    classes.push(if ids.iter().enumerate().all(|(k, id)| *id as usize == k + 1) { "cffx:charset-ids-contiguous" } else { "cffx:charset-ids-with-gaps" });
    let charset = match l.charset_fmt {
        0 => cg::CharsetM::F0(ids.clone()),
        1 => cg::CharsetM::F1(ranges(&ids, 255).into_iter().map(|(f, c)| (f, c as u8)).collect()),
        _ => cg::CharsetM::F2(ranges(&ids, 65535).into_iter().map(|(f, c)| (f, c as u16)).collect()),
    };
    classes.push(["cffx:charset-format0", "cffx:charset-format1", "cffx:charset-format2"][l.charset_fmt.min(2) as usize]);
    let gsubrs: Vec<Vec<u8>> = (0..m.n_gsubrs).map(|k| subr(true, k, m.n_gsubrs)).collect();
    let private = |fd: &tg::Fd| cg::PrivM {
        dict: vec![(20, vec![cg::Num::Int(fd.default_width as i32)]), (21, vec![cg::Num::Int(fd.nominal_width as i32)])],
        subrs: if fd.n_lsubrs > 0 { Some((0..fd.n_lsubrs).map(|k| subr(false, k, m.n_gsubrs)).collect()) } else { None },
    };
    let (strings, top, kind) = if m.cid {
        let fds_of: Vec<u8> = m.glyphs.iter().map(|g| g.fd).collect();
        let fdselect = if m.fdselect3 {
            let mut r: Vec<(u16, u8)> = Vec::new();
            for (g, f) in fds_of.iter().enumerate() {
                if r.last().map(|x| x.1) != Some(*f) {
                    r.push((g as u16, *f));
                }
            }
            classes.push("cffx:fdselect-format3");
            cg::FdSelectM::F3(r, n as u16)
        } else {
            classes.push("cffx:fdselect-format0");
            cg::FdSelectM::F0(fds_of)
        };
        (
            vec![b"Adobe".to_vec(), b"Identity".to_vec()],
            vec![(0x0C00 | 34, vec![cg::Num::Int(max_id as i32 + 1)])],
            cg::KindM::Cid { ros: (391, 392, 0), fds: m.fds.iter().map(|fd| (Vec::new(), private(fd))).collect(), fdselect },
        )
    } else {
        let ncodes = n.saturating_sub(1);
        let encoding = match l.encoding {
            0 => cg::EncodingM::Predefined(0, false),
            1 => cg::EncodingM::Predefined(0, true),
            2 => cg::EncodingM::Predefined(1, true),
            3 => {
                classes.push("cffx:custom-encoding-format0");
                cg::EncodingM::F0((0..ncodes.min(200)).map(|k| (33 + k) as u8).collect())
            }
            _ => {
                classes.push("cffx:custom-encoding-format1");
                let c = ncodes.min(100);
                let c1 = c / 2;
                let mut r = Vec::new();
                if c1 > 0 {
                    r.push((40u8, (c1 - 1) as u8));
                }
                if c - c1 > 0 {
                    r.push((150u8, (c - c1 - 1) as u8));
                }
                cg::EncodingM::F1(r)
            }
        };
        // SIDs past the 391 standard strings need entries in the String INDEX
        let strings: Vec<Vec<u8>> = (391..=max_id).map(|s| format!("g{}", s).into_bytes()).collect();
        (strings, Vec::new(), cg::KindM::Type1 { encoding, private: private(&m.fds[0]) })
    };
    let model = cg::CffM {
        minor: 0,
        hdr_extra: 0,
        hdr_off_size: 4,
        name: b"VerifCFFX".to_vec(),
        strings,
        gsubrs,
        top,
        charstrings: m.glyphs.iter().map(|g| m.charstring(g)).collect(),
        charset,
        kind,
        index_off_size: if l.wide_index { 4 } else { 0 },
        short_offsets: l.short_offsets,
    };
    classes.push(if l.short_offsets { "cffx:dict-offsets-shortest-form" } else { "cffx:dict-offsets-5-byte" });
    (cg::enc_cff(&model), classes)
}
