//! CFF (`CFF `) and CFF2 table builder, written from Adobe Technical Note #5176 ("The Compact
//! Font Format Specification") and the OpenType CFF2 chapter. Nothing here calls allsorts.
//!
//! Public API:
//! * [`index`] — an INDEX (16-bit count for CFF, 32-bit for CFF2) with a chosen minimal offSize;
//! * [`DictBuf`] — DICT data (all integer forms, reals, one/two byte operators);
//! * [`CffModel`] + [`build_cff`] — header, Name INDEX, Top DICT INDEX, String INDEX, Global
//!   Subr INDEX, CharStrings, charset (predefined or format 0/1/2), and either a name-keyed
//!   Private DICT (+ local Subrs) or a CID-keyed FDArray / FDSelect (format 0 or 3) with one
//!   Private DICT (+ local Subrs) per Font DICT;
//! * [`Cff2Model`] + [`build_cff2`] — CFF2 header, Top DICT, Global Subr INDEX, CharStrings,
//!   FDArray, optional FDSelect, optional VariationStore ([`VarStoreModel`]), Private DICTs
//!   with `vsindex` and local Subrs;
//! * [`build_otf`] — wraps a CFF/CFF2 table in a minimal complete `OTTO` sfnt.
//!
//! The trailing blocks (charset, FDSelect, CharStrings, FDArray, Private DICTs, VariationStore)
//! can be laid out in different orders (`block_order`); all offsets in DICTs use the 5-byte
//! integer form so that the layout can be computed in one pass.

use super::basic;
use super::buf::Buf;
use super::sfnt::{build_sfnt, Tag, OTTO};

// ------------------------------------------------------------------------------------------
// INDEX and DICT

fn off_size_for(last: usize, min: u8) -> u8 {
    let need = if last <= 0xff {
        1
    } else if last <= 0xffff {
        2
    } else if last <= 0xff_ffff {
        3
    } else {
        4
    };
    need.max(min.clamp(1, 4))
}

/// An INDEX structure. `count32`: CFF2 (32-bit count). An empty INDEX is just the count.
pub fn index(items: &[Vec<u8>], count32: bool, min_off_size: u8) -> Vec<u8> {
    let mut b = Buf::new();
    if count32 {
        b.u32(items.len() as u32);
    } else {
        b.u16(items.len() as u16);
    }
    if items.is_empty() {
        return b.into_vec();
    }
    let total: usize = items.iter().map(|i| i.len()).sum();
    let os = off_size_for(total + 1, min_off_size);
    b.u8(os);
    let mut off = 1usize;
    let put = |b: &mut Buf, v: usize| match os {
        1 => {
            b.u8(v as u8);
        }
        2 => {
            b.u16(v as u16);
        }
        3 => {
            b.u24(v as u32);
        }
        _ => {
            b.u32(v as u32);
        }
    };
    put(&mut b, off);
    for it in items {
        off += it.len();
        put(&mut b, off);
    }
    for it in items {
        b.bytes(it);
    }
    b.into_vec()
}

/// DICT data writer.
#[derive(Clone, Debug, Default)]
pub struct DictBuf(pub Vec<u8>);

impl DictBuf {
    pub fn new() -> DictBuf {
        DictBuf(Vec::new())
    }
    /// shortest integer form
    pub fn int(&mut self, v: i32) -> &mut Self {
        match v {
            -107..=107 => self.0.push((v + 139) as u8),
            108..=1131 => {
                let w = v - 108;
                self.0.push(247 + (w >> 8) as u8);
                self.0.push((w & 255) as u8);
            }
            -1131..=-108 => {
                let w = -v - 108;
                self.0.push(251 + (w >> 8) as u8);
                self.0.push((w & 255) as u8);
            }
            -32768..=32767 => {
                self.0.push(28);
                self.0.extend_from_slice(&(v as i16).to_be_bytes());
            }
            _ => {
                self.0.push(29);
                self.0.extend_from_slice(&v.to_be_bytes());
            }
        }
        self
    }
    /// 5-byte form (29 + int32): fixed size, used for all offsets
    pub fn int5(&mut self, v: i32) -> &mut Self {
        self.0.push(29);
        self.0.extend_from_slice(&v.to_be_bytes());
        self
    }
    /// real number from its decimal text ("0.001", "-2.5E-3")
    pub fn real(&mut self, text: &str) -> &mut Self {
        let mut nib: Vec<u8> = Vec::new();
        let cs: Vec<char> = text.chars().collect();
        let mut i = 0;
        while i < cs.len() {
            match cs[i] {
                '0'..='9' => nib.push(cs[i] as u8 - b'0'),
                '.' => nib.push(0xa),
                'E' | 'e' => {
                    if cs.get(i + 1) == Some(&'-') {
                        nib.push(0xc);
                        i += 1;
                    } else {
                        nib.push(0xb);
                    }
                }
                '-' => nib.push(0xe),
                _ => {}
            }
            i += 1;
        }
        nib.push(0xf);
        if nib.len() % 2 == 1 {
            nib.push(0xf);
        }
        self.0.push(30);
        for p in nib.chunks(2) {
            self.0.push(p[0] << 4 | p[1]);
        }
        self
    }
    /// operator; two-byte operators are 0x0c00 | b1
    pub fn op(&mut self, o: u16) -> &mut Self {
        if o >= 0x0c00 {
            self.0.push(12);
            self.0.push((o & 0xff) as u8);
        } else {
            self.0.push(o as u8);
        }
        self
    }
    pub fn raw(&mut self, b: &[u8]) -> &mut Self {
        self.0.extend_from_slice(b);
        self
    }
    pub fn len(&self) -> usize {
        self.0.len()
    }
    pub fn is_empty(&self) -> bool {
        self.0.is_empty()
    }
}

pub mod dictop {
    pub const VERSION: u16 = 0;
    pub const NOTICE: u16 = 1;
    pub const FULL_NAME: u16 = 2;
    pub const FAMILY_NAME: u16 = 3;
    pub const WEIGHT: u16 = 4;
    pub const FONT_BBOX: u16 = 5;
    pub const BLUE_VALUES: u16 = 6;
    pub const STD_HW: u16 = 10;
    pub const STD_VW: u16 = 11;
    pub const CHARSET: u16 = 15;
    pub const ENCODING: u16 = 16;
    pub const CHARSTRINGS: u16 = 17;
    pub const PRIVATE: u16 = 18;
    pub const SUBRS: u16 = 19;
    pub const DEFAULT_WIDTH_X: u16 = 20;
    pub const NOMINAL_WIDTH_X: u16 = 21;
    pub const VSINDEX: u16 = 22;
    pub const VSTORE: u16 = 24;
    pub const FONT_MATRIX: u16 = 0x0c07;
    pub const BLUE_SCALE: u16 = 0x0c09;
    pub const ROS: u16 = 0x0c1e;
    pub const CID_COUNT: u16 = 0x0c22;
    pub const FD_ARRAY: u16 = 0x0c24;
    pub const FD_SELECT: u16 = 0x0c25;
    pub const FONT_NAME: u16 = 0x0c26;
}

// ------------------------------------------------------------------------------------------
// models

/// A Private DICT and its local subroutines.
#[derive(Clone, Debug, Default)]
pub struct PrivateModel {
    pub default_width_x: Option<i32>,
    pub nominal_width_x: Option<i32>,
    /// BlueValues / StdHW / BlueScale entries (filler that changes the DICT size)
    pub with_hint_entries: bool,
    /// local subroutines; `None`: no Subrs operator at all
    pub subrs: Option<Vec<Vec<u8>>>,
    /// unused bytes between the end of the Private DICT and its local Subr INDEX
    pub subrs_gap: usize,
    /// CFF2 only: `vsindex` entry
    pub vsindex: Option<u16>,
}

impl PrivateModel {
    /// (dict bytes, following bytes = gap + Subrs INDEX)
    fn build(&self, cff2: bool, min_off_size: u8) -> (Vec<u8>, Vec<u8>) {
        let mut d = DictBuf::new();
        if self.with_hint_entries {
            d.int(-15).int(15).int(450).int(12).op(dictop::BLUE_VALUES);
            d.real("0.0375").op(dictop::BLUE_SCALE);
            d.int(80).op(dictop::STD_HW);
        }
        if let Some(v) = self.vsindex {
            if cff2 {
                d.int(v as i32).op(dictop::VSINDEX);
            }
        }
        if !cff2 {
            if let Some(v) = self.default_width_x {
                d.int(v).op(dictop::DEFAULT_WIDTH_X);
            }
            if let Some(v) = self.nominal_width_x {
                d.int(v).op(dictop::NOMINAL_WIDTH_X);
            }
        }
        let mut tail = Vec::new();
        if let Some(s) = &self.subrs {
            // the Subrs offset is relative to the start of the Private DICT
            let off = d.len() + 6 + self.subrs_gap;
            d.int5(off as i32).op(dictop::SUBRS);
            tail.resize(self.subrs_gap, 0xAA);
            tail.extend(index(s, cff2, min_off_size));
        }
        (d.0, tail)
    }
}

/// charset of a CFF font: predefined, or the SIDs (name-keyed) / CIDs (CID-keyed) of glyphs
/// 1..n in one of the three formats (formats 1 and 2 are compressed into ranges).
#[derive(Clone, Debug)]
pub enum CharsetModel {
    IsoAdobe,
    Expert,
    ExpertSubset,
    Format0(Vec<u16>),
    Format1(Vec<u16>),
    Format2(Vec<u16>),
}

fn charset_bytes(c: &CharsetModel) -> Option<Vec<u8>> {
    let ranges = |ids: &[u16], max_left: usize| -> Vec<(u16, usize)> {
        let mut r: Vec<(u16, usize)> = Vec::new();
        for id in ids {
            if let Some(last) = r.last_mut() {
                if last.0 as usize + last.1 + 1 == *id as usize && last.1 < max_left {
                    last.1 += 1;
                    continue;
                }
            }
            r.push((*id, 0));
        }
        r
    };
    let mut b = Buf::new();
    match c {
        CharsetModel::IsoAdobe | CharsetModel::Expert | CharsetModel::ExpertSubset => return None,
        CharsetModel::Format0(ids) => {
            b.u8(0);
            for i in ids {
                b.u16(*i);
            }
        }
        CharsetModel::Format1(ids) => {
            b.u8(1);
            for (f, n) in ranges(ids, 255) {
                b.u16(f).u8(n as u8);
            }
        }
        CharsetModel::Format2(ids) => {
            b.u8(2);
            for (f, n) in ranges(ids, 65535) {
                b.u16(f).u16(n as u16);
            }
        }
    }
    Some(b.into_vec())
}

/// FDSelect format 0 or 3 for the per-glyph font dict indices.
pub fn fd_select_bytes(format: u8, fds: &[u8]) -> Vec<u8> {
    let mut b = Buf::new();
    if format == 0 {
        b.u8(0);
        for f in fds {
            b.u8(*f);
        }
    } else {
        b.u8(3);
        let mut ranges: Vec<(u16, u8)> = Vec::new();
        for (g, f) in fds.iter().enumerate() {
            if ranges.last().map(|r| r.1) != Some(*f) {
                ranges.push((g as u16, *f));
            }
        }
        b.u16(ranges.len() as u16);
        for (g, f) in ranges {
            b.u16(g).u8(f);
        }
        b.u16(fds.len() as u16);
    }
    b.into_vec()
}

#[derive(Clone, Debug)]
pub enum CffKind {
    NameKeyed { private: PrivateModel },
    /// CID-keyed: one Private DICT per Font DICT; `fd_select[glyph]` = font dict index
    Cid { fds: Vec<PrivateModel>, fd_select: Vec<u8>, fd_select_format: u8 },
}

#[derive(Clone, Debug)]
pub struct CffModel {
    pub name: Vec<u8>,
    /// String INDEX entries (SID 391 + i). For CID fonts "Adobe" and "Identity" are appended
    /// automatically and used for ROS.
    pub strings: Vec<Vec<u8>>,
    pub global_subrs: Vec<Vec<u8>>,
    pub charstrings: Vec<Vec<u8>>,
    pub charset: CharsetModel,
    pub kind: CffKind,
    /// extra (unknown) header bytes: hdrSize = 4 + header_extra
    pub header_extra: u8,
    /// minimal offSize used in every INDEX (1..=4)
    pub min_off_size: u8,
    /// order of the trailing blocks (any value)
    pub block_order: u8,
    pub font_bbox: Option<[i32; 4]>,
}

impl CffModel {
    /// name-keyed font with an empty Private DICT, ISOAdobe charset
    pub fn simple(charstrings: Vec<Vec<u8>>) -> CffModel {
        CffModel {
            name: b"VerifCFF".to_vec(),
            strings: Vec::new(),
            global_subrs: Vec::new(),
            charstrings,
            charset: CharsetModel::IsoAdobe,
            kind: CffKind::NameKeyed { private: PrivateModel::default() },
            header_extra: 0,
            min_off_size: 1,
            block_order: 0,
            font_bbox: None,
        }
    }
}

#[derive(Clone, Copy, Debug, PartialEq, Eq, PartialOrd, Ord)]
enum Block {
    Charset,
    FdSelect,
    CharStrings,
    FdArray,
    VarStore,
    Private(usize),
}

/// Deterministic permutation of the blocks chosen by `order`. A Font DICT INDEX needs the
/// offsets of the Private DICTs and the Top DICT needs all offsets, which is no constraint on
/// the physical order.
fn permute(mut blocks: Vec<Block>, order: u8) -> Vec<Block> {
    let n = blocks.len();
    let mut k = order as usize;
    let mut out = Vec::new();
    for i in (1..=n).rev() {
        let j = k % i;
        k /= i.max(1);
        out.push(blocks.remove(j));
    }
    out
}

/// Build a `CFF ` table.
pub fn build_cff(m: &CffModel) -> Vec<u8> {
    let os = m.min_off_size.clamp(1, 4);
    let cid = matches!(m.kind, CffKind::Cid { .. });
    let mut strings = m.strings.clone();
    let ros_sids = if cid {
        strings.push(b"Adobe".to_vec());
        strings.push(b"Identity".to_vec());
        Some((391 + strings.len() as i32 - 2, 391 + strings.len() as i32 - 1))
    } else {
        None
    };

    // ---- blocks
    let charset = charset_bytes(&m.charset);
    let privates: Vec<&PrivateModel> = match &m.kind {
        CffKind::NameKeyed { private } => vec![private],
        CffKind::Cid { fds, .. } => fds.iter().collect(),
    };
    let built_priv: Vec<(Vec<u8>, Vec<u8>)> = privates.iter().map(|p| p.build(false, os)).collect();
    let charstrings = index(&m.charstrings, false, os);
    let fd_select = match &m.kind {
        CffKind::Cid { fd_select, fd_select_format, .. } => Some(fd_select_bytes(*fd_select_format, fd_select)),
        _ => None,
    };
    // Font DICT INDEX has a fixed size: each Font DICT is `size5 offset5 Private`
    let font_dict = |size: usize, off: usize| -> Vec<u8> {
        let mut d = DictBuf::new();
        d.int5(size as i32).int5(off as i32).op(dictop::PRIVATE);
        d.0
    };
    let fd_array_len = if cid {
        index(&privates.iter().map(|_| font_dict(0, 0)).collect::<Vec<_>>(), false, os).len()
    } else {
        0
    };

    let mut order = vec![Block::CharStrings];
    if charset.is_some() {
        order.push(Block::Charset);
    }
    if cid {
        order.push(Block::FdSelect);
        order.push(Block::FdArray);
    }
    for i in 0..privates.len() {
        order.push(Block::Private(i));
    }
    let order = permute(order, m.block_order);

    // ---- Top DICT (fixed size: all offsets in 5-byte form)
    let top = |off: &dyn Fn(Block) -> usize| -> Vec<u8> {
        let mut d = DictBuf::new();
        if let Some((r, o)) = ros_sids {
            d.int(r).int(o).int(0).op(dictop::ROS);
        }
        if let Some(bb) = m.font_bbox {
            d.int5(bb[0]).int5(bb[1]).int5(bb[2]).int5(bb[3]).op(dictop::FONT_BBOX);
        }
        match &m.charset {
            CharsetModel::IsoAdobe => {}
            CharsetModel::Expert => {
                d.int5(1).op(dictop::CHARSET);
            }
            CharsetModel::ExpertSubset => {
                d.int5(2).op(dictop::CHARSET);
            }
            _ => {
                d.int5(off(Block::Charset) as i32).op(dictop::CHARSET);
            }
        }
        d.int5(off(Block::CharStrings) as i32).op(dictop::CHARSTRINGS);
        if cid {
            d.int5(m.charstrings.len() as i32).op(dictop::CID_COUNT);
            d.int5(off(Block::FdArray) as i32).op(dictop::FD_ARRAY);
            d.int5(off(Block::FdSelect) as i32).op(dictop::FD_SELECT);
        } else {
            d.int5(built_priv[0].0.len() as i32).int5(off(Block::Private(0)) as i32).op(dictop::PRIVATE);
        }
        d.0
    };
    let top_len = top(&|_| 0).len();

    let mut b = Buf::new();
    b.u8(1).u8(0).u8(4 + m.header_extra).u8(4);
    for i in 0..m.header_extra {
        b.u8(0xE0 | (i & 0xf));
    }
    b.bytes(&index(&[m.name.clone()], false, os));
    let top_index_at = b.len();
    let top_index_len = index(&[vec![0; top_len]], false, os).len();
    b.zeros(top_index_len);
    b.bytes(&index(&strings, false, os));
    b.bytes(&index(&m.global_subrs, false, os));

    // ---- layout
    let size_of = |blk: Block| -> usize {
        match blk {
            Block::Charset => charset.as_ref().map(|c| c.len()).unwrap_or(0),
            Block::FdSelect => fd_select.as_ref().map(|c| c.len()).unwrap_or(0),
            Block::CharStrings => charstrings.len(),
            Block::FdArray => fd_array_len,
            Block::VarStore => 0,
            Block::Private(i) => built_priv[i].0.len() + built_priv[i].1.len(),
        }
    };
    let mut offsets: Vec<(Block, usize)> = Vec::new();
    let mut at = b.len();
    for blk in &order {
        offsets.push((*blk, at));
        at += size_of(*blk);
    }
    let off = |blk: Block| offsets.iter().find(|o| o.0 == blk).map(|o| o.1).unwrap_or(0);
    for blk in &order {
        debug_assert_eq!(b.len(), off(*blk));
        match blk {
            Block::Charset => {
                b.bytes(charset.as_ref().unwrap());
            }
            Block::FdSelect => {
                b.bytes(fd_select.as_ref().unwrap());
            }
            Block::CharStrings => {
                b.bytes(&charstrings);
            }
            Block::FdArray => {
                let dicts: Vec<Vec<u8>> =
                    (0..privates.len()).map(|i| font_dict(built_priv[i].0.len(), off(Block::Private(i)))).collect();
                b.bytes(&index(&dicts, false, os));
            }
            Block::VarStore => {}
            Block::Private(i) => {
                b.bytes(&built_priv[*i].0).bytes(&built_priv[*i].1);
            }
        }
    }
    let mut out = b.into_vec();
    let top_index = index(&[top(&off)], false, os);
    debug_assert_eq!(top_index.len(), top_index_len);
    out[top_index_at..top_index_at + top_index_len].copy_from_slice(&top_index);
    out
}

// ------------------------------------------------------------------------------------------
// CFF2

/// ItemVariationStore of a CFF2 table: regions (per axis start/peak/end as raw F2Dot14) and,
/// per ItemVariationData subtable, the region indexes it refers to (itemCount is 0 in CFF2).
#[derive(Clone, Debug, Default)]
pub struct VarStoreModel {
    pub axis_count: u16,
    pub regions: Vec<Vec<[i16; 3]>>,
    pub data: Vec<Vec<u16>>,
}

impl VarStoreModel {
    /// The bare ItemVariationStore (format 1).
    pub fn item_variation_store(&self) -> Vec<u8> {
        let mut b = Buf::new();
        let header = 2 + 4 + 2 + 4 * self.data.len();
        b.u16(1).u32(header as u32).u16(self.data.len() as u16);
        let region_list_len = 4 + self.regions.len() * self.axis_count as usize * 6;
        let mut at = header + region_list_len;
        for d in &self.data {
            b.u32(at as u32);
            at += 6 + 2 * d.len();
        }
        b.u16(self.axis_count).u16(self.regions.len() as u16);
        for r in &self.regions {
            for a in 0..self.axis_count as usize {
                let t = r.get(a).copied().unwrap_or([0, 0, 0]);
                b.i16(t[0]).i16(t[1]).i16(t[2]);
            }
        }
        for d in &self.data {
            b.u16(0).u16(0).u16(d.len() as u16);
            for r in d {
                b.u16(*r);
            }
        }
        b.into_vec()
    }
    /// CFF2 VariationStore data: uint16 length + ItemVariationStore
    pub fn cff2_bytes(&self) -> Vec<u8> {
        let ivs = self.item_variation_store();
        let mut b = Buf::new();
        b.u16(ivs.len() as u16).bytes(&ivs);
        b.into_vec()
    }
}

#[derive(Clone, Debug)]
pub struct Cff2Model {
    pub global_subrs: Vec<Vec<u8>>,
    pub charstrings: Vec<Vec<u8>>,
    /// one Private DICT (+ local subrs, vsindex) per Font DICT
    pub fds: Vec<PrivateModel>,
    /// (format 0|3, font dict index per glyph); required by readers when there are >= 2 FDs
    pub fd_select: Option<(u8, Vec<u8>)>,
    pub vstore: Option<VarStoreModel>,
    /// headerSize = 5 + header_extra
    pub header_extra: u8,
    pub min_off_size: u8,
    pub block_order: u8,
    pub font_matrix: bool,
}

impl Cff2Model {
    pub fn simple(charstrings: Vec<Vec<u8>>) -> Cff2Model {
        Cff2Model {
            global_subrs: Vec::new(),
            charstrings,
            fds: vec![PrivateModel::default()],
            fd_select: None,
            vstore: None,
            header_extra: 0,
            min_off_size: 1,
            block_order: 0,
            font_matrix: false,
        }
    }
}

/// Build a `CFF2` table.
pub fn build_cff2(m: &Cff2Model) -> Vec<u8> {
    let os = m.min_off_size.clamp(1, 4);
    let built_priv: Vec<(Vec<u8>, Vec<u8>)> = m.fds.iter().map(|p| p.build(true, os)).collect();
    let charstrings = index(&m.charstrings, true, os);
    let fd_select = m.fd_select.as_ref().map(|(f, v)| fd_select_bytes(*f, v));
    let vstore = m.vstore.as_ref().map(|v| v.cff2_bytes());
    let font_dict = |size: usize, off: usize| -> Vec<u8> {
        let mut d = DictBuf::new();
        d.int5(size as i32).int5(off as i32).op(dictop::PRIVATE);
        d.0
    };
    let fd_array_len = index(&m.fds.iter().map(|_| font_dict(0, 0)).collect::<Vec<_>>(), true, os).len();

    let mut order = vec![Block::CharStrings, Block::FdArray];
    if fd_select.is_some() {
        order.push(Block::FdSelect);
    }
    if vstore.is_some() {
        order.push(Block::VarStore);
    }
    for i in 0..m.fds.len() {
        order.push(Block::Private(i));
    }
    let order = permute(order, m.block_order);

    let top = |off: &dyn Fn(Block) -> usize| -> Vec<u8> {
        let mut d = DictBuf::new();
        if m.font_matrix {
            d.real("0.001").int(0).int(0).real("0.001").int(0).int(0).op(dictop::FONT_MATRIX);
        }
        d.int5(off(Block::CharStrings) as i32).op(dictop::CHARSTRINGS);
        d.int5(off(Block::FdArray) as i32).op(dictop::FD_ARRAY);
        if fd_select.is_some() {
            d.int5(off(Block::FdSelect) as i32).op(dictop::FD_SELECT);
        }
        if vstore.is_some() {
            d.int5(off(Block::VarStore) as i32).op(dictop::VSTORE);
        }
        d.0
    };
    let top_len = top(&|_| 0).len();
    let mut b = Buf::new();
    b.u8(2).u8(0).u8(5 + m.header_extra).u16(top_len as u16);
    for i in 0..m.header_extra {
        b.u8(0xD0 | (i & 0xf));
    }
    let top_at = b.len();
    b.zeros(top_len);
    b.bytes(&index(&m.global_subrs, true, os));

    let size_of = |blk: Block| -> usize {
        match blk {
            Block::Charset => 0,
            Block::FdSelect => fd_select.as_ref().map(|c| c.len()).unwrap_or(0),
            Block::CharStrings => charstrings.len(),
            Block::FdArray => fd_array_len,
            Block::VarStore => vstore.as_ref().map(|c| c.len()).unwrap_or(0),
            Block::Private(i) => built_priv[i].0.len() + built_priv[i].1.len(),
        }
    };
    let mut offsets: Vec<(Block, usize)> = Vec::new();
    let mut at = b.len();
    for blk in &order {
        offsets.push((*blk, at));
        at += size_of(*blk);
    }
    let off = |blk: Block| offsets.iter().find(|o| o.0 == blk).map(|o| o.1).unwrap_or(0);
    for blk in &order {
        debug_assert_eq!(b.len(), off(*blk));
        match blk {
            Block::Charset => {}
            Block::FdSelect => {
                b.bytes(fd_select.as_ref().unwrap());
            }
            Block::CharStrings => {
                b.bytes(&charstrings);
            }
            Block::FdArray => {
                let dicts: Vec<Vec<u8>> =
                    (0..m.fds.len()).map(|i| font_dict(built_priv[i].0.len(), off(Block::Private(i)))).collect();
                b.bytes(&index(&dicts, true, os));
            }
            Block::VarStore => {
                b.bytes(vstore.as_ref().unwrap());
            }
            Block::Private(i) => {
                b.bytes(&built_priv[*i].0).bytes(&built_priv[*i].1);
            }
        }
    }
    let mut out = b.into_vec();
    let t = top(&off);
    out[top_at..top_at + top_len].copy_from_slice(&t);
    out
}

// ------------------------------------------------------------------------------------------
// OTTO wrapper

/// A minimal complete OpenType font (`OTTO`) around a `CFF ` or `CFF2` table: head, hhea,
/// maxp 0.5, hmtx (advance 500+i), cmap (U+0041.. -> glyphs 1..), name, OS/2, post, plus
/// `extra` tables (e.g. fvar). Glyph 0 is .notdef.
pub fn build_otf(cff_table: Vec<u8>, cff2: bool, num_glyphs: u16, extra: &[(Tag, Vec<u8>)]) -> Vec<u8> {
    let n = num_glyphs.max(1);
    let metrics: Vec<(u16, i16)> = (0..n).map(|i| (500 + (i % 100), 0)).collect();
    let mut map = std::collections::BTreeMap::new();
    for g in 1..n.min(200) {
        map.insert(0x40 + g, g);
    }
    let mut tables: Vec<(Tag, Vec<u8>)> = vec![
        (*b"head", basic::head(1000, false, (0, -200, 1000, 800))),
        (*b"hhea", basic::hhea(800, -200, 600, n)),
        (*b"maxp", basic::maxp_v05(n)),
        (*b"hmtx", basic::hmtx(&metrics, n)),
        (*b"cmap", basic::cmap_table(&[(3, 1, basic::cmap_format4(&map))])),
        (*b"name", basic::name_minimal()),
        (*b"OS/2", basic::os2_v4(0x41, 0x41 + n.min(200), 400)),
        (*b"post", basic::post_v3()),
        (if cff2 { *b"CFF2" } else { *b"CFF " }, cff_table),
    ];
    for (t, d) in extra {
        if let Some(e) = tables.iter_mut().find(|e| &e.0 == t) {
            e.1 = d.clone();
        } else {
            tables.push((*t, d.clone()));
        }
    }
    build_sfnt(OTTO, &tables)
}
