//! CFF (`CFF `) and CFF2 table builder, written from Adobe Technical Note #5176 ("The Compact
//! Font Format Specification") and the OpenType CFF2 chapter. Nothing here calls allsorts.
//!
//! Public API:
//! * [`index`] — an INDEX (16-bit count for CFF, 32-bit for CFF2) with a chosen minimal offSize;
//! * [`DictBuf`] — DICT data (all integer forms, reals, one/two byte operators);
//! * [`CffModel`] + [`build_cff`] — header, Name INDEX, Top DICT INDEX, String INDEX, Global
//!   Subr INDEX, CharStrings, charset (predefined or format 0/1/2), and either a name-keyed
//!   Private DICT (+ local Subrs) or a CID-keyed FDArray / FDSelect (format 0 or 3) with one
//!   Private DICT (+ local Subrs) per Font DICT;
//! * [`Cff2Model`] + [`build_cff2`] — CFF2 header, Top DICT, Global Subr INDEX, CharStrings,
//!   FDArray, optional FDSelect, optional VariationStore ([`VarStoreModel`]), Private DICTs
//!   with `vsindex` and local Subrs;
//! * [`CffLayout`] + [`build_cff_with`] / [`build_cff2_with`] — non-canonical but legal container
//!   layouts (oversized offSize fields, gaps, detached local Subrs, DICT operator order, long
//!   integer forms and reals in DICTs, extra Top/Font DICT entries, VariationStore padding);
//!   `CffLayout::default()` reproduces `build_cff` / `build_cff2` byte for byte;
//! * [`build_otf`] — wraps a CFF/CFF2 table in a minimal complete `OTTO` sfnt.
//!
//! The trailing blocks (charset, FDSelect, CharStrings, FDArray, Private DICTs, VariationStore)
//! can be laid out in different orders (`block_order`); all offsets in DICTs use the 5-byte
//! integer form so that the layout can be computed in one pass.

use super::basic;
use super::buf::Buf;
use super::sfnt::{build_sfnt, Tag, OTTO};

// ------------------------------------------------------------------------------------------
// INDEX and DICT

fn off_size_for(last: usize, min: u8) -> u8 {
    let need = if last <= 0xff {
        1
    } else if last <= 0xffff {
        2
    } else if last <= 0xff_ffff {
        3
    } else {
        4
    };
    need.max(min.clamp(1, 4))
}

/// An INDEX structure. `count32`: CFF2 (32-bit count). An empty INDEX is just the count.
pub fn index(items: &[Vec<u8>], count32: bool, min_off_size: u8) -> Vec<u8> {
    let mut b = Buf::new();
    if count32 {
        b.u32(items.len() as u32);
    } else {
        b.u16(items.len() as u16);
    }
    if items.is_empty() {
        return b.into_vec();
    }
    let total: usize = items.iter().map(|i| i.len()).sum();
    let os = off_size_for(total + 1, min_off_size);
    b.u8(os);
    let mut off = 1usize;
    let put = |b: &mut Buf, v: usize| match os {
        1 => {
            b.u8(v as u8);
        }
        2 => {
            b.u16(v as u16);
        }
        3 => {
            b.u24(v as u32);
        }
        _ => {
            b.u32(v as u32);
        }
    };
    put(&mut b, off);
    for it in items {
        off += it.len();
        put(&mut b, off);
    }
    for it in items {
        b.bytes(it);
    }
    b.into_vec()
}

/// DICT data writer.
#[derive(Clone, Debug, Default)]
pub struct DictBuf(pub Vec<u8>);

impl DictBuf {
    pub fn new() -> DictBuf {
        DictBuf(Vec::new())
    }
    /// shortest integer form
    pub fn int(&mut self, v: i32) -> &mut Self {
        match v {
            -107..=107 => self.0.push((v + 139) as u8),
            108..=1131 => {
                let w = v - 108;
                self.0.push(247 + (w >> 8) as u8);
                self.0.push((w & 255) as u8);
            }
            -1131..=-108 => {
                let w = -v - 108;
                self.0.push(251 + (w >> 8) as u8);
                self.0.push((w & 255) as u8);
            }
            -32768..=32767 => {
                self.0.push(28);
                self.0.extend_from_slice(&(v as i16).to_be_bytes());
            }
            _ => {
                self.0.push(29);
                self.0.extend_from_slice(&v.to_be_bytes());
            }
        }
        self
    }
    /// 5-byte form (29 + int32): fixed size, used for all offsets
    pub fn int5(&mut self, v: i32) -> &mut Self {
        self.0.push(29);
        self.0.extend_from_slice(&v.to_be_bytes());
        self
    }
    /// real number from its decimal text ("0.001", "-2.5E-3")
    pub fn real(&mut self, text: &str) -> &mut Self {
        let mut nib: Vec<u8> = Vec::new();
        let cs: Vec<char> = text.chars().collect();
        let mut i = 0;
        while i < cs.len() {
            match cs[i] {
                '0'..='9' => nib.push(cs[i] as u8 - b'0'),
                '.' => nib.push(0xa),
                'E' | 'e' => {
                    if cs.get(i + 1) == Some(&'-') {
                        nib.push(0xc);
                        i += 1;
                    } else {
                        nib.push(0xb);
                    }
                }
                '-' => nib.push(0xe),
                _ => {}
            }
            i += 1;
        }
        nib.push(0xf);
        if nib.len() % 2 == 1 {
            nib.push(0xf);
        }
        self.0.push(30);
        for p in nib.chunks(2) {
            self.0.push(p[0] << 4 | p[1]);
        }
        self
    }
    /// operator; two-byte operators are 0x0c00 | b1
    pub fn op(&mut self, o: u16) -> &mut Self {
        if o >= 0x0c00 {
            self.0.push(12);
            self.0.push((o & 0xff) as u8);
        } else {
            self.0.push(o as u8);
        }
        self
    }
    pub fn raw(&mut self, b: &[u8]) -> &mut Self {
        self.0.extend_from_slice(b);
        self
    }
    pub fn len(&self) -> usize {
        self.0.len()
    }
    pub fn is_empty(&self) -> bool {
        self.0.is_empty()
    }
}

pub mod dictop {
    pub const VERSION: u16 = 0;
    pub const NOTICE: u16 = 1;
    pub const FULL_NAME: u16 = 2;
    pub const FAMILY_NAME: u16 = 3;
    pub const WEIGHT: u16 = 4;
    pub const FONT_BBOX: u16 = 5;
    pub const BLUE_VALUES: u16 = 6;
    pub const STD_HW: u16 = 10;
    pub const STD_VW: u16 = 11;
    pub const CHARSET: u16 = 15;
    pub const ENCODING: u16 = 16;
    pub const CHARSTRINGS: u16 = 17;
    pub const PRIVATE: u16 = 18;
    pub const SUBRS: u16 = 19;
    pub const DEFAULT_WIDTH_X: u16 = 20;
    pub const NOMINAL_WIDTH_X: u16 = 21;
    pub const VSINDEX: u16 = 22;
    pub const VSTORE: u16 = 24;
    pub const FONT_MATRIX: u16 = 0x0c07;
    pub const BLUE_SCALE: u16 = 0x0c09;
    pub const ROS: u16 = 0x0c1e;
    pub const CID_COUNT: u16 = 0x0c22;
    pub const FD_ARRAY: u16 = 0x0c24;
    pub const FD_SELECT: u16 = 0x0c25;
    pub const FONT_NAME: u16 = 0x0c26;
}

// ------------------------------------------------------------------------------------------
// models

/// A Private DICT and its local subroutines.
#[derive(Clone, Debug, Default)]
pub struct PrivateModel {
    pub default_width_x: Option<i32>,
    pub nominal_width_x: Option<i32>,
    /// BlueValues / StdHW / BlueScale entries (filler that changes the DICT size)
    pub with_hint_entries: bool,
    /// local subroutines; `None`: no Subrs operator at all
    pub subrs: Option<Vec<Vec<u8>>>,
    /// unused bytes between the end of the Private DICT and its local Subr INDEX
    pub subrs_gap: usize,
    /// CFF2 only: `vsindex` entry
    pub vsindex: Option<u16>,
}

/// charset of a CFF font: predefined, or the SIDs (name-keyed) / CIDs (CID-keyed) of glyphs
/// 1..n in one of the three formats (formats 1 and 2 are compressed into ranges).
#[derive(Clone, Debug)]
pub enum CharsetModel {
    IsoAdobe,
    Expert,
    ExpertSubset,
    Format0(Vec<u16>),
    Format1(Vec<u16>),
    Format2(Vec<u16>),
}

fn charset_bytes(c: &CharsetModel) -> Option<Vec<u8>> {
    let ranges = |ids: &[u16], max_left: usize| -> Vec<(u16, usize)> {
        let mut r: Vec<(u16, usize)> = Vec::new();
        for id in ids {
            if let Some(last) = r.last_mut() {
                if last.0 as usize + last.1 + 1 == *id as usize && last.1 < max_left {
                    last.1 += 1;
                    continue;
                }
            }
            r.push((*id, 0));
        }
        r
    };
    let mut b = Buf::new();
    match c {
        CharsetModel::IsoAdobe | CharsetModel::Expert | CharsetModel::ExpertSubset => return None,
        CharsetModel::Format0(ids) => {
            b.u8(0);
            for i in ids {
                b.u16(*i);
            }
        }
        CharsetModel::Format1(ids) => {
            b.u8(1);
            for (f, n) in ranges(ids, 255) {
                b.u16(f).u8(n as u8);
            }
        }
        CharsetModel::Format2(ids) => {
            b.u8(2);
            for (f, n) in ranges(ids, 65535) {
                b.u16(f).u16(n as u16);
            }
        }
    }
    Some(b.into_vec())
}

/// FDSelect format 0 or 3 for the per-glyph font dict indices.
pub fn fd_select_bytes(format: u8, fds: &[u8]) -> Vec<u8> {
    let mut b = Buf::new();
    if format == 0 {
        b.u8(0);
        for f in fds {
            b.u8(*f);
        }
    } else {
        b.u8(3);
        let mut ranges: Vec<(u16, u8)> = Vec::new();
        for (g, f) in fds.iter().enumerate() {
            if ranges.last().map(|r| r.1) != Some(*f) {
                ranges.push((g as u16, *f));
            }
        }
        b.u16(ranges.len() as u16);
        for (g, f) in ranges {
            b.u16(g).u8(f);
        }
        b.u16(fds.len() as u16);
    }
    b.into_vec()
}

#[derive(Clone, Debug)]
pub enum CffKind {
    NameKeyed { private: PrivateModel },
    /// CID-keyed: one Private DICT per Font DICT; `fd_select[glyph]` = font dict index
    Cid { fds: Vec<PrivateModel>, fd_select: Vec<u8>, fd_select_format: u8 },
}

#[derive(Clone, Debug)]
pub struct CffModel {
    pub name: Vec<u8>,
    /// String INDEX entries (SID 391 + i). For CID fonts "Adobe" and "Identity" are appended
    /// automatically and used for ROS.
    pub strings: Vec<Vec<u8>>,
    pub global_subrs: Vec<Vec<u8>>,
    pub charstrings: Vec<Vec<u8>>,
    pub charset: CharsetModel,
    pub kind: CffKind,
    /// extra (unknown) header bytes: hdrSize = 4 + header_extra
    pub header_extra: u8,
    /// minimal offSize used in every INDEX (1..=4)
    pub min_off_size: u8,
    /// order of the trailing blocks (any value)
    pub block_order: u8,
    pub font_bbox: Option<[i32; 4]>,
}

impl CffModel {
    /// name-keyed font with an empty Private DICT, ISOAdobe charset
    pub fn simple(charstrings: Vec<Vec<u8>>) -> CffModel {
        CffModel {
            name: b"VerifCFF".to_vec(),
            strings: Vec::new(),
            global_subrs: Vec::new(),
            charstrings,
            charset: CharsetModel::IsoAdobe,
            kind: CffKind::NameKeyed { private: PrivateModel::default() },
            header_extra: 0,
            min_off_size: 1,
            block_order: 0,
            font_bbox: None,
        }
    }
}

/// Deterministic permutation of the blocks chosen by `order`. A Font DICT INDEX needs the
/// offsets of the Private DICTs and the Top DICT needs all offsets, which is no constraint on
/// the physical order.
fn permute<T>(mut blocks: Vec<T>, order: u8) -> Vec<T> {
    let n = blocks.len();
    let mut k = order as usize;
    let mut out = Vec::new();
    for i in (1..=n).rev() {
        let j = k % i;
        k /= i.max(1);
        out.push(blocks.remove(j));
    }
    out
}

// ------------------------------------------------------------------------------------------
// CFF2

/// ItemVariationStore of a CFF2 table: regions (per axis start/peak/end as raw F2Dot14) and,
/// per ItemVariationData subtable, the region indexes it refers to (itemCount is 0 in CFF2).
#[derive(Clone, Debug, Default)]
pub struct VarStoreModel {
    pub axis_count: u16,
    pub regions: Vec<Vec<[i16; 3]>>,
    pub data: Vec<Vec<u16>>,
}

impl VarStoreModel {
    /// The bare ItemVariationStore (format 1).
    pub fn item_variation_store(&self) -> Vec<u8> {
        let mut b = Buf::new();
        let header = 2 + 4 + 2 + 4 * self.data.len();
        b.u16(1).u32(header as u32).u16(self.data.len() as u16);
        let region_list_len = 4 + self.regions.len() * self.axis_count as usize * 6;
        let mut at = header + region_list_len;
        for d in &self.data {
            b.u32(at as u32);
            at += 6 + 2 * d.len();
        }
        b.u16(self.axis_count).u16(self.regions.len() as u16);
        for r in &self.regions {
            for a in 0..self.axis_count as usize {
                let t = r.get(a).copied().unwrap_or([0, 0, 0]);
                b.i16(t[0]).i16(t[1]).i16(t[2]);
            }
        }
        for d in &self.data {
            b.u16(0).u16(0).u16(d.len() as u16);
            for r in d {
                b.u16(*r);
            }
        }
        b.into_vec()
    }
    /// CFF2 VariationStore data: uint16 length + ItemVariationStore
    pub fn cff2_bytes(&self) -> Vec<u8> {
        let ivs = self.item_variation_store();
        let mut b = Buf::new();
        b.u16(ivs.len() as u16).bytes(&ivs);
        b.into_vec()
    }
}

#[derive(Clone, Debug)]
pub struct Cff2Model {
    pub global_subrs: Vec<Vec<u8>>,
    pub charstrings: Vec<Vec<u8>>,
    /// one Private DICT (+ local subrs, vsindex) per Font DICT
    pub fds: Vec<PrivateModel>,
    /// (format 0|3, font dict index per glyph); required by readers when there are >= 2 FDs
    pub fd_select: Option<(u8, Vec<u8>)>,
    pub vstore: Option<VarStoreModel>,
    /// headerSize = 5 + header_extra
    pub header_extra: u8,
    pub min_off_size: u8,
    pub block_order: u8,
    pub font_matrix: bool,
}

impl Cff2Model {
    pub fn simple(charstrings: Vec<Vec<u8>>) -> Cff2Model {
        Cff2Model {
            global_subrs: Vec::new(),
            charstrings,
            fds: vec![PrivateModel::default()],
            fd_select: None,
            vstore: None,
            header_extra: 0,
            min_off_size: 1,
            block_order: 0,
            font_matrix: false,
        }
    }
}

// ------------------------------------------------------------------------------------------
// non-canonical but legal container layouts

/// Layout options of a CFF / CFF2 table beyond what the models carry (`header_extra`,
/// `min_off_size`, `block_order`, `PrivateModel::subrs_gap`). `CffLayout::default()` is the
/// canonical layout: `build_cff_with(m, &CffLayout::default()) == build_cff(m)` byte for byte
/// (same for CFF2). Every option yields a table a conforming reader must accept and read to
/// the same font.
#[derive(Clone, Debug, Default, PartialEq)]
pub struct CffLayout {
    /// CFF header `offSize` field (1..=4; 0 = the default 4). Raised to what the table length
    /// needs. (CFF2 has no such field.)
    pub header_off_size: u8,
    /// minimal offSize per INDEX: [Name, Top DICT, String, Global Subr, CharStrings, FDArray,
    /// local Subrs]; 0 = the model's `min_off_size`. (CFF2 uses entries 3..=6.)
    pub index_off_size: [u8; 7],
    /// unused bytes before the k-th trailing block (CharStrings, charset, FDSelect, FDArray,
    /// VariationStore, Private DICTs, detached local Subrs) in physical order; cycled.
    pub gaps: Vec<u8>,
    /// put the local Subr INDEXes after all other blocks instead of right behind their Private
    /// DICT (the Subrs offset is relative to the Private DICT and stays positive)
    pub detach_local_subrs: bool,
    /// operator order inside the Top DICT / Font DICTs / Private DICTs (0 = canonical order; a
    /// CID Top DICT always starts with ROS)
    pub top_dict_order: u8,
    pub font_dict_order: u8,
    pub private_dict_order: u8,
    /// integer operands of DICTs that are not offsets/sizes: 0 = as in the canonical layout,
    /// 1 = 28 form (3 bytes) where the value fits, else 29, 2 = 29 form (5 bytes),
    /// 3 = the three forms in turn
    pub dict_int_form: u8,
    /// operands of type "number" (FontBBox, CIDCount, default/nominalWidthX, BlueValues, StdHW)
    /// written as reals ("400", "-15.0")
    pub dict_reals: bool,
    /// additional informational Top DICT entries (version, Notice, FullName, Weight SIDs with
    /// their strings, isFixedPitch, ItalicAngle, UnderlinePosition, UniqueID, XUID); CFF only
    pub top_dict_extra: bool,
    /// a FontName entry in every Font DICT of a CID-keyed CFF
    pub font_dict_extra: bool,
    /// CFF2: the VariationStore length field covers this many unused bytes behind the
    /// ItemVariationStore
    pub vstore_trailing: u8,
    /// CFF2: unused bytes inside the ItemVariationStore before the region list and before each
    /// ItemVariationData subtable (they are located by offsets)
    pub ivs_gap: u8,
    /// unused bytes at the very end of the table
    pub trailing: u8,
}

impl CffLayout {
    pub fn is_canonical(&self) -> bool {
        *self == CffLayout::default()
    }

    /// A random non-canonical layout (every option has a fair chance of being used).
    pub fn draw(dec: &mut super::type2::Dec) -> CffLayout {
        let mut l = CffLayout::default();
        if dec.chance(1, 2) {
            l.header_off_size = 1 + dec.below(4) as u8;
        }
        if dec.chance(1, 2) {
            for i in 0..7 {
                l.index_off_size[i] = if dec.chance(1, 2) { 0 } else { 1 + dec.below(4) as u8 };
            }
        }
        if dec.chance(1, 2) {
            let n = 1 + dec.below(5);
            l.gaps = (0..n).map(|_| if dec.chance(1, 3) { 0 } else { 1 + dec.below(9) as u8 }).collect();
        }
        l.detach_local_subrs = dec.chance(1, 3);
        if dec.chance(1, 2) {
            l.top_dict_order = 1 + dec.below(255) as u8;
            l.font_dict_order = dec.below(256) as u8;
            l.private_dict_order = 1 + dec.below(255) as u8;
        }
        l.dict_int_form = if dec.chance(1, 2) { 0 } else { 1 + dec.below(3) as u8 };
        l.dict_reals = dec.chance(1, 4);
        l.top_dict_extra = dec.chance(1, 3);
        l.font_dict_extra = dec.chance(1, 3);
        if dec.chance(1, 3) {
            l.vstore_trailing = 1 + dec.below(12) as u8;
        }
        if dec.chance(1, 3) {
            l.ivs_gap = 1 + dec.below(6) as u8;
        }
        if dec.chance(1, 4) {
            l.trailing = 1 + dec.below(7) as u8;
        }
        l
    }

    fn os(&self, which: usize, model_min: u8) -> u8 {
        let v = self.index_off_size[which];
        if v == 0 {
            model_min.clamp(1, 4)
        } else {
            v.clamp(1, 4)
        }
    }
    fn gap(&self, k: usize) -> usize {
        if self.gaps.is_empty() {
            0
        } else {
            self.gaps[k % self.gaps.len()] as usize
        }
    }
}

/// how a numeric DICT operand is written in the canonical layout
#[derive(Clone, Copy, PartialEq)]
enum Dflt {
    Shortest,
    Five,
}

/// DICT assembled entry by entry so that the operator order can be permuted
struct DictEntries<'l> {
    l: &'l CffLayout,
    entries: Vec<Vec<u8>>,
    cur: DictBuf,
    k: usize,
}

impl<'l> DictEntries<'l> {
    fn new(l: &'l CffLayout) -> Self {
        DictEntries { l, entries: Vec::new(), cur: DictBuf::new(), k: 0 }
    }
    /// integer-valued operand of type number / integer / SID / boolean (not an offset)
    fn n(&mut self, v: i32, dflt: Dflt, may_be_real: bool) -> &mut Self {
        self.k += 1;
        if may_be_real && self.l.dict_reals {
            let t = if self.k % 2 == 0 { format!("{}", v) } else { format!("{}.0", v) };
            self.cur.real(&t);
            return self;
        }
        let form = match self.l.dict_int_form {
            3 => 1 + (self.k % 3) as u8, // 1, 2, or 3 (= shortest)
            f => f,
        };
        match form {
            1 if (-32768..=32767).contains(&v) => {
                self.cur.0.push(28);
                self.cur.0.extend_from_slice(&(v as i16).to_be_bytes());
            }
            1 | 2 => {
                self.cur.int5(v);
            }
            3 => {
                self.cur.int(v);
            }
            _ => {
                if dflt == Dflt::Five {
                    self.cur.int5(v);
                } else {
                    self.cur.int(v);
                }
            }
        }
        self
    }
    /// offset or size: always the 5-byte form (the layout is computed in one pass)
    fn off(&mut self, v: usize) -> &mut Self {
        self.cur.int5(v as i32);
        self
    }
    fn real(&mut self, t: &str) -> &mut Self {
        self.cur.real(t);
        self
    }
    fn op(&mut self, o: u16) -> &mut Self {
        self.cur.op(o);
        self.entries.push(std::mem::take(&mut self.cur.0));
        self
    }
    /// entries `0..pinned` stay in front, the rest is permuted by `order`
    fn finish(mut self, pinned: usize, order: u8) -> Vec<u8> {
        let rest = self.entries.split_off(pinned.min(self.entries.len()));
        let mut out: Vec<u8> = self.entries.concat();
        for e in permute(rest, order) {
            out.extend(e);
        }
        out
    }
}

impl PrivateModel {
    /// Private DICT data; `subrs_off` = offset of the local Subr INDEX relative to the DICT
    fn dict_with(&self, cff2: bool, l: &CffLayout, subrs_off: usize) -> Vec<u8> {
        let mut d = DictEntries::new(l);
        if self.with_hint_entries {
            d.n(-15, Dflt::Shortest, true).n(15, Dflt::Shortest, true).n(450, Dflt::Shortest, true).n(12, Dflt::Shortest, true).op(dictop::BLUE_VALUES);
            d.real("0.0375").op(dictop::BLUE_SCALE);
            d.n(80, Dflt::Shortest, true).op(dictop::STD_HW);
        }
        if let Some(v) = self.vsindex {
            if cff2 {
                d.n(v as i32, Dflt::Shortest, false).op(dictop::VSINDEX);
            }
        }
        if !cff2 {
            if let Some(v) = self.default_width_x {
                d.n(v, Dflt::Shortest, true).op(dictop::DEFAULT_WIDTH_X);
            }
            if let Some(v) = self.nominal_width_x {
                d.n(v, Dflt::Shortest, true).op(dictop::NOMINAL_WIDTH_X);
            }
        }
        if self.subrs.is_some() {
            d.off(subrs_off).op(dictop::SUBRS);
        }
        d.finish(0, l.private_dict_order)
    }
}

impl VarStoreModel {
    /// ItemVariationStore with `gap` unused bytes before the region list and before each
    /// ItemVariationData subtable.
    pub fn item_variation_store_with(&self, gap: usize) -> Vec<u8> {
        let mut b = Buf::new();
        let header = 2 + 4 + 2 + 4 * self.data.len();
        b.u16(1).u32((header + gap) as u32).u16(self.data.len() as u16);
        let region_list_len = 4 + self.regions.len() * self.axis_count as usize * 6;
        let mut at = header + gap + region_list_len;
        for d in &self.data {
            at += gap;
            b.u32(at as u32);
            at += 6 + 2 * d.len();
        }
        b.bytes(&vec![0xEE; gap]);
        b.u16(self.axis_count).u16(self.regions.len() as u16);
        for r in &self.regions {
            for a in 0..self.axis_count as usize {
                let t = r.get(a).copied().unwrap_or([0, 0, 0]);
                b.i16(t[0]).i16(t[1]).i16(t[2]);
            }
        }
        for d in &self.data {
            b.bytes(&vec![0xEE; gap]);
            b.u16(0).u16(0).u16(d.len() as u16);
            for r in d {
                b.u16(*r);
            }
        }
        b.into_vec()
    }
}

#[derive(Clone, Copy, Debug, PartialEq, Eq)]
enum Blk {
    Charset,
    FdSelect,
    CharStrings,
    FdArray,
    VarStore,
    Private(usize),
    Subrs(usize),
}

struct Placed {
    order: Vec<Blk>,
    offsets: Vec<(Blk, usize)>,
    end: usize,
}

fn place(start: usize, order: Vec<Blk>, size_of: &dyn Fn(Blk) -> usize, l: &CffLayout) -> Placed {
    let mut offsets = Vec::new();
    let mut at = start;
    for (k, blk) in order.iter().enumerate() {
        at += l.gap(k);
        offsets.push((*blk, at));
        at += size_of(*blk);
    }
    Placed { order, offsets, end: at }
}

impl Placed {
    fn off(&self, b: Blk) -> usize {
        self.offsets.iter().find(|o| o.0 == b).map(|o| o.1).unwrap_or(0)
    }
}

/// Build a `CFF ` table (canonical layout).
pub fn build_cff(m: &CffModel) -> Vec<u8> {
    build_cff_with(m, &CffLayout::default())
}

/// Build a `CFF ` table with a non-canonical but legal layout.
pub fn build_cff_with(m: &CffModel, l: &CffLayout) -> Vec<u8> {
    let mos = m.min_off_size;
    let cid = matches!(m.kind, CffKind::Cid { .. });
    let mut strings = m.strings.clone();
    let extra_sids = if l.top_dict_extra {
        let base = 391 + strings.len() as i32;
        for t in [&b"001.007"[..], b"Generated for verification", b"Verif C18 Full", b"Verif C18", b"Regular"] {
            strings.push(t.to_vec());
        }
        Some(base)
    } else {
        None
    };
    let ros_sids = if cid {
        strings.push(b"Adobe".to_vec());
        strings.push(b"Identity".to_vec());
        Some((391 + strings.len() as i32 - 2, 391 + strings.len() as i32 - 1))
    } else {
        None
    };
    let font_name_sid = if cid && l.font_dict_extra {
        strings.push(b"VerifC18-FD".to_vec());
        Some(391 + strings.len() as i32 - 1)
    } else {
        None
    };

    // ---- blocks
    let charset = charset_bytes(&m.charset);
    let privates: Vec<&PrivateModel> = match &m.kind {
        CffKind::NameKeyed { private } => vec![private],
        CffKind::Cid { fds, .. } => fds.iter().collect(),
    };
    let priv_len: Vec<usize> = privates.iter().map(|p| p.dict_with(false, l, 0).len()).collect();
    let subrs: Vec<Option<Vec<u8>>> = privates.iter().map(|p| p.subrs.as_ref().map(|s| index(s, false, l.os(6, mos)))).collect();
    let charstrings = index(&m.charstrings, false, l.os(4, mos));
    let fd_select = match &m.kind {
        CffKind::Cid { fd_select, fd_select_format, .. } => Some(fd_select_bytes(*fd_select_format, fd_select)),
        _ => None,
    };
    let font_dict = |size: usize, off: usize| -> Vec<u8> {
        let mut d = DictEntries::new(l);
        if let Some(s) = font_name_sid {
            d.n(s, Dflt::Shortest, false).op(dictop::FONT_NAME);
        }
        d.off(size).off(off).op(dictop::PRIVATE);
        d.finish(0, l.font_dict_order)
    };
    let fd_array_len = if cid { index(&privates.iter().map(|_| font_dict(0, 0)).collect::<Vec<_>>(), false, l.os(5, mos)).len() } else { 0 };

    let mut order = vec![Blk::CharStrings];
    if charset.is_some() {
        order.push(Blk::Charset);
    }
    if cid {
        order.push(Blk::FdSelect);
        order.push(Blk::FdArray);
    }
    for i in 0..privates.len() {
        order.push(Blk::Private(i));
    }
    let mut order = permute(order, m.block_order);
    if l.detach_local_subrs {
        for i in 0..privates.len() {
            if subrs[i].is_some() {
                order.push(Blk::Subrs(i));
            }
        }
    }

    // ---- Top DICT (fixed size: offsets in 5-byte form)
    let top = |off: &dyn Fn(Blk) -> usize| -> Vec<u8> {
        let mut d = DictEntries::new(l);
        let mut pinned = 0;
        if let Some((r, o)) = ros_sids {
            d.n(r, Dflt::Shortest, false).n(o, Dflt::Shortest, false).n(0, Dflt::Shortest, false).op(dictop::ROS);
            pinned = 1;
        }
        if let Some(base) = extra_sids {
            d.n(base, Dflt::Shortest, false).op(dictop::VERSION);
            d.n(base + 1, Dflt::Shortest, false).op(dictop::NOTICE);
            d.n(base + 2, Dflt::Shortest, false).op(dictop::FULL_NAME);
            d.n(base + 3, Dflt::Shortest, false).op(dictop::FAMILY_NAME);
            d.n(base + 4, Dflt::Shortest, false).op(dictop::WEIGHT);
            d.n(0, Dflt::Shortest, false).op(0x0c01); // isFixedPitch
            d.real("-12.5").op(0x0c02); // ItalicAngle
            d.n(-120, Dflt::Shortest, true).op(0x0c03); // UnderlinePosition
            d.n(4_000_123, Dflt::Shortest, false).op(13); // UniqueID
            d.n(1, Dflt::Shortest, false).n(2, Dflt::Shortest, false).n(70000, Dflt::Shortest, false).op(14); // XUID
        }
        if let Some(bb) = m.font_bbox {
            d.n(bb[0], Dflt::Five, true).n(bb[1], Dflt::Five, true).n(bb[2], Dflt::Five, true).n(bb[3], Dflt::Five, true).op(dictop::FONT_BBOX);
        }
        match &m.charset {
            CharsetModel::IsoAdobe => {}
            CharsetModel::Expert => {
                d.off(1).op(dictop::CHARSET);
            }
            CharsetModel::ExpertSubset => {
                d.off(2).op(dictop::CHARSET);
            }
            _ => {
                d.off(off(Blk::Charset)).op(dictop::CHARSET);
            }
        }
        d.off(off(Blk::CharStrings)).op(dictop::CHARSTRINGS);
        if cid {
            d.n(m.charstrings.len() as i32, Dflt::Five, true).op(dictop::CID_COUNT);
            d.off(off(Blk::FdArray)).op(dictop::FD_ARRAY);
            d.off(off(Blk::FdSelect)).op(dictop::FD_SELECT);
        } else {
            d.off(priv_len[0]).off(off(Blk::Private(0))).op(dictop::PRIVATE);
        }
        d.finish(pinned, l.top_dict_order)
    };
    let top_len = top(&|_| 0).len();

    let mut b = Buf::new();
    b.u8(1).u8(0).u8(4 + m.header_extra).u8(4);
    for i in 0..m.header_extra {
        b.u8(0xE0 | (i & 0xf));
    }
    b.bytes(&index(&[m.name.clone()], false, l.os(0, mos)));
    let top_index_at = b.len();
    let top_index_len = index(&[vec![0; top_len]], false, l.os(1, mos)).len();
    b.zeros(top_index_len);
    b.bytes(&index(&strings, false, l.os(2, mos)));
    b.bytes(&index(&m.global_subrs, false, l.os(3, mos)));

    // ---- layout
    let attached = |i: usize| -> usize {
        if l.detach_local_subrs {
            0
        } else {
            subrs[i].as_ref().map(|s| privates[i].subrs_gap + s.len()).unwrap_or(0)
        }
    };
    let size_of = |blk: Blk| -> usize {
        match blk {
            Blk::Charset => charset.as_ref().map(|c| c.len()).unwrap_or(0),
            Blk::FdSelect => fd_select.as_ref().map(|c| c.len()).unwrap_or(0),
            Blk::CharStrings => charstrings.len(),
            Blk::FdArray => fd_array_len,
            Blk::VarStore => 0,
            Blk::Private(i) => priv_len[i] + attached(i),
            Blk::Subrs(i) => subrs[i].as_ref().map(|s| s.len()).unwrap_or(0),
        }
    };
    let pl = place(b.len(), order, &size_of, l);
    let subrs_off = |i: usize| -> usize {
        if l.detach_local_subrs {
            pl.off(Blk::Subrs(i)).saturating_sub(pl.off(Blk::Private(i)))
        } else {
            priv_len[i] + privates[i].subrs_gap
        }
    };
    for (k, blk) in pl.order.iter().enumerate() {
        b.bytes(&vec![0x5A; l.gap(k)]);
        debug_assert_eq!(b.len(), pl.off(*blk));
        match blk {
            Blk::Charset => {
                b.bytes(charset.as_ref().unwrap());
            }
            Blk::FdSelect => {
                b.bytes(fd_select.as_ref().unwrap());
            }
            Blk::CharStrings => {
                b.bytes(&charstrings);
            }
            Blk::FdArray => {
                let dicts: Vec<Vec<u8>> = (0..privates.len()).map(|i| font_dict(priv_len[i], pl.off(Blk::Private(i)))).collect();
                b.bytes(&index(&dicts, false, l.os(5, mos)));
            }
            Blk::VarStore => {}
            Blk::Private(i) => {
                let d = privates[*i].dict_with(false, l, subrs_off(*i));
                debug_assert_eq!(d.len(), priv_len[*i]);
                b.bytes(&d);
                if !l.detach_local_subrs {
                    if let Some(s) = &subrs[*i] {
                        b.bytes(&vec![0xAA; privates[*i].subrs_gap]).bytes(s);
                    }
                }
            }
            Blk::Subrs(i) => {
                b.bytes(subrs[*i].as_ref().unwrap());
            }
        }
    }
    debug_assert_eq!(b.len(), pl.end);
    b.bytes(&vec![0x5B; l.trailing as usize]);
    let mut out = b.into_vec();
    let top_index = index(&[top(&|blk| pl.off(blk))], false, l.os(1, mos));
    debug_assert_eq!(top_index.len(), top_index_len);
    out[top_index_at..top_index_at + top_index_len].copy_from_slice(&top_index);
    // header offSize: what absolute offsets into this table need, or more
    let need = off_size_for(out.len(), 1);
    out[3] = if l.header_off_size == 0 { 4 } else { l.header_off_size.clamp(1, 4).max(need) };
    out
}

/// Build a `CFF2` table (canonical layout).
pub fn build_cff2(m: &Cff2Model) -> Vec<u8> {
    build_cff2_with(m, &CffLayout::default())
}

/// Build a `CFF2` table with a non-canonical but legal layout.
pub fn build_cff2_with(m: &Cff2Model, l: &CffLayout) -> Vec<u8> {
    let mos = m.min_off_size;
    let priv_len: Vec<usize> = m.fds.iter().map(|p| p.dict_with(true, l, 0).len()).collect();
    let subrs: Vec<Option<Vec<u8>>> = m.fds.iter().map(|p| p.subrs.as_ref().map(|s| index(s, true, l.os(6, mos)))).collect();
    let charstrings = index(&m.charstrings, true, l.os(4, mos));
    let fd_select = m.fd_select.as_ref().map(|(f, v)| fd_select_bytes(*f, v));
    let vstore = m.vstore.as_ref().map(|v| {
        let ivs = v.item_variation_store_with(l.ivs_gap as usize);
        let mut b = Buf::new();
        b.u16((ivs.len() + l.vstore_trailing as usize) as u16).bytes(&ivs).bytes(&vec![0xEF; l.vstore_trailing as usize]);
        b.into_vec()
    });
    let font_dict = |size: usize, off: usize| -> Vec<u8> {
        let mut d = DictEntries::new(l);
        d.off(size).off(off).op(dictop::PRIVATE);
        d.finish(0, l.font_dict_order)
    };
    let fd_array_len = index(&m.fds.iter().map(|_| font_dict(0, 0)).collect::<Vec<_>>(), true, l.os(5, mos)).len();

    let mut order = vec![Blk::CharStrings, Blk::FdArray];
    if fd_select.is_some() {
        order.push(Blk::FdSelect);
    }
    if vstore.is_some() {
        order.push(Blk::VarStore);
    }
    for i in 0..m.fds.len() {
        order.push(Blk::Private(i));
    }
    let mut order = permute(order, m.block_order);
    if l.detach_local_subrs {
        for i in 0..m.fds.len() {
            if subrs[i].is_some() {
                order.push(Blk::Subrs(i));
            }
        }
    }

    let top = |off: &dyn Fn(Blk) -> usize| -> Vec<u8> {
        let mut d = DictEntries::new(l);
        if m.font_matrix {
            d.real("0.001").n(0, Dflt::Shortest, true).n(0, Dflt::Shortest, true).real("0.001").n(0, Dflt::Shortest, true).n(0, Dflt::Shortest, true).op(dictop::FONT_MATRIX);
        }
        d.off(off(Blk::CharStrings)).op(dictop::CHARSTRINGS);
        d.off(off(Blk::FdArray)).op(dictop::FD_ARRAY);
        if fd_select.is_some() {
            d.off(off(Blk::FdSelect)).op(dictop::FD_SELECT);
        }
        if vstore.is_some() {
            d.off(off(Blk::VarStore)).op(dictop::VSTORE);
        }
        d.finish(0, l.top_dict_order)
    };
    let top_len = top(&|_| 0).len();
    let mut b = Buf::new();
    b.u8(2).u8(0).u8(5 + m.header_extra).u16(top_len as u16);
    for i in 0..m.header_extra {
        b.u8(0xD0 | (i & 0xf));
    }
    let top_at = b.len();
    b.zeros(top_len);
    b.bytes(&index(&m.global_subrs, true, l.os(3, mos)));

    let attached = |i: usize| -> usize {
        if l.detach_local_subrs {
            0
        } else {
            subrs[i].as_ref().map(|s| m.fds[i].subrs_gap + s.len()).unwrap_or(0)
        }
    };
    let size_of = |blk: Blk| -> usize {
        match blk {
            Blk::Charset => 0,
            Blk::FdSelect => fd_select.as_ref().map(|c| c.len()).unwrap_or(0),
            Blk::CharStrings => charstrings.len(),
            Blk::FdArray => fd_array_len,
            Blk::VarStore => vstore.as_ref().map(|c| c.len()).unwrap_or(0),
            Blk::Private(i) => priv_len[i] + attached(i),
            Blk::Subrs(i) => subrs[i].as_ref().map(|s| s.len()).unwrap_or(0),
        }
    };
    let pl = place(b.len(), order, &size_of, l);
    let subrs_off = |i: usize| -> usize {
        if l.detach_local_subrs {
            pl.off(Blk::Subrs(i)).saturating_sub(pl.off(Blk::Private(i)))
        } else {
            priv_len[i] + m.fds[i].subrs_gap
        }
    };
    for (k, blk) in pl.order.iter().enumerate() {
        b.bytes(&vec![0x5A; l.gap(k)]);
        debug_assert_eq!(b.len(), pl.off(*blk));
        match blk {
            Blk::Charset => {}
            Blk::FdSelect => {
                b.bytes(fd_select.as_ref().unwrap());
            }
            Blk::CharStrings => {
                b.bytes(&charstrings);
            }
            Blk::FdArray => {
                let dicts: Vec<Vec<u8>> = (0..m.fds.len()).map(|i| font_dict(priv_len[i], pl.off(Blk::Private(i)))).collect();
                b.bytes(&index(&dicts, true, l.os(5, mos)));
            }
            Blk::VarStore => {
                b.bytes(vstore.as_ref().unwrap());
            }
            Blk::Private(i) => {
                let d = m.fds[*i].dict_with(true, l, subrs_off(*i));
                debug_assert_eq!(d.len(), priv_len[*i]);
                b.bytes(&d);
                if !l.detach_local_subrs {
                    if let Some(s) = &subrs[*i] {
                        b.bytes(&vec![0xAA; m.fds[*i].subrs_gap]).bytes(s);
                    }
                }
            }
            Blk::Subrs(i) => {
                b.bytes(subrs[*i].as_ref().unwrap());
            }
        }
    }
    b.bytes(&vec![0x5B; l.trailing as usize]);
    let mut out = b.into_vec();
    let t = top(&|blk| pl.off(blk));
    out[top_at..top_at + top_len].copy_from_slice(&t);
    out
}

// ------------------------------------------------------------------------------------------
// OTTO wrapper

/// A minimal complete OpenType font (`OTTO`) around a `CFF ` or `CFF2` table: head, hhea,
/// maxp 0.5, hmtx (advance 500+i), cmap (U+0041.. -> glyphs 1..), name, OS/2, post, plus
/// `extra` tables (e.g. fvar). Glyph 0 is .notdef.
pub fn build_otf(cff_table: Vec<u8>, cff2: bool, num_glyphs: u16, extra: &[(Tag, Vec<u8>)]) -> Vec<u8> {
    let n = num_glyphs.max(1);
    let metrics: Vec<(u16, i16)> = (0..n).map(|i| (500 + (i % 100), 0)).collect();
    let mut map = std::collections::BTreeMap::new();
    for g in 1..n.min(200) {
        map.insert(0x40 + g, g);
    }
    let mut tables: Vec<(Tag, Vec<u8>)> = vec![
        (*b"head", basic::head(1000, false, (0, -200, 1000, 800))),
        (*b"hhea", basic::hhea(800, -200, 600, n)),
        (*b"maxp", basic::maxp_v05(n)),
        (*b"hmtx", basic::hmtx(&metrics, n)),
        (*b"cmap", basic::cmap_table(&[(3, 1, basic::cmap_format4(&map))])),
        (*b"name", basic::name_minimal()),
        (*b"OS/2", basic::os2_v4(0x41, 0x41 + n.min(200), 400)),
        (*b"post", basic::post_v3()),
        (if cff2 { *b"CFF2" } else { *b"CFF " }, cff_table),
    ];
    for (t, d) in extra {
        if let Some(e) = tables.iter_mut().find(|e| &e.0 == t) {
            e.1 = d.clone();
        } else {
            tables.push((*t, d.clone()));
        }
    }
    build_sfnt(OTTO, &tables)
}
