//! independent encoders (model -> bytes). Nothing here calls an allsorts writer.

pub mod buf;
pub mod var;
