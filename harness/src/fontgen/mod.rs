//! independent encoders (model -> bytes). Nothing here calls an allsorts writer.

pub mod basic;
pub mod buf;
pub mod sfnt;
pub mod var;
