//! independent encoders (model -> bytes). Nothing here calls an allsorts writer.

pub mod basic;
pub mod buf;
pub mod sfnt;
pub mod var;
pub mod fv_font;
pub mod woff2;
pub mod glyfgen;
pub mod ttgen;
pub mod gvar;
pub mod otl_gpos;
pub mod cmap;
pub mod glyf;
pub mod type2;
pub mod cff;
pub mod container;
pub mod cffgen;
pub mod otl;
pub mod varext;
pub mod wrap;
pub mod cffx;
