//! fvar / avar encoders (written from the OpenType specification).

use super::buf::Buf;

#[derive(Clone, Debug)]
pub struct AxisModel {
    pub tag: [u8; 4],
    /// raw 16.16
    pub min: i32,
    pub default: i32,
    pub max: i32,
    pub flags: u16,
    pub name_id: u16,
}

#[derive(Clone, Debug)]
pub struct InstanceModel {
    pub subfamily_name_id: u16,
    pub coords: Vec<i32>,
    pub postscript_name_id: Option<u16>,
}

/// fvar table, version 1.0. `axis_size_extra` adds padding bytes to each axis record
/// (axisSize > 20 is legal and must be honoured by readers).
pub fn fvar_table(axes: &[AxisModel], instances: &[InstanceModel], axis_size_extra: u16) -> Vec<u8> {
    fvar_table_gap(axes, instances, axis_size_extra, 0)
}

/// as `fvar_table`, with `header_gap` filler bytes between the 16-byte header and the axes array
/// (axesArrayOffset = 16 + gap: readers must follow the offset, not assume the array abuts the header)
pub fn fvar_table_gap(axes: &[AxisModel], instances: &[InstanceModel], axis_size_extra: u16, header_gap: u16) -> Vec<u8> {
    let mut b = Buf::new();
    let axis_size = 20 + axis_size_extra;
    let has_ps = instances.iter().any(|i| i.postscript_name_id.is_some());
    let instance_size = 4 + 4 * axes.len() as u16 + if has_ps { 2 } else { 0 };
    b.u16(1).u16(0).u16(16 + header_gap).u16(2).u16(axes.len() as u16).u16(axis_size).u16(instances.len() as u16).u16(instance_size);
    for k in 0..header_gap {
        b.u8(0xA5 ^ (k as u8));
    }
    for a in axes {
        b.tag(&a.tag).i32(a.min).i32(a.default).i32(a.max).u16(a.flags).u16(a.name_id);
        b.zeros(axis_size_extra as usize);
    }
    for i in instances {
        b.u16(i.subfamily_name_id).u16(0);
        for k in 0..axes.len() {
            b.i32(i.coords.get(k).copied().unwrap_or(0));
        }
        if has_ps {
            b.u16(i.postscript_name_id.unwrap_or(0xFFFF));
        }
    }
    b.into_vec()
}

/// avar table version 1.0: one segment map per axis, each a list of (from, to) raw 2.14 pairs.
pub fn avar_table(maps: &[Vec<(i16, i16)>]) -> Vec<u8> {
    let mut b = Buf::new();
    b.u16(1).u16(0).u16(0).u16(maps.len() as u16);
    for m in maps {
        b.u16(m.len() as u16);
        for (f, t) in m {
            b.i16(*f).i16(*t);
        }
    }
    b.into_vec()
}
