//! `glyf` / `loca` encoder: glyph model (`refmodel::glyf::{Glyph, SimpleGlyph, CompositeGlyph,
//! Component, …}`) → bytes, written from the OpenType specification ("glyf — Glyph Data",
//! "loca — Index to Location"). Nothing here calls allsorts.
//!
//! The encoder explores the *legal freedom* of the format. Every choice is a pure function of
//! the [`Encoding`] value (a [`Form`] per aspect plus a seed), so a case is reproducible:
//!
//! * point coordinates: a zero delta may be stored as "same as previous" (no bytes), as a short
//!   vector `+0` or `-0`, or as a 16-bit zero; a delta of 1‥255 in magnitude as a short vector
//!   with sign bit or as a 16-bit value; larger deltas as 16-bit values;
//! * flags: runs of identical flag bytes may be written one by one, as one REPEAT_FLAG run, or
//!   split into several runs (a repeat count of 0 is also legal); a run covers at most 256
//!   points (count byte 255), longer stretches continue with a new flag byte; runs ignore
//!   contour boundaries because flags are stored per point, not per contour;
//! * OVERLAP_SIMPLE on the first flag byte, instructions;
//! * component arguments as bytes (when both fit) or words; a transform may be stored in a
//!   wider form than necessary (none → scale 1.0 → x/y scale → 2×2 with zero off-diagonals);
//! * table layout ([`Layout`]): short or long loca, record alignment 1/2/4, extra zero
//!   padding inside a record's span, unused bytes before the first glyph.
//!
//! Entry points: [`encode_glyph`] (one record), [`encode_records`] (one record per glyph),
//! [`build_glyf_loca`] (records → tables), [`encode_glyf_table`] (glyphs → tables).
//!
//! ```ignore
//! let glyphs = vec![Glyph::Simple(SimpleGlyph::from_contours(vec![vec![(0,0,true),(10,0,false),(10,10,true)]])),
//!                   Glyph::Composite(CompositeGlyph { bbox: None, instructions: None,
//!                       components: vec![Component::new(0, 5, 5).with_transform(Transform::Scale(0x2000))] })];
//! let (glyf, loca) = encode_glyf_table(&glyphs, &Encoding::compact(), &Layout::short())?;
//! ```

use super::buf::Buf;
use crate::refmodel::glyf::{flag, Anchor, Component, CompositeGlyph, Glyph, Pt, SimpleGlyph, Transform};

/// How an aspect of the encoding is chosen.
#[derive(Clone, Copy, Debug, PartialEq)]
pub enum Form {
    /// always the smallest legal form
    Compact,
    /// always the widest form (16-bit deltas, no repeats, word arguments, 2×2 transforms)
    Long,
    /// a pseudo-random legal form per item (driven by [`Encoding::seed`])
    Mixed,
}

#[derive(Clone, Copy, Debug, PartialEq)]
pub struct Encoding {
    /// x/y delta forms of simple glyphs
    pub coords: Form,
    /// flag repetition (`Long` = never repeat)
    pub repeats: Form,
    /// component argument width
    pub args: Form,
    /// component transform width
    pub transforms: Form,
    pub seed: u64,
}

impl Encoding {
    pub fn compact() -> Encoding {
        Encoding {
            coords: Form::Compact,
            repeats: Form::Compact,
            args: Form::Compact,
            transforms: Form::Compact,
            seed: 0,
        }
    }
    pub fn long() -> Encoding {
        Encoding {
            coords: Form::Long,
            repeats: Form::Long,
            args: Form::Long,
            transforms: Form::Long,
            seed: 0,
        }
    }
    pub fn mixed(seed: u64) -> Encoding {
        Encoding {
            coords: Form::Mixed,
            repeats: Form::Mixed,
            args: Form::Mixed,
            transforms: Form::Mixed,
            seed,
        }
    }
    /// the same forms with a seed derived for item `i` (glyph index)
    pub fn for_item(&self, i: usize) -> Encoding {
        Encoding {
            seed: mix(self.seed ^ mix(i as u64 + 1)),
            ..*self
        }
    }
}

#[derive(Clone, Debug, PartialEq)]
pub enum EncodeError {
    /// a delta between consecutive points does not fit 16 bits
    DeltaOverflow,
    /// more than 65535 points / 32767 contours / 65535 instruction bytes
    TooLarge(&'static str),
    /// composite without components
    NoComponents,
    /// short loca needs even offsets below 131072
    ShortLoca(&'static str),
}

fn mix(mut z: u64) -> u64 {
    z = z.wrapping_add(0x9e3779b97f4a7c15);
    z = (z ^ (z >> 30)).wrapping_mul(0xbf58476d1ce4e5b9);
    z = (z ^ (z >> 27)).wrapping_mul(0x94d049bb133111eb);
    z ^ (z >> 31)
}

/// Deterministic choice stream.
struct Chooser(u64);

impl Chooser {
    fn next(&mut self) -> u64 {
        self.0 = self.0.wrapping_add(0x9e3779b97f4a7c15);
        mix(self.0)
    }
    /// uniform in 0..n (n ≥ 1)
    fn below(&mut self, n: usize) -> usize {
        ((self.next() >> 32) as usize * n) >> 32
    }
    fn one_in(&mut self, n: usize) -> bool {
        self.below(n) == 0
    }
}

/// What the simple-glyph encoder did (for classification by callers).
#[derive(Clone, Debug, Default, PartialEq)]
pub struct SimpleStats {
    /// REPEAT_FLAG runs written
    pub repeat_runs: usize,
    /// a repeat run covers points of more than one contour
    pub repeat_spans_contours: bool,
    pub repeat_count_zero: usize,
    /// largest repeat count byte written (0 when no run was written)
    pub repeat_count_max: usize,
    /// runs written with count byte 253 / 254 / 255 (the field's upper boundary)
    pub repeat_count_253: usize,
    pub repeat_count_254: usize,
    pub repeat_count_255: usize,
    /// a run with count byte 255 is immediately followed by another identical flag
    /// (a stretch of more than 256 identical flags had to be split)
    pub split_after_full_run: usize,
    pub short_positive: usize,
    pub short_negative: usize,
    pub short_zero: usize,
    pub same_as_previous: usize,
    pub long_nonzero: usize,
    /// 16-bit form used although a shorter one existed
    pub long_redundant: usize,
}

/// Encode one glyph record (no padding). [`Glyph::Empty`] is zero bytes.
pub fn encode_glyph(g: &Glyph, enc: &Encoding) -> Result<Vec<u8>, EncodeError> {
    match g {
        Glyph::Empty => Ok(Vec::new()),
        Glyph::Simple(s) => encode_simple(s, enc).map(|(b, _)| b),
        Glyph::Composite(c) => encode_composite(c, enc),
    }
}

/// Encode a simple glyph; also reports which forms were used.
pub fn encode_simple(g: &SimpleGlyph, enc: &Encoding) -> Result<(Vec<u8>, SimpleStats), EncodeError> {
    let mut ch = Chooser(mix(enc.seed ^ 0x5151));
    let mut stats = SimpleStats::default();
    let contours: Vec<&Vec<Pt>> = g.contours.iter().filter(|c| !c.is_empty()).collect();
    if contours.len() > i16::MAX as usize {
        return Err(EncodeError::TooLarge("contours"));
    }
    let pts: Vec<Pt> = contours.iter().flat_map(|c| c.iter().copied()).collect();
    // endPtsOfContours holds point indices up to 0xFFFF: 65536 points are the most a glyph can have
    if pts.len() > 65536 {
        return Err(EncodeError::TooLarge("points"));
    }
    if g.instructions.len() > 65535 {
        return Err(EncodeError::TooLarge("instructions"));
    }
    // contour index of every point (to report repeats that span contours)
    let mut contour_of = Vec::with_capacity(pts.len());
    for (ci, c) in contours.iter().enumerate() {
        contour_of.extend(std::iter::repeat(ci).take(c.len()));
    }

    let mut b = Buf::new();
    let bbox = g.bbox.unwrap_or_else(|| g.computed_bbox());
    b.i16(contours.len() as i16).i16(bbox.0).i16(bbox.1).i16(bbox.2).i16(bbox.3);
    let mut end = 0usize;
    for c in &contours {
        end += c.len();
        b.u16((end - 1) as u16);
    }
    b.u16(g.instructions.len() as u16).bytes(&g.instructions);

    // per point: flag byte and the coordinate bytes
    let mut flags: Vec<u8> = Vec::with_capacity(pts.len());
    let mut xbytes = Buf::new();
    let mut ybytes = Buf::new();
    let (mut px, mut py) = (0i32, 0i32);
    for (i, p) in pts.iter().enumerate() {
        let mut f = if p.2 { flag::ON_CURVE_POINT } else { 0 };
        if i == 0 && g.overlap_simple {
            f |= flag::OVERLAP_SIMPLE;
        }
        let dx = p.0 as i32 - px;
        let dy = p.1 as i32 - py;
        px = p.0 as i32;
        py = p.1 as i32;
        f |= encode_delta(
            dx,
            enc.coords,
            &mut ch,
            &mut xbytes,
            flag::X_SHORT_VECTOR,
            flag::X_IS_SAME_OR_POSITIVE_X_SHORT_VECTOR,
            &mut stats,
        )?;
        f |= encode_delta(
            dy,
            enc.coords,
            &mut ch,
            &mut ybytes,
            flag::Y_SHORT_VECTOR,
            flag::Y_IS_SAME_OR_POSITIVE_Y_SHORT_VECTOR,
            &mut stats,
        )?;
        flags.push(f);
    }

    // flag bytes with repeats
    let mut i = 0usize;
    while i < flags.len() {
        let f = flags[i];
        let mut run = 0usize; // identical followers
        while i + 1 + run < flags.len() && flags[i + 1 + run] == f && run < 255 {
            run += 1;
        }
        let take = match enc.repeats {
            Form::Long => None,
            Form::Compact => {
                if run >= 1 {
                    Some(run)
                } else {
                    None
                }
            }
            Form::Mixed => {
                if run == 0 {
                    if ch.one_in(12) {
                        Some(0)
                    } else {
                        None
                    }
                } else {
                    match ch.below(8) {
                        0 => None,
                        1 => Some(ch.below(run + 1)),
                        // just below the maximal run (count bytes 253/254 for long stretches)
                        2 => Some(run - ch.below(run.min(3))),
                        _ => Some(run),
                    }
                }
            }
        };
        match take {
            None => {
                b.u8(f);
                i += 1;
            }
            Some(k) => {
                b.u8(f | flag::REPEAT_FLAG).u8(k as u8);
                stats.repeat_runs += 1;
                if k == 0 {
                    stats.repeat_count_zero += 1;
                }
                stats.repeat_count_max = stats.repeat_count_max.max(k);
                match k {
                    253 => stats.repeat_count_253 += 1,
                    254 => stats.repeat_count_254 += 1,
                    255 => {
                        stats.repeat_count_255 += 1;
                        if flags.get(i + k + 1) == Some(&f) {
                            stats.split_after_full_run += 1;
                        }
                    }
                    _ => {}
                }
                if contour_of[i] != contour_of[i + k] {
                    stats.repeat_spans_contours = true;
                }
                i += k + 1;
            }
        }
    }
    b.bytes(&xbytes.0).bytes(&ybytes.0);
    Ok((b.into_vec(), stats))
}

fn encode_delta(
    d: i32,
    form: Form,
    ch: &mut Chooser,
    out: &mut Buf,
    short: u8,
    same_or_pos: u8,
    stats: &mut SimpleStats,
) -> Result<u8, EncodeError> {
    if d < i16::MIN as i32 || d > i16::MAX as i32 {
        return Err(EncodeError::DeltaOverflow);
    }
    // 0 = same-as-previous, 1 = short positive, 2 = short negative, 3 = long
    let choice = if d == 0 {
        match form {
            Form::Compact => 0,
            Form::Long => 3,
            Form::Mixed => [0, 0, 0, 1, 2, 3][ch.below(6)],
        }
    } else if d.abs() <= 255 {
        let s = if d > 0 { 1 } else { 2 };
        match form {
            Form::Compact => s,
            Form::Long => 3,
            Form::Mixed => [s, s, 3][ch.below(3)],
        }
    } else {
        3
    };
    Ok(match choice {
        0 => {
            stats.same_as_previous += 1;
            same_or_pos
        }
        1 => {
            out.u8(d.unsigned_abs() as u8);
            if d == 0 {
                stats.short_zero += 1;
            } else {
                stats.short_positive += 1;
            }
            short | same_or_pos
        }
        2 => {
            out.u8(d.unsigned_abs() as u8);
            if d == 0 {
                stats.short_zero += 1;
            } else {
                stats.short_negative += 1;
            }
            short
        }
        _ => {
            out.i16(d as i16);
            if d.abs() <= 255 {
                stats.long_redundant += 1;
            } else {
                stats.long_nonzero += 1;
            }
            0
        }
    })
}

/// Encode a composite glyph.
pub fn encode_composite(g: &CompositeGlyph, enc: &Encoding) -> Result<Vec<u8>, EncodeError> {
    if g.components.is_empty() {
        return Err(EncodeError::NoComponents);
    }
    let mut ch = Chooser(mix(enc.seed ^ 0xc0c0));
    let mut b = Buf::new();
    let bbox = g.bbox.unwrap_or((0, 0, 0, 0));
    // any negative numberOfContours marks a composite ("-1 should be used"); mixed encodings
    // write another negative value for one composite in six
    let noc: i16 = if enc.transforms == Form::Mixed && ch.one_in(6) { [-2, -3, -7, -256, -32768, -1 - (1 + ch.below(3000) as i16)][ch.below(6)] } else { -1 };
    b.i16(noc).i16(bbox.0).i16(bbox.1).i16(bbox.2).i16(bbox.3);
    let last = g.components.len() - 1;
    for (i, c) in g.components.iter().enumerate() {
        encode_component(c, i != last, i == last && g.instructions.is_some(), enc, &mut ch, &mut b);
    }
    if let Some(ins) = &g.instructions {
        if ins.len() > 65535 {
            return Err(EncodeError::TooLarge("instructions"));
        }
        b.u16(ins.len() as u16).bytes(ins);
    }
    Ok(b.into_vec())
}

fn encode_component(c: &Component, more: bool, instructions: bool, enc: &Encoding, ch: &mut Chooser, b: &mut Buf) {
    let mut fl = c.flags & !flag::STRUCTURAL;
    if more {
        fl |= flag::MORE_COMPONENTS;
    }
    if instructions {
        fl |= flag::WE_HAVE_INSTRUCTIONS;
    }
    let fits_bytes = match c.anchor {
        Anchor::Offset(dx, dy) => (-128..=127).contains(&dx) && (-128..=127).contains(&dy),
        Anchor::Points(p, q) => p <= 255 && q <= 255,
    };
    let words = !fits_bytes
        || match enc.args {
            Form::Compact => false,
            Form::Long => true,
            Form::Mixed => ch.one_in(2),
        };
    if words {
        fl |= flag::ARG_1_AND_2_ARE_WORDS;
    }
    if matches!(c.anchor, Anchor::Offset(..)) {
        fl |= flag::ARGS_ARE_XY_VALUES;
    }
    // widen the transform if asked to
    let one = 0x4000i16;
    let widen = |t: Transform| match t {
        Transform::None => Transform::Scale(one),
        Transform::Scale(s) => Transform::XY(s, s),
        Transform::XY(x, y) => Transform::Matrix(x, 0, 0, y),
        m => m,
    };
    let mut t = c.transform;
    match enc.transforms {
        Form::Compact => {}
        Form::Long => {
            for _ in 0..3 {
                t = widen(t);
            }
        }
        Form::Mixed => {
            let steps = [0, 0, 0, 1, 1, 2, 3][ch.below(7)];
            for _ in 0..steps {
                t = widen(t);
            }
        }
    }
    fl |= match t {
        Transform::None => 0,
        Transform::Scale(_) => flag::WE_HAVE_A_SCALE,
        Transform::XY(..) => flag::WE_HAVE_AN_X_AND_Y_SCALE,
        Transform::Matrix(..) => flag::WE_HAVE_A_TWO_BY_TWO,
    };
    b.u16(fl).u16(c.glyph);
    match (c.anchor, words) {
        (Anchor::Offset(dx, dy), true) => {
            b.i16(dx).i16(dy);
        }
        (Anchor::Offset(dx, dy), false) => {
            b.i8(dx as i8).i8(dy as i8);
        }
        (Anchor::Points(p, q), true) => {
            b.u16(p).u16(q);
        }
        (Anchor::Points(p, q), false) => {
            b.u8(p as u8).u8(q as u8);
        }
    }
    match t {
        Transform::None => {}
        Transform::Scale(s) => {
            b.i16(s);
        }
        Transform::XY(x, y) => {
            b.i16(x).i16(y);
        }
        Transform::Matrix(xscale, scale01, scale10, yscale) => {
            b.i16(xscale).i16(scale01).i16(scale10).i16(yscale);
        }
    }
}

/// One record per glyph; glyph `i` is encoded with `enc.for_item(i)`.
pub fn encode_records(glyphs: &[Glyph], enc: &Encoding) -> Result<Vec<Vec<u8>>, EncodeError> {
    glyphs.iter().enumerate().map(|(i, g)| encode_glyph(g, &enc.for_item(i))).collect()
}

/// Table layout choices.
#[derive(Clone, Copy, Debug, PartialEq)]
pub struct Layout {
    /// `indexToLocFormat` 1 (32-bit byte offsets) instead of 0 (16-bit offsets / 2)
    pub long_loca: bool,
    /// every non-empty record's span is padded with zeros to a multiple of this (1, 2 or 4;
    /// short loca needs an even value)
    pub align: usize,
    /// up to this many additional `align`-sized zero units are appended to non-empty records
    /// (pseudo-randomly per record, driven by `seed`)
    pub max_extra_units: usize,
    /// unused zero bytes before the first glyph (multiple of `align`)
    pub leading: usize,
    pub seed: u64,
}

impl Layout {
    pub fn short() -> Layout {
        Layout {
            long_loca: false,
            align: 2,
            max_extra_units: 0,
            leading: 0,
            seed: 0,
        }
    }
    pub fn long() -> Layout {
        Layout {
            long_loca: true,
            align: 4,
            max_extra_units: 0,
            leading: 0,
            seed: 0,
        }
    }
}

/// Concatenate records into a glyf table and build the matching loca table
/// (`records.len() + 1` entries). Empty records stay empty (equal consecutive offsets).
pub fn build_glyf_loca(records: &[Vec<u8>], layout: &Layout) -> Result<(Vec<u8>, Vec<u8>), EncodeError> {
    let align = layout.align.max(1);
    if !layout.long_loca && align % 2 != 0 {
        return Err(EncodeError::ShortLoca("odd alignment"));
    }
    let mut ch = Chooser(mix(layout.seed ^ 0x10ca));
    let mut glyf = Buf::new();
    let mut offsets: Vec<usize> = Vec::with_capacity(records.len() + 1);
    glyf.zeros(layout.leading / align * align);
    for r in records {
        offsets.push(glyf.len());
        if r.is_empty() {
            continue;
        }
        glyf.bytes(r);
        glyf.pad_to(align);
        if layout.max_extra_units > 0 {
            let extra = ch.below(layout.max_extra_units + 1);
            glyf.zeros(extra * align);
        }
    }
    offsets.push(glyf.len());
    let mut loca = Buf::new();
    for o in &offsets {
        if layout.long_loca {
            loca.u32(*o as u32);
        } else {
            if *o > 0x1FFFE {
                return Err(EncodeError::ShortLoca("offset above 131070"));
            }
            loca.u16((*o / 2) as u16);
        }
    }
    Ok((glyf.into_vec(), loca.into_vec()))
}

/// Glyph list → (`glyf`, `loca`).
pub fn encode_glyf_table(glyphs: &[Glyph], enc: &Encoding, layout: &Layout) -> Result<(Vec<u8>, Vec<u8>), EncodeError> {
    build_glyf_loca(&encode_records(glyphs, enc)?, layout)
}

#[cfg(test)]
mod tests {
    use super::*;
    use crate::refmodel::glyf::{read_glyf_table, read_glyph};

    #[test]
    fn round_trip_compact() {
        let s = SimpleGlyph::from_contours(vec![
            vec![(0, 0, true), (0, 0, true), (300, -5, false), (300, 250, false)],
            vec![(300, 250, true)],
        ]);
        let (b, st) = encode_simple(&s, &Encoding::compact()).unwrap();
        assert!(st.same_as_previous > 0);
        match read_glyph(&b).unwrap() {
            Glyph::Simple(r) => assert_eq!(r.contours, s.contours),
            _ => panic!(),
        }
        let glyphs = vec![Glyph::Empty, Glyph::Simple(s)];
        let (glyf, loca) = encode_glyf_table(&glyphs, &Encoding::mixed(7), &Layout::short()).unwrap();
        let back = read_glyf_table(&glyf, &loca, false, 2).unwrap();
        assert_eq!(back[0], Glyph::Empty);
    }
}
