//! Encoders for the variation tables of a TrueType variable font, written from the OpenType
//! specification: gvar (packed point numbers, packed deltas, embedded / shared peak tuples,
//! intermediate regions, shared point numbers, short / long offsets), ItemVariationStore,
//! DeltaSetIndexMap, HVAR, MVAR, and a composite glyph record encoder.
//!
//! Every place where the format leaves a choice to the producer (run lengths, element widths,
//! count width, padding, ordering) is driven by a `Choices` stream so that the generator can
//! explore the encodings; all choices produce files that are valid per the specification.

use super::buf::Buf;
use crate::refmodel::varmodel::{implied_axis_region, Region, TupleVar};

/// Deterministic stream of small choices (splitmix64).
#[derive(Clone, Debug)]
pub struct Choices(pub u64);

impl Choices {
    pub fn new(seed: u64) -> Choices {
        Choices(seed)
    }
    pub fn next(&mut self) -> u64 {
        self.0 = self.0.wrapping_add(0x9e3779b97f4a7c15);
        let mut z = self.0;
        z = (z ^ (z >> 30)).wrapping_mul(0xbf58476d1ce4e5b9);
        z = (z ^ (z >> 27)).wrapping_mul(0x94d049bb133111eb);
        z ^ (z >> 31)
    }
    /// uniform in 0..n (n ≥ 1)
    pub fn below(&mut self, n: usize) -> usize {
        ((self.next() >> 32) as usize * n) >> 32
    }
    /// true with probability num/den
    pub fn chance(&mut self, num: usize, den: usize) -> bool {
        self.below(den) < num
    }
}

// ------------------------------------------------------------------ packed point numbers

/// Packed "point" numbers for an explicit, strictly increasing list. Free choices: one- or
/// two-byte count (two-byte form also for small counts), run lengths 1..=128, byte or word
/// elements (bytes only where every difference of the run fits).
pub fn pack_points(points: &[u16], ch: &mut Choices, stats: &mut EncStats) -> Vec<u8> {
    assert!(!points.is_empty() && points.len() < 0x8000);
    let mut b = Buf::new();
    let n = points.len();
    if n >= 128 || ch.chance(1, 8) {
        b.u8(0x80 | (n >> 8) as u8).u8((n & 0xFF) as u8);
        if n < 128 {
            stats.count_two_byte_small += 1;
        } else {
            stats.count_two_byte += 1;
        }
    } else {
        b.u8(n as u8);
    }
    let mut diffs = Vec::with_capacity(n);
    let mut prev = 0u16;
    for p in points {
        diffs.push(p - prev);
        prev = *p;
    }
    let mut i = 0usize;
    while i < n {
        let max_run = (n - i).min(128);
        let mut run = match ch.below(4) {
            0 => 1 + ch.below(max_run),
            1 => 1 + ch.below(max_run.min(4)),
            _ => max_run,
        };
        let want_words = ch.chance(1, 5);
        let mut words = want_words;
        if !words {
            // bytes: cut the run at the first difference that needs a word (or switch to words
            // if that is the first element)
            if diffs[i] > 255 {
                words = true;
            } else {
                let fit = diffs[i..i + run].iter().take_while(|d| **d <= 255).count();
                run = fit;
            }
        }
        if words {
            stats.point_word_runs += 1;
            b.u8(0x80 | (run - 1) as u8);
            for d in &diffs[i..i + run] {
                b.u16(*d);
            }
        } else {
            stats.point_byte_runs += 1;
            b.u8((run - 1) as u8);
            for d in &diffs[i..i + run] {
                b.u8(*d as u8);
            }
        }
        if run == 128 {
            stats.point_run_128 += 1;
            if words {
                stats.point_word_run_128 += 1;
            }
        }
        i += run;
    }
    b.into_vec()
}

// ------------------------------------------------------------------ packed deltas

/// Packed deltas. Free choices: run lengths 1..=64; a run of zeros as a zero run, a byte run or
/// a word run; byte-sized values as byte or word run.
pub fn pack_deltas(deltas: &[i16], ch: &mut Choices, stats: &mut EncStats) -> Vec<u8> {
    let mut b = Buf::new();
    let n = deltas.len();
    let mut i = 0usize;
    while i < n {
        let max_run = (n - i).min(64);
        let want = match ch.below(4) {
            0 => 1 + ch.below(max_run),
            1 => 1 + ch.below(max_run.min(3)),
            _ => max_run,
        };
        // widest kind needed by the first element decides what kinds are possible
        let kind_pref = ch.below(8); // 0: force words, 1: force at least bytes, else minimal
        let fits_zero = |d: i16| d == 0;
        let fits_byte = |d: i16| (-128..=127).contains(&d);
        let first = deltas[i];
        let kind = if kind_pref == 0 || !fits_byte(first) {
            2
        } else if kind_pref == 1 || !fits_zero(first) {
            1
        } else {
            0
        };
        let fit = deltas[i..i + want]
            .iter()
            .take_while(|d| match kind {
                0 => fits_zero(**d),
                1 => fits_byte(**d),
                _ => true,
            })
            .count();
        // minimal packing would not continue a byte/word run over values of a smaller class,
        // but doing so is legal; keep `fit` as computed.
        let run = fit.max(1);
        match kind {
            0 => {
                stats.delta_zero_runs += 1;
                b.u8(0x80 | (run - 1) as u8);
            }
            1 => {
                stats.delta_byte_runs += 1;
                b.u8((run - 1) as u8);
                for d in &deltas[i..i + run] {
                    b.i8(*d as i8);
                }
            }
            _ => {
                stats.delta_word_runs += 1;
                b.u8(0x40 | (run - 1) as u8);
                for d in &deltas[i..i + run] {
                    b.i16(*d);
                }
            }
        }
        if run == 64 {
            stats.delta_run_64 += 1;
            match kind {
                0 => stats.delta_zero_run_64 += 1,
                2 => stats.delta_word_run_64 += 1,
                _ => {}
            }
        }
        i += run;
    }
    b.into_vec()
}

#[derive(Clone, Debug, Default)]
pub struct EncStats {
    pub count_two_byte: u32,
    pub count_two_byte_small: u32,
    pub point_byte_runs: u32,
    pub point_word_runs: u32,
    pub point_run_128: u32,
    pub delta_zero_runs: u32,
    pub delta_byte_runs: u32,
    pub delta_word_runs: u32,
    pub delta_run_64: u32,
    pub shared_peaks: u32,
    pub embedded_peaks: u32,
    pub intermediate: u32,
    pub private_points: u32,
    pub shared_points: u32,
    pub all_points: u32,
    pub point_word_run_128: u32,
    pub delta_zero_run_64: u32,
    pub delta_word_run_64: u32,
}

// ------------------------------------------------------------------ gvar

/// One tuple variation plus the way it is to be written.
#[derive(Clone, Debug)]
pub struct TupleEnc {
    pub var: TupleVar,
    /// write explicit intermediate start/end tuples (mandatory when the region is not the
    /// one implied by the peak; optional otherwise)
    pub intermediate: bool,
    /// take the peak from the shared tuple array (else embed it)
    pub share_peak: bool,
    /// use the glyph's shared point numbers (the caller guarantees var.points equals them)
    pub use_shared_points: bool,
}

#[derive(Clone, Debug, Default)]
pub struct GlyphVarEnc {
    /// shared point numbers of this glyph's variation data: None = flag not set;
    /// Some(None) = "all points"; Some(Some(list)) = explicit list
    pub shared_points: Option<Option<Vec<u16>>>,
    pub tuples: Vec<TupleEnc>,
    /// unused bytes between the tuple variation headers and the serialized data
    pub data_gap: usize,
}

pub fn region_is_implied(region: &Region) -> bool {
    region.iter().all(|r| *r == implied_axis_region(r.peak))
}

/// cvar table: version, then a tuple variation store whose data offset counts from the start
/// of the table. Peaks are always embedded; each delta is a single value (`deltas[i].0`).
pub fn cvar_table(axis_count: usize, g: &GlyphVarEnc, ch: &mut Choices, stats: &mut EncStats) -> Vec<u8> {
    let mut b = Buf::new();
    b.u16(1).u16(0);
    b.bytes(&tuple_variation_store(axis_count, g, &[], ch, stats, true));
    b.into_vec()
}

/// GlyphVariationData table of one glyph (empty Vec when it has no tuples).
fn glyph_variation_data(
    axis_count: usize,
    g: &GlyphVarEnc,
    shared_tuples: &[Vec<i16>],
    ch: &mut Choices,
    stats: &mut EncStats,
) -> Vec<u8> {
    if g.tuples.is_empty() {
        return Vec::new();
    }
    tuple_variation_store(axis_count, g, shared_tuples, ch, stats, false)
}

fn tuple_variation_store(
    axis_count: usize,
    g: &GlyphVarEnc,
    shared_tuples: &[Vec<i16>],
    ch: &mut Choices,
    stats: &mut EncStats,
    cvar: bool,
) -> Vec<u8> {
    let mut headers = Buf::new();
    let mut data = Buf::new();
    if let Some(sp) = &g.shared_points {
        match sp {
            None => {
                data.u8(0);
            }
            Some(list) => {
                data.bytes(&pack_points(list, ch, stats));
            }
        }
    }
    for t in &g.tuples {
        assert_eq!(t.var.region.len(), axis_count);
        let mut td = Buf::new();
        let mut flags = 0u16;
        if t.use_shared_points {
            assert!(g.shared_points.is_some());
            stats.shared_points += 1;
        } else {
            flags |= 0x2000;
            match &t.var.points {
                None => {
                    td.u8(0);
                    stats.all_points += 1;
                }
                Some(list) => {
                    td.bytes(&pack_points(list, ch, stats));
                    stats.private_points += 1;
                }
            }
        }
        let xs: Vec<i16> = t.var.deltas.iter().map(|d| d.0).collect();
        let ys: Vec<i16> = t.var.deltas.iter().map(|d| d.1).collect();
        td.bytes(&pack_deltas(&xs, ch, stats));
        if !cvar {
            td.bytes(&pack_deltas(&ys, ch, stats));
        }
        let peak: Vec<i16> = t.var.region.iter().map(|r| r.peak).collect();
        let index: u16;
        let shared_ix = if t.share_peak && !cvar { shared_tuples.iter().position(|s| *s == peak) } else { None };
        match shared_ix {
            Some(ix) => {
                index = ix as u16;
                stats.shared_peaks += 1;
            }
            None => {
                flags |= 0x8000;
                stats.embedded_peaks += 1;
                // the index bits are ignored when the peak is embedded: any value is legal
                index = (ch.below(3) as u16) * 7;
            }
        }
        let inter = t.intermediate || !region_is_implied(&t.var.region);
        if inter {
            flags |= 0x4000;
            stats.intermediate += 1;
        }
        assert!(td.len() <= 0xFFFF);
        headers.u16(td.len() as u16).u16(flags | (index & 0x0FFF));
        if flags & 0x8000 != 0 {
            for p in &peak {
                headers.i16(*p);
            }
        }
        if inter {
            for r in &t.var.region {
                headers.i16(r.start);
            }
            for r in &t.var.region {
                headers.i16(r.end);
            }
        }
        data.bytes(&td.0);
    }
    let mut b = Buf::new();
    let count = g.tuples.len() as u16;
    let fc = count | if g.shared_points.is_some() { 0x8000 } else { 0 };
    // gvar: from the start of the GlyphVariationData table; cvar: from the start of the table
    let data_off = 4 + headers.len() + g.data_gap + if cvar { 4 } else { 0 };
    assert!(data_off <= 0xFFFF);
    b.u16(fc).u16(data_off as u16).bytes(&headers.0);
    for _ in 0..g.data_gap {
        b.u8(0xA5);
    }
    b.bytes(&data.0);
    b.into_vec()
}

/// gvar table. `shared_tuples` is written as given (entries may be unused). With short offsets
/// every glyph's data is padded to an even length; with long offsets the padding is a free
/// choice (0..=3 bytes).
pub fn gvar_table(
    axis_count: usize,
    glyphs: &[GlyphVarEnc],
    shared_tuples: &[Vec<i16>],
    long_offsets: bool,
    ch: &mut Choices,
    stats: &mut EncStats,
) -> Vec<u8> {
    let mut array = Buf::new();
    let mut offs: Vec<usize> = vec![0];
    for g in glyphs {
        let d = glyph_variation_data(axis_count, g, shared_tuples, ch, stats);
        array.bytes(&d);
        if long_offsets {
            if !d.is_empty() {
                let pad = ch.below(4);
                array.zeros(pad);
            }
        } else {
            array.pad_to(2);
        }
        offs.push(array.len());
    }
    let long = long_offsets || array.len() / 2 > 0xFFFF;
    let header_len = 20 + (glyphs.len() + 1) * if long { 4 } else { 2 };
    let shared_len = shared_tuples.len() * axis_count * 2;
    // layout: header, offsets, shared tuples, (gap), data array — or the data array first
    let array_first = ch.chance(1, 4);
    let gap = if ch.chance(1, 4) { 2 * ch.below(3) } else { 0 };
    let (shared_off, array_off) = if array_first {
        (header_len + array.len() + gap, header_len)
    } else {
        (header_len, header_len + shared_len + gap)
    };
    let mut b = Buf::new();
    b.u16(1).u16(0).u16(axis_count as u16).u16(shared_tuples.len() as u16);
    b.u32(shared_off as u32);
    b.u16(glyphs.len() as u16).u16(if long { 1 } else { 0 });
    b.u32(array_off as u32);
    for o in &offs {
        if long {
            b.u32(*o as u32);
        } else {
            b.u16((*o / 2) as u16);
        }
    }
    let mut shared = Buf::new();
    for t in shared_tuples {
        assert_eq!(t.len(), axis_count);
        for v in t {
            shared.i16(*v);
        }
    }
    if array_first {
        b.bytes(&array.0).zeros(gap).bytes(&shared.0);
    } else {
        b.bytes(&shared.0).zeros(gap).bytes(&array.0);
    }
    b.into_vec()
}

// ------------------------------------------------------------------ item variation store

#[derive(Clone, Debug)]
pub struct IvdEnc {
    pub region_indexes: Vec<u16>,
    /// number of leading columns written as words
    pub word_count: u16,
    /// LONG_WORDS: words are int32, the remaining columns int16
    pub long_words: bool,
    pub rows: Vec<Vec<i32>>,
}

impl IvdEnc {
    /// Order the columns so that every column that needs the wide type comes first and pick a
    /// word count ≥ the number of such columns (`extra_words` more, capped).
    pub fn normalise(region_indexes: Vec<u16>, rows: Vec<Vec<i32>>, long_words: bool, extra_words: usize) -> IvdEnc {
        let ncol = region_indexes.len();
        let (lo, hi) = if long_words { (-32768i32, 32767i32) } else { (-128i32, 127i32) };
        let needs: Vec<bool> = (0..ncol).map(|c| rows.iter().any(|r| r[c] < lo || r[c] > hi)).collect();
        let mut order: Vec<usize> = (0..ncol).filter(|c| needs[*c]).collect();
        let wide = order.len();
        order.extend((0..ncol).filter(|c| !needs[*c]));
        IvdEnc {
            region_indexes: order.iter().map(|c| region_indexes[*c]).collect(),
            word_count: (wide + extra_words).min(ncol) as u16,
            long_words,
            rows: rows.iter().map(|r| order.iter().map(|c| r[*c]).collect()).collect(),
        }
    }
}

pub fn item_variation_store(axis_count: usize, regions: &[Region], subtables: &[IvdEnc]) -> Vec<u8> {
    let mut b = Buf::new();
    let header = 8 + 4 * subtables.len();
    b.u16(1).u32(header as u32).u16(subtables.len() as u16);
    let mut rl = Buf::new();
    rl.u16(axis_count as u16).u16(regions.len() as u16);
    for r in regions {
        assert_eq!(r.len(), axis_count);
        for a in r {
            rl.i16(a.start).i16(a.peak).i16(a.end);
        }
    }
    let mut subs: Vec<Vec<u8>> = Vec::new();
    for s in subtables {
        let mut d = Buf::new();
        d.u16(s.rows.len() as u16);
        d.u16(s.word_count | if s.long_words { 0x8000 } else { 0 });
        d.u16(s.region_indexes.len() as u16);
        for r in &s.region_indexes {
            d.u16(*r);
        }
        for row in &s.rows {
            assert_eq!(row.len(), s.region_indexes.len());
            for (k, v) in row.iter().enumerate() {
                let wide = k < s.word_count as usize;
                match (s.long_words, wide) {
                    (false, true) => {
                        d.i16(*v as i16);
                    }
                    (false, false) => {
                        d.i8(*v as i8);
                    }
                    (true, true) => {
                        d.i32(*v);
                    }
                    (true, false) => {
                        d.i16(*v as i16);
                    }
                }
            }
        }
        subs.push(d.into_vec());
    }
    let mut off = header + rl.len();
    for s in &subs {
        b.u32(off as u32);
        off += s.len();
    }
    b.bytes(&rl.0);
    for s in &subs {
        b.bytes(s);
    }
    b.into_vec()
}

/// DeltaSetIndexMap. `inner_bits` in 1..=16, `entry_size` in 1..=4; the caller guarantees that
/// every entry fits. `format` 0 (16-bit count) or 1 (32-bit count).
pub fn delta_set_index_map(entries: &[(u16, u16)], inner_bits: u8, entry_size: u8, format: u8) -> Vec<u8> {
    assert!((1..=16).contains(&inner_bits) && (1..=4).contains(&entry_size));
    let mut b = Buf::new();
    b.u8(format).u8(((entry_size - 1) << 4) | (inner_bits - 1));
    if format == 0 {
        b.u16(entries.len() as u16);
    } else {
        b.u32(entries.len() as u32);
    }
    for (o, i) in entries {
        let v: u64 = ((*o as u64) << inner_bits) | *i as u64;
        assert!(v < 1u64 << (8 * entry_size as u32));
        assert!((*i as u32) < 1u32 << inner_bits);
        for k in (0..entry_size).rev() {
            b.u8((v >> (8 * k as u32)) as u8);
        }
    }
    b.into_vec()
}

/// smallest (inner_bits, entry_size) that can hold all entries
pub fn min_map_format(entries: &[(u16, u16)]) -> (u8, u8) {
    let max_inner = entries.iter().map(|e| e.1).max().unwrap_or(0) as u32;
    let max_outer = entries.iter().map(|e| e.0).max().unwrap_or(0) as u32;
    let ib = (32 - max_inner.leading_zeros()).max(1) as u8;
    let ob = 32 - max_outer.leading_zeros();
    let total = ib as u32 + ob;
    (ib, ((total + 7) / 8).max(1) as u8)
}

pub fn hvar_table(ivs: &[u8], adv_map: Option<&[u8]>, lsb_map: Option<&[u8]>, rsb_map: Option<&[u8]>) -> Vec<u8> {
    let mut b = Buf::new();
    let mut off = 20usize;
    let ivs_off = off;
    off += ivs.len();
    let mut place = |m: Option<&[u8]>| -> u32 {
        match m {
            None => 0,
            Some(d) => {
                let o = off;
                off += d.len();
                o as u32
            }
        }
    };
    let (a, l, r) = (place(adv_map), place(lsb_map), place(rsb_map));
    b.u16(1).u16(0).u32(ivs_off as u32).u32(a).u32(l).u32(r);
    b.bytes(ivs);
    for m in [adv_map, lsb_map, rsb_map].into_iter().flatten() {
        b.bytes(m);
    }
    b.into_vec()
}

/// MVAR. Records are sorted by tag here. `record_size` ≥ 8.
pub fn mvar_table(records: &[([u8; 4], u16, u16)], record_size: u16, ivs: Option<&[u8]>) -> Vec<u8> {
    assert!(record_size >= 8);
    let mut recs = records.to_vec();
    recs.sort_by(|a, b| a.0.cmp(&b.0));
    let mut b = Buf::new();
    let store_off = 12 + recs.len() * record_size as usize;
    b.u16(1).u16(0).u16(0).u16(record_size).u16(recs.len() as u16);
    b.u16(if ivs.is_some() { store_off as u16 } else { 0 });
    for (t, o, i) in &recs {
        b.tag(t).u16(*o).u16(*i);
        b.zeros(record_size as usize - 8);
    }
    if let Some(s) = ivs {
        b.bytes(s);
    }
    b.into_vec()
}

// ------------------------------------------------------------------ composite glyph record

#[derive(Clone, Debug, PartialEq)]
pub enum CompArgs {
    /// x/y offset (ARGS_ARE_XY_VALUES)
    Offset(i16, i16),
    /// (point of the composite so far, point of the component)
    Points(u16, u16),
}

#[derive(Clone, Debug, PartialEq)]
pub struct ComponentEnc {
    pub glyph: u16,
    pub args: CompArgs,
    /// write the arguments as words even when they fit bytes
    pub force_words: bool,
    pub round_to_grid: bool,
    /// raw 2.14 transform words in file order: none, [scale], [xscale, yscale] or
    /// [xscale, scale01, scale10, yscale]
    pub transform: Vec<i16>,
    /// SCALED_COMPONENT_OFFSET (0x0800)
    pub scaled_offset: bool,
}

/// glyf record of a composite glyph without instructions.
pub fn glyf_composite(bbox: (i16, i16, i16, i16), comps: &[ComponentEnc]) -> Vec<u8> {
    let mut b = Buf::new();
    b.i16(-1).i16(bbox.0).i16(bbox.1).i16(bbox.2).i16(bbox.3);
    for (i, c) in comps.iter().enumerate() {
        let mut flags = 0u16;
        if i + 1 < comps.len() {
            flags |= 0x0020;
        }
        if c.round_to_grid {
            flags |= 0x0004;
        }
        flags |= match c.transform.len() {
            0 => 0,
            1 => 0x0008,
            2 => 0x0040,
            4 => 0x0080,
            n => panic!("composite transform of {} words", n),
        };
        if c.scaled_offset {
            flags |= 0x0800;
        }
        let (a1, a2, xy) = match c.args {
            CompArgs::Offset(x, y) => (x as i32, y as i32, true),
            CompArgs::Points(p, q) => (p as i32, q as i32, false),
        };
        if xy {
            flags |= 0x0002;
        }
        let fits = if xy { (-128..=127).contains(&a1) && (-128..=127).contains(&a2) } else { a1 <= 255 && a2 <= 255 };
        let words = c.force_words || !fits;
        if words {
            flags |= 0x0001;
        }
        b.u16(flags).u16(c.glyph);
        if words {
            b.u16(a1 as u16).u16(a2 as u16);
        } else {
            b.u8(a1 as u8).u8(a2 as u8);
        }
        for w in &c.transform {
            b.i16(*w);
        }
    }
    b.into_vec()
}
