//! Straightforward encoders for the tables every complete font needs, and `BasicFont`, a
//! minimal complete TrueType font assembled from a small model. Written from the OpenType
//! specification; richer, choice-exploring encoders live in the per-topic modules.

use super::buf::Buf;
use super::sfnt::{build_sfnt, Tag, TTF};
use std::collections::BTreeMap;

/// One contour point: (x, y, on_curve), absolute coordinates.
pub type Pt = (i16, i16, bool);

#[derive(Clone, Debug, Default, PartialEq)]
pub struct SimpleGlyph {
    pub contours: Vec<Vec<Pt>>,
    pub instructions: Vec<u8>,
}

impl SimpleGlyph {
    pub fn is_empty(&self) -> bool {
        self.contours.iter().all(|c| c.is_empty())
    }
    pub fn bbox(&self) -> (i16, i16, i16, i16) {
        let pts: Vec<&Pt> = self.contours.iter().flatten().collect();
        if pts.is_empty() {
            return (0, 0, 0, 0);
        }
        (
            pts.iter().map(|p| p.0).min().unwrap(),
            pts.iter().map(|p| p.1).min().unwrap(),
            pts.iter().map(|p| p.0).max().unwrap(),
            pts.iter().map(|p| p.1).max().unwrap(),
        )
    }
    /// a rectangle (x0,y0)-(x1,y1)
    pub fn rect(x0: i16, y0: i16, x1: i16, y1: i16) -> SimpleGlyph {
        SimpleGlyph {
            contours: vec![vec![(x0, y0, true), (x0, y1, true), (x1, y1, true), (x1, y0, true)]],
            instructions: vec![],
        }
    }
}

/// glyf entry for a simple glyph: plain long form (no repeat flags, 16-bit deltas unless zero).
/// An empty glyph is encoded as zero bytes.
pub fn glyf_simple(g: &SimpleGlyph) -> Vec<u8> {
    if g.is_empty() {
        return Vec::new();
    }
    let mut b = Buf::new();
    let (x0, y0, x1, y1) = g.bbox();
    let contours: Vec<&Vec<Pt>> = g.contours.iter().filter(|c| !c.is_empty()).collect();
    b.i16(contours.len() as i16).i16(x0).i16(y0).i16(x1).i16(y1);
    let mut end = 0usize;
    for c in &contours {
        end += c.len();
        b.u16((end - 1) as u16);
    }
    b.u16(g.instructions.len() as u16).bytes(&g.instructions);
    let pts: Vec<Pt> = contours.iter().flat_map(|c| c.iter().copied()).collect();
    for p in &pts {
        b.u8(if p.2 { 1 } else { 0 });
    }
    let mut prev = 0i16;
    for p in &pts {
        b.i16(p.0.wrapping_sub(prev));
        prev = p.0;
    }
    prev = 0;
    for p in &pts {
        b.i16(p.1.wrapping_sub(prev));
        prev = p.1;
    }
    b.into_vec()
}

/// Concatenate glyph records (each padded to 4 bytes when `long`, 2 otherwise) and build loca.
pub fn glyf_loca(glyphs: &[Vec<u8>], long: bool) -> (Vec<u8>, Vec<u8>) {
    let mut glyf = Buf::new();
    let mut loca = Buf::new();
    for g in glyphs {
        if long {
            loca.u32(glyf.len() as u32);
        } else {
            loca.u16((glyf.len() / 2) as u16);
        }
        glyf.bytes(g);
        glyf.pad_to(if long { 4 } else { 2 });
    }
    if long {
        loca.u32(glyf.len() as u32);
    } else {
        loca.u16((glyf.len() / 2) as u16);
    }
    (glyf.into_vec(), loca.into_vec())
}

pub fn head(units_per_em: u16, long_loca: bool, bbox: (i16, i16, i16, i16)) -> Vec<u8> {
    let mut b = Buf::new();
    b.u16(1).u16(0); // version
    b.u32(0x0001_0000); // fontRevision
    b.u32(0); // checkSumAdjustment
    b.u32(0x5F0F_3CF5); // magic
    b.u16(0x000B); // flags
    b.u16(units_per_em);
    b.i64(3_600_000_000).i64(3_600_000_000);
    b.i16(bbox.0).i16(bbox.1).i16(bbox.2).i16(bbox.3);
    b.u16(0); // macStyle
    b.u16(8); // lowestRecPPEM
    b.i16(2); // fontDirectionHint
    b.i16(if long_loca { 1 } else { 0 });
    b.i16(0);
    b.into_vec()
}

pub fn hhea(ascender: i16, descender: i16, advance_max: u16, num_h_metrics: u16) -> Vec<u8> {
    let mut b = Buf::new();
    b.u16(1).u16(0).i16(ascender).i16(descender).i16(0);
    b.u16(advance_max).i16(0).i16(0).i16(advance_max as i16);
    b.i16(1).i16(0).i16(0);
    b.i16(0).i16(0).i16(0).i16(0);
    b.i16(0);
    b.u16(num_h_metrics);
    b.into_vec()
}

pub fn maxp_v1(num_glyphs: u16) -> Vec<u8> {
    let mut b = Buf::new();
    b.u32(0x0001_0000).u16(num_glyphs);
    // maxPoints, maxContours, maxCompositePoints, maxCompositeContours, maxZones,
    // maxTwilightPoints, maxStorage, maxFunctionDefs, maxInstructionDefs, maxStackElements,
    // maxSizeOfInstructions, maxComponentElements, maxComponentDepth
    for v in [64u16, 8, 128, 16, 2, 0, 0, 0, 0, 64, 0, 8, 8] {
        b.u16(v);
    }
    b.into_vec()
}

pub fn maxp_v05(num_glyphs: u16) -> Vec<u8> {
    let mut b = Buf::new();
    b.u32(0x0000_5000).u16(num_glyphs);
    b.into_vec()
}

/// hmtx: `metrics` has one (advance, lsb) per glyph; the first `num_h_metrics` are written as
/// long metrics, the rest as bare left side bearings.
pub fn hmtx(metrics: &[(u16, i16)], num_h_metrics: u16) -> Vec<u8> {
    let mut b = Buf::new();
    for (i, (adv, lsb)) in metrics.iter().enumerate() {
        if i < num_h_metrics as usize {
            b.u16(*adv).i16(*lsb);
        } else {
            b.i16(*lsb);
        }
    }
    b.into_vec()
}

pub fn post_v3() -> Vec<u8> {
    let mut b = Buf::new();
    b.u32(0x0003_0000).u32(0).i16(-100).i16(50).u32(0).u32(0).u32(0).u32(0).u32(0);
    b.into_vec()
}

/// name table format 0 with Windows/Unicode BMP English records.
pub fn name_table(records: &[(u16, &str)]) -> Vec<u8> {
    let mut strings = Buf::new();
    let mut recs = Buf::new();
    let mut sorted: Vec<&(u16, &str)> = records.iter().collect();
    sorted.sort_by_key(|r| r.0);
    for (id, s) in sorted {
        let enc: Vec<u8> = s.encode_utf16().flat_map(|u| u.to_be_bytes()).collect();
        recs.u16(3).u16(1).u16(0x409).u16(*id).u16(enc.len() as u16).u16(strings.len() as u16);
        strings.bytes(&enc);
    }
    let mut b = Buf::new();
    b.u16(0).u16(records.len() as u16).u16((6 + 12 * records.len()) as u16);
    b.bytes(&recs.0).bytes(&strings.0);
    b.into_vec()
}

pub fn name_minimal() -> Vec<u8> {
    name_table(&[(1, "Verif"), (2, "Regular"), (3, "Verif Regular"), (4, "Verif Regular"), (6, "Verif-Regular")])
}

/// OS/2 version 4 (96 bytes).
pub fn os2_v4(first_char: u16, last_char: u16, weight: u16) -> Vec<u8> {
    let mut b = Buf::new();
    b.u16(4).i16(500).u16(weight).u16(5).u16(0);
    for _ in 0..10 {
        b.i16(0); // subscript/superscript/strikeout
    }
    b.i16(0); // sFamilyClass
    b.bytes(&[0u8; 10]); // panose
    b.u32(1).u32(0).u32(0).u32(0); // unicode ranges
    b.tag(b"VRIF");
    b.u16(0x0040); // fsSelection: regular
    b.u16(first_char).u16(last_char);
    b.i16(800).i16(-200).i16(90); // typo asc/desc/linegap
    b.u16(800).u16(200); // win asc/desc
    b.u32(1).u32(0); // code page ranges
    b.i16(500).i16(700).u16(0).u16(32).u16(1); // xHeight capHeight default break maxContext
    b.into_vec()
}

/// cmap format 4 subtable: one segment per run of consecutive codes with consecutive glyph
/// ids (idDelta addressing only), terminated by the mandatory 0xFFFF segment.
pub fn cmap_format4(map: &BTreeMap<u16, u16>) -> Vec<u8> {
    let mut segs: Vec<(u16, u16, u16)> = Vec::new(); // start, end, start gid
    for (&c, &g) in map {
        if c == 0xFFFF {
            continue;
        }
        if let Some(last) = segs.last_mut() {
            if last.1.wrapping_add(1) == c && last.2.wrapping_add(last.1 - last.0).wrapping_add(1) == g {
                last.1 = c;
                continue;
            }
        }
        segs.push((c, c, g));
    }
    let last_gid = map.get(&0xFFFF).copied();
    let n = segs.len() as u16 + 1;
    let (sr, es, rs) = super::sfnt::search_fields(n, 2);
    let mut b = Buf::new();
    b.u16(4).u16(16 + 8 * n).u16(0).u16(n * 2).u16(sr).u16(es).u16(rs);
    for s in &segs {
        b.u16(s.1);
    }
    b.u16(0xFFFF).u16(0);
    for s in &segs {
        b.u16(s.0);
    }
    b.u16(0xFFFF);
    for s in &segs {
        b.u16(s.2.wrapping_sub(s.0));
    }
    b.u16(match last_gid {
        Some(g) => g.wrapping_sub(0xFFFF),
        None => 1,
    });
    for _ in 0..n {
        b.u16(0);
    }
    b.into_vec()
}

/// cmap format 12 subtable: one group per run.
pub fn cmap_format12(map: &BTreeMap<u32, u16>) -> Vec<u8> {
    let mut groups: Vec<(u32, u32, u32)> = Vec::new();
    for (&c, &g) in map {
        if let Some(last) = groups.last_mut() {
            if last.1 + 1 == c && last.2 + (last.1 - last.0) + 1 == g as u32 {
                last.1 = c;
                continue;
            }
        }
        groups.push((c, c, g as u32));
    }
    let mut b = Buf::new();
    b.u16(12).u16(0).u32(16 + 12 * groups.len() as u32).u32(0).u32(groups.len() as u32);
    for g in &groups {
        b.u32(g.0).u32(g.1).u32(g.2);
    }
    b.into_vec()
}

/// cmap table from (platform, encoding, subtable) records; records are sorted as required and
/// each subtable is stored once.
pub fn cmap_table(records: &[(u16, u16, Vec<u8>)]) -> Vec<u8> {
    let mut recs: Vec<&(u16, u16, Vec<u8>)> = records.iter().collect();
    recs.sort_by_key(|r| (r.0, r.1));
    let mut b = Buf::new();
    b.u16(0).u16(recs.len() as u16);
    let mut off = 4 + 8 * recs.len();
    for r in &recs {
        b.u16(r.0).u16(r.1).u32(off as u32);
        off += r.2.len();
    }
    for r in &recs {
        b.bytes(&r.2);
    }
    b.into_vec()
}

/// A minimal complete TrueType font.
#[derive(Clone, Debug)]
pub struct BasicFont {
    /// glyph 0 is .notdef; every entry is a ready-made glyf record (simple or composite)
    pub glyph_records: Vec<Vec<u8>>,
    /// (advance, lsb) per glyph
    pub metrics: Vec<(u16, i16)>,
    pub num_h_metrics: u16,
    /// Unicode code point -> glyph id
    pub cmap: BTreeMap<u32, u16>,
    pub long_loca: bool,
    pub units_per_em: u16,
    /// additional tables (GSUB, GPOS, GDEF, kern, fvar, ...); a tag listed here replaces the
    /// generated table of the same tag
    pub extra: Vec<(Tag, Vec<u8>)>,
}

impl BasicFont {
    /// `n` glyphs: .notdef plus rectangles of increasing width; advance 500+10*i.
    pub fn with_glyphs(n: u16) -> BasicFont {
        let mut glyph_records = Vec::new();
        let mut metrics = Vec::new();
        for i in 0..n {
            let g = SimpleGlyph::rect(50, 0, 150 + (i % 200) as i16, 700);
            glyph_records.push(glyf_simple(&g));
            metrics.push((500 + 10 * (i % 100), 50));
        }
        BasicFont {
            glyph_records,
            metrics,
            num_h_metrics: n,
            cmap: BTreeMap::new(),
            long_loca: false,
            units_per_em: 1000,
            extra: Vec::new(),
        }
    }

    pub fn num_glyphs(&self) -> u16 {
        self.glyph_records.len() as u16
    }

    pub fn tables(&self) -> Vec<(Tag, Vec<u8>)> {
        let n = self.num_glyphs();
        let (glyf, loca) = glyf_loca(&self.glyph_records, self.long_loca);
        let bmp: BTreeMap<u16, u16> = self
            .cmap
            .iter()
            .filter(|(c, _)| **c <= 0xFFFF)
            .map(|(c, g)| (*c as u16, *g))
            .collect();
        let mut cmap_records = vec![(3u16, 1u16, cmap_format4(&bmp))];
        if self.cmap.keys().any(|c| *c > 0xFFFF) {
            cmap_records.push((3, 10, cmap_format12(&self.cmap)));
        }
        let first = bmp.keys().next().copied().unwrap_or(0x20);
        let last = bmp.keys().last().copied().unwrap_or(0x20);
        let adv_max = self.metrics.iter().map(|m| m.0).max().unwrap_or(0);
        let mut tables: Vec<(Tag, Vec<u8>)> = vec![
            (*b"head", head(self.units_per_em, self.long_loca, (0, -200, 1000, 800))),
            (*b"hhea", hhea(800, -200, adv_max, self.num_h_metrics.min(n).max(1))),
            (*b"maxp", maxp_v1(n)),
            (*b"hmtx", hmtx(&self.metrics, self.num_h_metrics.min(n).max(1))),
            (*b"cmap", cmap_table(&cmap_records)),
            (*b"glyf", glyf),
            (*b"loca", loca),
            (*b"name", name_minimal()),
            (*b"OS/2", os2_v4(first, last, 400)),
            (*b"post", post_v3()),
        ];
        for (t, d) in &self.extra {
            if let Some(e) = tables.iter_mut().find(|e| &e.0 == t) {
                e.1 = d.clone();
            } else {
                tables.push((*t, d.clone()));
            }
        }
        tables
    }

    pub fn build(&self) -> Vec<u8> {
        build_sfnt(TTF, &self.tables())
    }
}
