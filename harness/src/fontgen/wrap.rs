//! Put a complete sfnt font (a list of tables) into every container allsorts reads — WOFF 1.0,
//! WOFF2 (null-transformed or transformed glyf/loca, plain or transformed hmtx), WOFF2
//! collections and TTC files in which the font is member i of several, sharing tables with its
//! neighbours — using only the harness's own encoders (`container`, `woff2`). Written for the
//! subsetting checks (C07, usable by C08): the font is subset THROUGH the container's table
//! provider and compared with the bare tables it was wrapped from.
//!
//! Only conformant layouts are produced (container conformance is C10/C11's subject). The one
//! WOFF2 feature that is avoided on purpose is hmtx transform flag bit 1 (known finding
//! `C11:hmtx-lsb-array-not-skipping-long-metrics`).

use super::basic::{self, BasicFont};
use super::container as ct;
use super::glyfgen as gg;
use super::sfnt::{parse_directory, Tag};
use super::woff2 as w2;
use crate::refmodel::glyf_lite as gl;
use proptest::prelude::*;

/// (sfnt version, tables in directory order) of a bare sfnt.
pub fn tables_of(sfnt: &[u8]) -> Option<(u32, Vec<(Tag, Vec<u8>)>)> {
    let (flavour, dir) = parse_directory(sfnt)?;
    let mut v = Vec::with_capacity(dir.len());
    for e in dir {
        let d = sfnt.get(e.offset as usize..(e.offset as usize).checked_add(e.length as usize)?)?;
        v.push((e.tag, d.to_vec()));
    }
    Some((flavour, v))
}

/// The glyph model of a TrueType font as the WOFF2 glyf transform needs it.
#[derive(Clone, Debug)]
pub struct GlyphInfo {
    pub glyphs: Vec<gg::Glyph>,
    pub long: bool,
    pub metrics: Vec<(u16, i16)>,
    pub nhm: usize,
}

fn lite_to_glyph(g: &gl::GlyphLite) -> Option<gg::Glyph> {
    Some(match g {
        gl::GlyphLite::Empty => gg::Glyph::Empty,
        gl::GlyphLite::Simple { bbox, contours, instructions } => {
            if contours.is_empty() {
                return Some(gg::Glyph::EmptyHeader);
            }
            if contours.iter().any(|c| c.is_empty()) {
                return None;
            }
            let mut cs = Vec::with_capacity(contours.len());
            for c in contours {
                let mut v = Vec::with_capacity(c.len());
                for p in c {
                    v.push((i16::try_from(p.0).ok()?, i16::try_from(p.1).ok()?, p.2));
                }
                cs.push(v);
            }
            gg::Glyph::Simple(gg::Simple { contours: cs, instructions: instructions.clone(), bbox: *bbox })
        }
        gl::GlyphLite::Composite { bbox, components, instructions } => {
            let last = components.len().checked_sub(1)?;
            let comps = components
                .iter()
                .enumerate()
                .map(|(i, c)| {
                    let mut misc = c.flags & gl::SEMANTIC_FLAGS;
                    let (words, a1, a2) = match c.args {
                        gl::Args::Xy(x, y) => {
                            misc |= gg::ARGS_ARE_XY_VALUES;
                            (!(-128..=127).contains(&x) || !(-128..=127).contains(&y), x as i32, y as i32)
                        }
                        gl::Args::Points(p, q) => (p > 255 || q > 255, p as i32, q as i32),
                    };
                    if i == last && !instructions.is_empty() {
                        misc |= gg::WE_HAVE_INSTRUCTIONS;
                    }
                    gg::Component {
                        misc_flags: misc,
                        words,
                        glyph: c.glyph,
                        arg1: a1,
                        arg2: a2,
                        xform: match c.transform {
                            gl::Transform::None => gg::Xform::None,
                            gl::Transform::Scale(s) => gg::Xform::Scale(s),
                            gl::Transform::XY(x, y) => gg::Xform::XY(x, y),
                            gl::Transform::Matrix(m) => gg::Xform::Matrix(m[0], m[1], m[2], m[3]),
                        },
                    }
                })
                .collect();
            gg::Glyph::Composite(gg::Composite {
                components: comps,
                instructions: if instructions.is_empty() { None } else { Some(instructions.clone()) },
                bbox: *bbox,
            })
        }
    })
}

/// None when the font uses something the glyph model of the WOFF2 encoder cannot express
/// exactly (an empty contour, coordinates outside i16, an hmtx table of another length than
/// numberOfHMetrics/numGlyphs imply): such a font is wrapped with the null transform.
pub fn glyph_info(tt: &gl::TtTables) -> Option<GlyphInfo> {
    let n = tt.num_glyphs as usize;
    let nhm = tt.num_h_metrics as usize;
    if nhm == 0 || nhm > n || tt.hmtx.len() != 4 * nhm + 2 * (n - nhm) {
        return None;
    }
    let mut glyphs = Vec::with_capacity(n);
    let mut metrics = Vec::with_capacity(n);
    for g in 0..tt.num_glyphs {
        glyphs.push(lite_to_glyph(&tt.glyph(g).ok()?)?);
        metrics.push(tt.metric(g)?);
    }
    Some(GlyphInfo { glyphs, long: tt.long_loca, metrics, nhm })
}

#[derive(Clone, Debug)]
pub struct WrapSpec {
    /// 0 WOFF, 1 WOFF2 single font, 2 WOFF2 collection, 3 TTC
    pub kind: u8,
    /// decoy members in front of / behind the target (collections only)
    pub before: u8,
    pub after: u8,
    /// per decoy (cyclic): 0 sibling sharing every table but hmtx/hhea, 1 independent small
    /// TrueType font, 2 sibling sharing every table but name
    pub decoys: Vec<u8>,
    /// WOFF2: transform glyf/loca (when the font is expressible), transform hmtx (when legal)
    pub xform_glyf: bool,
    pub xform_hmtx: bool,
    /// layout choices (compression levels, orders, encoder choice stream)
    pub r: u32,
}

pub fn wrap_strategy() -> impl Strategy<Value = WrapSpec> {
    (
        prop_oneof![2 => Just(0u8), 4 => Just(1u8), 3 => Just(2u8), 3 => Just(3u8)],
        prop_oneof![1 => Just(0u8), 3 => Just(1u8), 1 => Just(2u8)],
        0u8..2,
        prop::collection::vec(0u8..3, 1..3),
        prop::bool::weighted(0.65),
        prop::bool::weighted(0.6),
        any::<u32>(),
    )
        .prop_map(|(kind, before, after, decoys, xform_glyf, xform_hmtx, r)| WrapSpec { kind, before, after, decoys, xform_glyf, xform_hmtx, r })
}

#[derive(Clone, Debug)]
pub struct Wrapped {
    pub bytes: Vec<u8>,
    /// index to hand to `FontData::table_provider`
    pub index: usize,
    pub classes: Vec<&'static str>,
}

fn be16(d: &[u8], at: usize) -> Option<u16> {
    d.get(at..at + 2).map(|s| u16::from_be_bytes([s[0], s[1]]))
}

fn push(pool: &mut Vec<ct::Blob>, tag: Tag, data: Vec<u8>) -> usize {
    pool.push(ct::Blob { tag, data, within: None });
    pool.len() - 1
}

/// Members of a collection around the target font.
fn family(flavour: u32, tables: &[(Tag, Vec<u8>)], spec: &WrapSpec, classes: &mut Vec<&'static str>) -> (ct::Model, usize) {
    let mut pool: Vec<ct::Blob> = Vec::new();
    let target: Vec<usize> = tables.iter().map(|(t, d)| push(&mut pool, *t, d.clone())).collect();
    let find = |tag: &Tag| tables.iter().position(|t| &t.0 == tag);
    let n = find(b"maxp").and_then(|i| be16(&tables[i].1, 4)).unwrap_or(0) as usize;
    let nhm = find(b"hhea").and_then(|i| be16(&tables[i].1, 34)).unwrap_or(0) as usize;
    let mut k = 0usize;
    let mut decoy = |pool: &mut Vec<ct::Blob>, classes: &mut Vec<&'static str>| -> ct::Member {
        let kind = spec.decoys[k % spec.decoys.len()];
        k += 1;
        match kind {
            0 if n > 0 && find(b"hhea").map_or(false, |i| tables[i].1.len() >= 36) && find(b"hmtx").is_some() => {
                // other metrics, other numberOfHMetrics, everything else shared (incl. glyf/loca/CFF)
                let dn = if nhm < n { n } else { 1 };
                let metrics: Vec<(u16, i16)> = (0..n).map(|i| (77 + ((i * 13 + k) % 900) as u16, -3 - (i % 40) as i16)).collect();
                let mut hhea = tables[find(b"hhea").unwrap()].1.clone();
                hhea[34..36].copy_from_slice(&(dn as u16).to_be_bytes());
                let mut t = Vec::new();
                for (i, (tag, _)) in tables.iter().enumerate() {
                    match tag {
                        b"hhea" => t.push(push(pool, *tag, hhea.clone())),
                        b"hmtx" => t.push(push(pool, *tag, basic::hmtx(&metrics, dn as u16))),
                        _ => t.push(target[i]),
                    }
                }
                classes.push("wrap:decoy-shares-outlines-own-hmtx");
                ct::Member { flavour, tables: t }
            }
            2 => {
                let mut t = Vec::new();
                for (i, (tag, _)) in tables.iter().enumerate() {
                    if tag == b"name" {
                        t.push(push(pool, *tag, basic::name_table(&[(1, "Decoy"), (2, "Regular"), (4, "Decoy Regular"), (6, "Decoy-Regular")])));
                    } else {
                        t.push(target[i]);
                    }
                }
                classes.push("wrap:decoy-shares-all-but-name");
                ct::Member { flavour, tables: t }
            }
            _ => {
                let mut f = BasicFont::with_glyphs(3 + (k as u16 % 3));
                f.cmap.insert(0x41, 1);
                let t = f.tables().into_iter().map(|(tag, d)| push(pool, tag, d)).collect();
                classes.push("wrap:decoy-independent-font");
                ct::Member { flavour: super::sfnt::TTF, tables: t }
            }
        }
    };
    let mut members = Vec::new();
    for _ in 0..spec.before {
        members.push(decoy(&mut pool, classes));
    }
    let index = members.len();
    members.push(ct::Member { flavour, tables: target.clone() });
    for _ in 0..spec.after {
        members.push(decoy(&mut pool, classes));
    }
    (ct::Model { pool, members }, index)
}

fn woff2(model: &ct::Model, collection: bool, info: Option<&GlyphInfo>, spec: &WrapSpec, target: usize, classes: &mut Vec<&'static str>) -> Vec<u8> {
    let tm = &model.members[target];
    let blob_of = |tag: &Tag| tm.tables.iter().copied().find(|b| &model.pool[*b].tag == tag);
    let (t_glyf, t_loca, t_hmtx) = (blob_of(b"glyf"), blob_of(b"loca"), blob_of(b"hmtx"));
    let xf = spec.xform_glyf && info.is_some() && t_glyf.is_some() && t_loca.is_some();
    let info_ref = info.filter(|_| xf);
    // transformed hmtx, flag bit 0: the lsb of every long metric equals the glyph's xMin
    let hmtx_ok = info_ref.map_or(false, |i| (0..i.nhm).all(|g| i.metrics[g].1 == i.glyphs[g].x_min()));
    let xh = xf && spec.xform_hmtx && hmtx_ok && t_hmtx.is_some();
    // directory order: pool order (rotated), every loca directly behind its glyf
    let np = model.pool.len();
    let rot = (spec.r >> 8) as usize % np.max(1);
    let mut order: Vec<usize> = Vec::with_capacity(np);
    let glyf_of_loca = |l: usize| -> Option<usize> {
        model.members.iter().find(|m| m.tables.contains(&l)).and_then(|m| m.tables.iter().copied().find(|b| &model.pool[*b].tag == b"glyf"))
    };
    for j in 0..np {
        let i = (j + rot) % np;
        if &model.pool[i].tag == b"loca" && glyf_of_loca(i).is_some() {
            continue;
        }
        order.push(i);
        if &model.pool[i].tag == b"glyf" {
            if let Some(l) = model.members.iter().find(|m| m.tables.contains(&i)).and_then(|m| m.tables.iter().copied().find(|b| &model.pool[*b].tag == b"loca")) {
                order.push(l);
            }
        }
    }
    let mut ch = w2::Choices::new(&spec.r.to_be_bytes());
    let mut st = w2::XStats::new();
    let mut dir_pos = vec![0u16; np];
    let mut tabs = Vec::with_capacity(order.len());
    for (pos, &i) in order.iter().enumerate() {
        dir_pos[i] = pos as u16;
        let b = &model.pool[i];
        let explicit = (spec.r >> (i % 24)) & 1 == 1 && spec.r & 0x8000_0000 != 0;
        let et = if xf && Some(i) == t_glyf {
            let inf = info_ref.unwrap();
            let policy = if spec.r & 0x4000_0000 != 0 { w2::BboxPolicy::Choose } else { w2::BboxPolicy::ElideWhenEqual };
            let data = w2::transform_glyf(&inf.glyphs, if inf.long { 1 } else { 0 }, policy, None, &mut ch, &mut st);
            w2::EncTable::transformed(b.tag, 0, b.data.len() as u32, data, explicit)
        } else if xf && Some(i) == t_loca {
            w2::EncTable::transformed(b.tag, 0, b.data.len() as u32, Vec::new(), explicit)
        } else if xh && Some(i) == t_hmtx {
            let inf = info_ref.unwrap();
            w2::EncTable::transformed(b.tag, 1, b.data.len() as u32, w2::transform_hmtx(&inf.metrics, inf.nhm, w2::HMTX_NO_PROPORTIONAL_LSB), explicit)
        } else {
            w2::EncTable::plain(b.tag, &b.data, explicit)
        };
        tabs.push(et);
    }
    classes.push(if xf { "wrap:woff2-glyf-transformed" } else if t_glyf.is_some() { "wrap:woff2-glyf-null-transform" } else { "wrap:woff2-cff" });
    if xh {
        classes.push("wrap:woff2-hmtx-transformed");
    }
    let opts = w2::ContainerOpts {
        brotli: w2::BrotliOpts {
            wbits: [16u8, 18, 22, 24][(spec.r >> 4) as usize % 4],
            chunks: if spec.r & 0x2000_0000 != 0 { vec![4096, 700] } else { vec![65536] },
            meta_every: 0,
            meta_skip: 0,
        },
        major: 1,
        minor: 0,
        metadata: if spec.r & 0x1000_0000 != 0 { Some(b"<metadata version=\"1.0\"/>".to_vec()) } else { None },
        private: Vec::new(),
    };
    if collection {
        let fonts = model
            .members
            .iter()
            .map(|m| {
                let mut idx: Vec<u16> = m.tables.iter().map(|t| dir_pos[*t]).collect();
                idx.sort_by_key(|i| model.pool[order[*i as usize]].tag);
                (m.flavour, idx)
            })
            .collect();
        let col = w2::EncCollection { version: if spec.r & 0x0800_0000 != 0 { 0x0002_0000 } else { 0x0001_0000 }, fonts };
        w2::encode_woff2(ct::TTCF, &tabs, Some(&col), &opts, &mut ch, &mut st)
    } else {
        w2::encode_woff2(tm.flavour, &tabs, None, &opts, &mut ch, &mut st)
    }
}

/// Wrap the font made of `tables`. `info`: the glyph model for the WOFF2 glyf transform (None
/// for CFF fonts and fonts the model cannot express: null transform).
pub fn wrap(flavour: u32, tables: &[(Tag, Vec<u8>)], spec: &WrapSpec, info: Option<&GlyphInfo>) -> Wrapped {
    let mut classes: Vec<&'static str> = Vec::new();
    match spec.kind {
        0 => {
            let lay = ct::WoffLayout {
                comp: match spec.r % 4 {
                    0 => vec![ct::Comp::Deflate(6)],
                    1 => vec![ct::Comp::Stored],
                    2 => vec![ct::Comp::Deflate(1), ct::Comp::Stored, ct::Comp::Deflate(6)],
                    _ => vec![ct::Comp::Deflate(0), ct::Comp::Deflate(3)],
                },
                order: if spec.r & 16 != 0 { ct::DataOrder::Reverse } else { ct::DataOrder::Directory },
                meta: if spec.r & 32 != 0 { Some((b"<metadata version=\"1.0\"/>".to_vec(), 6)) } else { None },
                private: if spec.r & 64 != 0 { Some(vec![1, 2, 3, 4, 5]) } else { None },
                ..ct::WoffLayout::canonical()
            };
            let mut sorted: Vec<(Tag, &[u8])> = tables.iter().map(|(t, d)| (*t, &d[..])).collect();
            sorted.sort_by_key(|t| t.0);
            classes.push("wrap:woff");
            Wrapped { bytes: ct::encode_woff(flavour, &sorted, &lay).bytes, index: 0, classes }
        }
        1 => {
            let one = WrapSpec { before: 0, after: 0, ..spec.clone() };
            let (model, index) = family(flavour, tables, &one, &mut classes);
            classes.push("wrap:woff2-single");
            Wrapped { bytes: woff2(&model, false, info, spec, index, &mut classes), index, classes }
        }
        2 => {
            let (model, index) = family(flavour, tables, spec, &mut classes);
            classes.push("wrap:woff2-collection");
            classes.push(if index > 0 { "wrap:member-index>0" } else { "wrap:member-index=0" });
            Wrapped { bytes: woff2(&model, true, info, spec, index, &mut classes), index, classes }
        }
        _ => {
            let (model, index) = family(flavour, tables, spec, &mut classes);
            let lay = ct::SfntLayout {
                order: if spec.r & 1 != 0 { ct::DataOrder::Reverse } else { ct::DataOrder::Directory },
                store_once: if spec.r & 2 != 0 { vec![true] } else { vec![true, false, true] },
                dirs_first: spec.r & 4 == 0,
                ttc_version: if spec.r & 8 != 0 { 2 } else { 1 },
                ..ct::SfntLayout::canonical()
            };
            classes.push("wrap:ttc");
            classes.push(if index > 0 { "wrap:member-index>0" } else { "wrap:member-index=0" });
            let enc = ct::encode_sfnt(&model, &lay, true);
            if enc.facts.shared_between_members > 0 {
                classes.push("wrap:ttc-byte-ranges-shared-between-members");
            }
            Wrapped { bytes: enc.bytes, index, classes }
        }
    }
}
