//! Byte-level CFF / CFF2 / ItemVariationStore encoders *and* the matching spec-written decoders
//! (Adobe TN #5176, OpenType CFF2 and "OpenType Font Variations Common Table Formats"). Nothing
//! here calls allsorts. A model is encoded to bytes; any CFF/CFF2 byte string (mine or one
//! written by allsorts) is decoded into an *observation* (`CffObs`, `Cff2Obs`, `IvsM`) so that
//! model, allsorts' view and allsorts' output can be compared three ways.

use super::buf::Buf;

// ------------------------------------------------------------------ numbers and DICTs

#[derive(Clone, Debug, PartialEq)]
pub enum Num {
    /// integer in its shortest encoding
    Int(i32),
    /// integer forced into the 3-byte (28) form; must fit int16
    Int16(i16),
    /// integer forced into the 5-byte (29) form
    Int32(i32),
    /// real number given as decimal text: digits, '.', 'E', "E-", '-'
    Real(String),
}

impl Num {
    pub fn value(&self) -> f64 {
        match self {
            Num::Int(v) | Num::Int32(v) => *v as f64,
            Num::Int16(v) => *v as f64,
            Num::Real(t) => t.parse::<f64>().unwrap_or(f64::NAN),
        }
    }
}

pub fn enc_int_shortest(b: &mut Buf, v: i32) {
    match v {
        -107..=107 => {
            b.u8((v + 139) as u8);
        }
        108..=1131 => {
            let w = v - 108;
            b.u8((w / 256 + 247) as u8).u8((w % 256) as u8);
        }
        -1131..=-108 => {
            let w = -v - 108;
            b.u8((w / 256 + 251) as u8).u8((w % 256) as u8);
        }
        -32768..=32767 => {
            b.u8(28).i16(v as i16);
        }
        _ => {
            b.u8(29).i32(v);
        }
    }
}

pub fn enc_real(b: &mut Buf, text: &str) {
    let mut nibbles: Vec<u8> = Vec::new();
    let bytes = text.as_bytes();
    let mut i = 0;
    while i < bytes.len() {
        match bytes[i] {
            c @ b'0'..=b'9' => nibbles.push(c - b'0'),
            b'.' => nibbles.push(0xA),
            b'E' | b'e' => {
                if bytes.get(i + 1) == Some(&b'-') {
                    nibbles.push(0xC);
                    i += 1;
                } else {
                    nibbles.push(0xB);
                }
            }
            b'-' => nibbles.push(0xE),
            _ => {}
        }
        i += 1;
    }
    nibbles.push(0xF);
    if nibbles.len() % 2 == 1 {
        nibbles.push(0xF);
    }
    b.u8(30);
    for p in nibbles.chunks(2) {
        b.u8(p[0] << 4 | p[1]);
    }
}

pub fn enc_num(b: &mut Buf, n: &Num) {
    match n {
        Num::Int(v) => enc_int_shortest(b, *v),
        Num::Int16(v) => {
            b.u8(28).i16(*v);
        }
        Num::Int32(v) => {
            b.u8(29).i32(*v);
        }
        Num::Real(t) => enc_real(b, t),
    }
}

/// operator code: one byte, or 0x0C00 | second byte for escaped operators
pub fn enc_op(b: &mut Buf, op: u16) {
    if op >= 0x0C00 {
        b.u8(12).u8(op as u8);
    } else {
        b.u8(op as u8);
    }
}

pub type DictM = Vec<(u16, Vec<Num>)>;

pub fn enc_dict(d: &DictM) -> Vec<u8> {
    let mut b = Buf::new();
    for (op, nums) in d {
        for n in nums {
            enc_num(&mut b, n);
        }
        enc_op(&mut b, *op);
    }
    b.into_vec()
}

/// DICT observation: operator → operand values
pub type DictObs = Vec<(u16, Vec<f64>)>;

pub fn dict_obs(d: &DictM) -> DictObs {
    d.iter().map(|(op, n)| (*op, n.iter().map(|x| x.value()).collect())).collect()
}

pub fn dec_dict(d: &[u8]) -> Result<DictObs, String> {
    let mut out = Vec::new();
    let mut stack: Vec<f64> = Vec::new();
    let mut i = 0usize;
    let need = |i: usize, n: usize| if i + n <= d.len() { Ok(()) } else { Err(format!("DICT ends inside an item at {}", i)) };
    while i < d.len() {
        let b0 = d[i];
        match b0 {
            12 => {
                need(i, 2)?;
                out.push((0x0C00 | d[i + 1] as u16, std::mem::take(&mut stack)));
                i += 2;
            }
            0..=24 => {
                out.push((b0 as u16, std::mem::take(&mut stack)));
                i += 1;
            }
            28 => {
                need(i, 3)?;
                stack.push(i16::from_be_bytes([d[i + 1], d[i + 2]]) as f64);
                i += 3;
            }
            29 => {
                need(i, 5)?;
                stack.push(i32::from_be_bytes([d[i + 1], d[i + 2], d[i + 3], d[i + 4]]) as f64);
                i += 5;
            }
            30 => {
                let mut text = String::new();
                i += 1;
                'outer: loop {
                    need(i, 1)?;
                    let byte = d[i];
                    i += 1;
                    for nib in [byte >> 4, byte & 0xF] {
                        match nib {
                            0..=9 => text.push((b'0' + nib) as char),
                            0xA => text.push('.'),
                            0xB => text.push('E'),
                            0xC => text.push_str("E-"),
                            0xE => text.push('-'),
                            0xF => break 'outer,
                            _ => return Err("reserved nibble 0xD in a real".into()),
                        }
                    }
                }
                stack.push(text.parse::<f64>().map_err(|_| format!("real {:?} does not parse", text))?);
            }
            32..=246 => {
                stack.push(b0 as f64 - 139.0);
                i += 1;
            }
            247..=250 => {
                need(i, 2)?;
                stack.push((b0 as f64 - 247.0) * 256.0 + d[i + 1] as f64 + 108.0);
                i += 2;
            }
            251..=254 => {
                need(i, 2)?;
                stack.push(-(b0 as f64 - 251.0) * 256.0 - d[i + 1] as f64 - 108.0);
                i += 2;
            }
            _ => return Err(format!("reserved DICT byte {}", b0)),
        }
    }
    if !stack.is_empty() {
        return Err("operands without an operator at the end of the DICT".into());
    }
    Ok(out)
}

pub const OP_CHARSET: u16 = 15;
pub const OP_ENCODING: u16 = 16;
pub const OP_CHARSTRINGS: u16 = 17;
pub const OP_PRIVATE: u16 = 18;
pub const OP_SUBRS: u16 = 19;
pub const OP_VSTORE: u16 = 24;
pub const OP_ROS: u16 = 0x0C00 | 30;
pub const OP_FDARRAY: u16 = 0x0C00 | 36;
pub const OP_FDSELECT: u16 = 0x0C00 | 37;
pub const OP_FONTMATRIX: u16 = 0x0C00 | 7;

pub fn is_offset_op(op: u16) -> bool {
    matches!(op, OP_CHARSET | OP_ENCODING | OP_CHARSTRINGS | OP_PRIVATE | OP_SUBRS | OP_VSTORE | OP_FDARRAY | OP_FDSELECT)
}

/// defaults of the CFF spec (Tables 9, 10, 23): (operator, values, applies to top dict?)
pub fn default_of(op: u16, private: bool) -> Option<Vec<f64>> {
    if private {
        Some(match op {
            0x0C09 => vec![0.039625],
            0x0C0A => vec![7.0],
            0x0C0B => vec![1.0],
            0x0C0E | 0x0C11 | 0x0C13 | 20 | 21 => vec![0.0],
            0x0C12 => vec![0.06],
            _ => return None,
        })
    } else {
        Some(match op {
            0x0C01 | 0x0C02 | 0x0C05 | 0x0C08 | 0x0C1F | 0x0C20 | 0x0C21 => vec![0.0],
            0x0C03 => vec![-100.0],
            0x0C04 => vec![50.0],
            0x0C06 => vec![2.0],
            0x0C07 => vec![0.001, 0.0, 0.0, 0.001, 0.0, 0.0],
            5 => vec![0.0, 0.0, 0.0, 0.0],
            0x0C22 => vec![8720.0],
            _ => return None,
        })
    }
}

/// drop offset-carrying entries and entries numerically equal to their default
pub fn strip(d: &DictObs, private: bool) -> DictObs {
    d.iter().filter(|(op, v)| !is_offset_op(*op) && default_of(*op, private).as_ref() != Some(v)).cloned().collect()
}

// ------------------------------------------------------------------ INDEX

pub fn min_off_size(last: usize) -> u8 {
    match last {
        0..=0xFF => 1,
        0x100..=0xFFFF => 2,
        0x1_0000..=0xFF_FFFF => 3,
        _ => 4,
    }
}

/// INDEX with 16-bit (CFF) or 32-bit (CFF2) count. `off_size` 0 = minimal.
pub fn enc_index(objects: &[Vec<u8>], off_size: u8, count32: bool) -> Vec<u8> {
    let mut b = Buf::new();
    if count32 {
        b.u32(objects.len() as u32);
    } else {
        b.u16(objects.len() as u16);
    }
    if objects.is_empty() {
        return b.into_vec();
    }
    let total: usize = objects.iter().map(|o| o.len()).sum::<usize>() + 1;
    let os = off_size.max(min_off_size(total));
    b.u8(os);
    let mut off = 1usize;
    let put = |b: &mut Buf, v: usize| match os {
        1 => {
            b.u8(v as u8);
        }
        2 => {
            b.u16(v as u16);
        }
        3 => {
            b.u24(v as u32);
        }
        _ => {
            b.u32(v as u32);
        }
    };
    for o in objects {
        put(&mut b, off);
        off += o.len();
    }
    put(&mut b, off);
    for o in objects {
        b.bytes(o);
    }
    b.into_vec()
}

/// (objects, bytes consumed, offSize)
pub fn dec_index(d: &[u8], count32: bool) -> Result<(Vec<Vec<u8>>, usize, u8), String> {
    let (count, mut p) = if count32 {
        (u32::from_be_bytes(d.get(0..4).ok_or("INDEX count")?.try_into().unwrap()) as usize, 4)
    } else {
        (u16::from_be_bytes(d.get(0..2).ok_or("INDEX count")?.try_into().unwrap()) as usize, 2)
    };
    if count == 0 {
        return Ok((Vec::new(), p, 0));
    }
    let os = *d.get(p).ok_or("INDEX offSize")? as usize;
    p += 1;
    if !(1..=4).contains(&os) {
        return Err(format!("offSize {}", os));
    }
    if (count + 1).saturating_mul(os) > d.len() {
        return Err(format!("INDEX count {} does not fit the data", count));
    }
    let mut offs = Vec::with_capacity(count + 1);
    for i in 0..=count {
        let s = d.get(p + i * os..p + (i + 1) * os).ok_or("INDEX offset array")?;
        offs.push(s.iter().fold(0usize, |a, x| a << 8 | *x as usize));
    }
    p += (count + 1) * os;
    if offs[0] != 1 {
        return Err(format!("first INDEX offset {}", offs[0]));
    }
    let mut out = Vec::with_capacity(count);
    for w in offs.windows(2) {
        if w[1] < w[0] {
            return Err("INDEX offsets decrease".into());
        }
        out.push(d.get(p + w[0] - 1..p + w[1] - 1).ok_or("INDEX data")?.to_vec());
    }
    Ok((out, p + offs[count] - 1, os as u8))
}

// ------------------------------------------------------------------ charset / encoding / FDSelect

#[derive(Clone, Debug, PartialEq)]
pub enum CharsetM {
    /// 0 ISOAdobe, 1 Expert, 2 ExpertSubset; `explicit` = the Top DICT carries the operator
    Predefined(u8, bool),
    F0(Vec<u16>),
    F1(Vec<(u16, u8)>),
    F2(Vec<(u16, u16)>),
}

impl CharsetM {
    /// SIDs/CIDs of glyphs 1.. (custom formats)
    pub fn ids(&self) -> Option<Vec<u32>> {
        match self {
            CharsetM::Predefined(..) => None,
            CharsetM::F0(v) => Some(v.iter().map(|x| *x as u32).collect()),
            CharsetM::F1(r) => Some(r.iter().flat_map(|(f, n)| (0..=*n as u32).map(move |k| *f as u32 + k)).collect()),
            CharsetM::F2(r) => Some(r.iter().flat_map(|(f, n)| (0..=*n as u32).map(move |k| *f as u32 + k)).collect()),
        }
    }
    pub fn glyphs_covered(&self) -> Option<usize> {
        self.ids().map(|i| i.len() + 1)
    }
}

pub fn enc_charset(c: &CharsetM) -> Vec<u8> {
    let mut b = Buf::new();
    match c {
        CharsetM::Predefined(..) => {}
        CharsetM::F0(v) => {
            b.u8(0);
            for s in v {
                b.u16(*s);
            }
        }
        CharsetM::F1(r) => {
            b.u8(1);
            for (f, n) in r {
                b.u16(*f).u8(*n);
            }
        }
        CharsetM::F2(r) => {
            b.u8(2);
            for (f, n) in r {
                b.u16(*f).u16(*n);
            }
        }
    }
    b.into_vec()
}

/// custom charset at `d` for `n_glyphs` glyphs → (model, ids of glyphs 1..n_glyphs)
pub fn dec_charset(d: &[u8], n_glyphs: usize) -> Result<CharsetM, String> {
    let want = n_glyphs.saturating_sub(1);
    let r16 = |o: usize| -> Result<u16, String> { d.get(o..o + 2).map(|b| u16::from_be_bytes([b[0], b[1]])).ok_or_else(|| "charset short".to_string()) };
    match d.first() {
        Some(0) => Ok(CharsetM::F0((0..want).map(|i| r16(1 + 2 * i)).collect::<Result<_, _>>()?)),
        Some(1) => {
            let mut r = Vec::new();
            let (mut got, mut p) = (0usize, 1usize);
            while got < want {
                let n = *d.get(p + 2).ok_or("charset short")?;
                r.push((r16(p)?, n));
                got += n as usize + 1;
                p += 3;
            }
            Ok(CharsetM::F1(r))
        }
        Some(2) => {
            let mut r = Vec::new();
            let (mut got, mut p) = (0usize, 1usize);
            while got < want {
                let n = r16(p + 2)?;
                r.push((r16(p)?, n));
                got += n as usize + 1;
                p += 4;
            }
            Ok(CharsetM::F2(r))
        }
        f => Err(format!("charset format {:?}", f)),
    }
}

#[derive(Clone, Debug, PartialEq)]
pub enum EncodingM {
    /// 0 Standard, 1 Expert; `explicit` = operator present
    Predefined(u8, bool),
    F0(Vec<u8>),
    F1(Vec<(u8, u8)>),
}

pub fn enc_encoding(e: &EncodingM) -> Vec<u8> {
    let mut b = Buf::new();
    match e {
        EncodingM::Predefined(..) => {}
        EncodingM::F0(c) => {
            b.u8(0).u8(c.len() as u8).bytes(c);
        }
        EncodingM::F1(r) => {
            b.u8(1).u8(r.len() as u8);
            for (f, n) in r {
                b.u8(*f).u8(*n);
            }
        }
    }
    b.into_vec()
}

pub fn dec_encoding(d: &[u8]) -> Result<EncodingM, String> {
    let n = *d.get(1).ok_or("encoding short")? as usize;
    match d[0] {
        0 => Ok(EncodingM::F0(d.get(2..2 + n).ok_or("encoding short")?.to_vec())),
        1 => Ok(EncodingM::F1(d.get(2..2 + 2 * n).ok_or("encoding short")?.chunks(2).map(|c| (c[0], c[1])).collect())),
        f => Err(format!("encoding format {}", f)),
    }
}

#[derive(Clone, Debug, PartialEq)]
pub enum FdSelectM {
    F0(Vec<u8>),
    /// (first glyph, fd) ranges + sentinel
    F3(Vec<(u16, u8)>, u16),
}

impl FdSelectM {
    pub fn fd_of(&self, gid: u16) -> Option<u8> {
        match self {
            FdSelectM::F0(v) => v.get(gid as usize).copied(),
            FdSelectM::F3(r, sentinel) => {
                for (i, (first, fd)) in r.iter().enumerate() {
                    let next = r.get(i + 1).map_or(*sentinel, |x| x.0);
                    if gid >= *first && gid < next {
                        return Some(*fd);
                    }
                }
                None
            }
        }
    }
}

pub fn enc_fdselect(f: &FdSelectM) -> Vec<u8> {
    let mut b = Buf::new();
    match f {
        FdSelectM::F0(v) => {
            b.u8(0).bytes(v);
        }
        FdSelectM::F3(r, s) => {
            b.u8(3).u16(r.len() as u16);
            for (first, fd) in r {
                b.u16(*first).u8(*fd);
            }
            b.u16(*s);
        }
    }
    b.into_vec()
}

pub fn dec_fdselect(d: &[u8], n_glyphs: usize) -> Result<FdSelectM, String> {
    match d.first() {
        Some(0) => Ok(FdSelectM::F0(d.get(1..1 + n_glyphs).ok_or("FDSelect short")?.to_vec())),
        Some(3) => {
            let n = u16::from_be_bytes(d.get(1..3).ok_or("FDSelect short")?.try_into().unwrap()) as usize;
            let body = d.get(3..3 + 3 * n + 2).ok_or("FDSelect short")?;
            Ok(FdSelectM::F3(body[..3 * n].chunks(3).map(|c| (u16::from_be_bytes([c[0], c[1]]), c[2])).collect(), u16::from_be_bytes([body[3 * n], body[3 * n + 1]])))
        }
        f => Err(format!("FDSelect format {:?}", f)),
    }
}

// ------------------------------------------------------------------ whole CFF

#[derive(Clone, Debug, PartialEq)]
pub struct PrivM {
    pub dict: DictM,
    pub subrs: Option<Vec<Vec<u8>>>,
}

#[derive(Clone, Debug, PartialEq)]
pub enum KindM {
    Type1 { encoding: EncodingM, private: PrivM },
    Cid { ros: (u16, u16, i32), fds: Vec<(DictM, PrivM)>, fdselect: FdSelectM },
}

#[derive(Clone, Debug, PartialEq)]
pub struct CffM {
    pub minor: u8,
    pub hdr_extra: u8,
    pub hdr_off_size: u8,
    pub name: Vec<u8>,
    pub strings: Vec<Vec<u8>>,
    pub gsubrs: Vec<Vec<u8>>,
    /// Top DICT entries that do not carry offsets (ROS is added by the encoder for CID fonts)
    pub top: DictM,
    pub charstrings: Vec<Vec<u8>>,
    pub charset: CharsetM,
    pub kind: KindM,
    /// offSize forced on every INDEX (0 = minimal)
    pub index_off_size: u8,
    /// offsets in the Top, Font and Private DICTs use the shortest integer form (as font tools
    /// write them) instead of the fixed 5-byte form, and Subrs comes first in its Private DICT
    pub short_offsets: bool,
}

fn off(v: usize, short: bool) -> Num {
    if short {
        Num::Int(v as i32)
    } else {
        Num::Int32(v as i32)
    }
}

/// Private DICT bytes with a Subrs entry pointing just past the DICT. With `short` the offset
/// uses the shortest integer form (so the DICT length depends on it: fixpoint) and the entry
/// comes first instead of last.
fn enc_private(p: &PrivM, os: u8, short: bool) -> (Vec<u8>, Vec<u8>) {
    let mut d = p.dict.clone();
    let mut at = 0;
    if p.subrs.is_some() {
        if short {
            d.insert(0, (OP_SUBRS, vec![off(0, short)]));
        } else {
            d.push((OP_SUBRS, vec![off(0, short)]));
            at = d.len() - 1;
        }
        let mut len = enc_dict(&d).len();
        for _ in 0..8 {
            d[at].1 = vec![off(len, short)];
            let l2 = enc_dict(&d).len();
            if l2 == len {
                break;
            }
            len = l2;
        }
    }
    let dict = enc_dict(&d);
    let subrs = p.subrs.as_ref().map(|s| enc_index(s, os, false)).unwrap_or_default();
    (dict, subrs)
}

pub fn enc_cff(m: &CffM) -> Vec<u8> {
    if m.short_offsets {
        // offsets in their shortest form: the Top DICT INDEX length and the offsets depend on each other
        let mut guess = 0usize;
        for _ in 0..16 {
            let (mut out, top_at, ti) = assemble_cff(m, guess, true);
            if ti.len() == guess {
                out[top_at..top_at + ti.len()].copy_from_slice(&ti);
                return out;
            }
            guess = ti.len();
        }
    }
    let (_, _, t0) = assemble_cff(m, 0, false);
    let (mut out, top_at, ti) = assemble_cff(m, t0.len(), false);
    debug_assert_eq!(ti.len(), t0.len());
    out[top_at..top_at + ti.len()].copy_from_slice(&ti);
    out
}

/// lay the table out with `top_index_len` bytes reserved for the Top DICT INDEX; returns the
/// table (reserved bytes zero), the position of the reservation and the Top DICT INDEX for this layout
fn assemble_cff(m: &CffM, top_index_len: usize, short: bool) -> (Vec<u8>, usize, Vec<u8>) {
    let os = m.index_off_size;
    let build = |offs: &[usize; 6], fd_privs: &[(usize, usize)]| -> (Vec<u8>, Vec<Vec<u8>>) {
        // offs: charstrings, charset, encoding, private, fdarray, fdselect
        let mut top: DictM = Vec::new();
        if let KindM::Cid { ros, .. } = &m.kind {
            top.push((OP_ROS, vec![Num::Int(ros.0 as i32), Num::Int(ros.1 as i32), Num::Int(ros.2)]));
        }
        top.extend(m.top.iter().cloned());
        match &m.charset {
            CharsetM::Predefined(k, true) => top.push((OP_CHARSET, vec![Num::Int(*k as i32)])),
            CharsetM::Predefined(_, false) => {}
            _ => top.push((OP_CHARSET, vec![off(offs[1], short)])),
        }
        top.push((OP_CHARSTRINGS, vec![off(offs[0], short)]));
        let mut fd_dicts = Vec::new();
        match &m.kind {
            KindM::Type1 { encoding, private } => {
                match encoding {
                    EncodingM::Predefined(k, true) => top.push((OP_ENCODING, vec![Num::Int(*k as i32)])),
                    EncodingM::Predefined(_, false) => {}
                    _ => top.push((OP_ENCODING, vec![off(offs[2], short)])),
                }
                let plen = enc_private(private, os, short).0.len();
                top.push((OP_PRIVATE, vec![off(plen, short), off(offs[3], short)]));
            }
            KindM::Cid { fds, .. } => {
                top.push((OP_FDARRAY, vec![off(offs[4], short)]));
                top.push((OP_FDSELECT, vec![off(offs[5], short)]));
                for (i, (fd, _)) in fds.iter().enumerate() {
                    let mut d = fd.clone();
                    let (po, pl) = fd_privs.get(i).copied().unwrap_or((0, 0));
                    d.push((OP_PRIVATE, vec![off(pl, short), off(po, short)]));
                    fd_dicts.push(enc_dict(&d));
                }
            }
        }
        (enc_dict(&top), fd_dicts)
    };
    let mut b = Buf::new();
    b.u8(1).u8(m.minor).u8(4 + m.hdr_extra).u8(m.hdr_off_size);
    b.zeros(m.hdr_extra as usize);
    b.bytes(&enc_index(&[m.name.clone()], os, false));
    let top_at = b.len();
    b.zeros(top_index_len);
    b.bytes(&enc_index(&m.strings, os, false));
    b.bytes(&enc_index(&m.gsubrs, os, false));
    let mut offs = [0usize; 6];
    offs[0] = b.len();
    b.bytes(&enc_index(&m.charstrings, os, false));
    offs[1] = b.len();
    b.bytes(&enc_charset(&m.charset));
    let mut fd_privs = Vec::new();
    match &m.kind {
        KindM::Type1 { encoding, private } => {
            offs[2] = b.len();
            b.bytes(&enc_encoding(encoding));
            offs[3] = b.len();
            let (d, s) = enc_private(private, os, short);
            b.bytes(&d).bytes(&s);
        }
        KindM::Cid { fds, fdselect, .. } => {
            for (_, p) in fds {
                let (d, s) = enc_private(p, os, short);
                fd_privs.push((b.len(), d.len()));
                b.bytes(&d).bytes(&s);
            }
            offs[5] = b.len();
            b.bytes(&enc_fdselect(fdselect));
            offs[4] = b.len();
            let (_, fd_dicts) = build(&offs, &fd_privs);
            b.bytes(&enc_index(&fd_dicts, os, false));
        }
    }
    let (top, _) = build(&offs, &fd_privs);
    let ti = enc_index(&[top], os, false);
    (b.into_vec(), top_at, ti)
}

/// What can be observed of a CFF table (first font only)
#[derive(Clone, Debug, PartialEq)]
pub struct CffObs {
    pub minor: u8,
    pub hdr_off_size: u8,
    pub names: Vec<Vec<u8>>,
    pub strings: Vec<Vec<u8>>,
    pub gsubrs: Vec<Vec<u8>>,
    /// stripped of offsets and defaults
    pub top: DictObs,
    pub charstrings: Vec<Vec<u8>>,
    /// predefined id, or the ids of glyphs 1..
    pub charset: Result<Vec<u32>, u8>,
    pub kind: KindObs,
}

#[derive(Clone, Debug, PartialEq)]
pub struct PrivObs {
    pub dict: DictObs,
    pub subrs: Option<Vec<Vec<u8>>>,
}

#[derive(Clone, Debug, PartialEq)]
pub enum KindObs {
    Type1 { encoding: Result<EncodingM, u8>, private: PrivObs },
    /// per FD (font dict, private), fd of every glyph
    Cid { fds: Vec<(DictObs, PrivObs)>, fd_of_glyph: Vec<Option<u8>> },
}

pub fn priv_obs(p: &PrivM) -> PrivObs {
    PrivObs { dict: strip(&dict_obs(&p.dict), true), subrs: p.subrs.clone() }
}

pub fn obs_of_model(m: &CffM) -> CffObs {
    let n = m.charstrings.len();
    let mut top = dict_obs(&m.top);
    if let KindM::Cid { ros, .. } = &m.kind {
        top.insert(0, (OP_ROS, vec![ros.0 as f64, ros.1 as f64, ros.2 as f64]));
    }
    CffObs {
        minor: m.minor,
        hdr_off_size: m.hdr_off_size,
        names: vec![m.name.clone()],
        strings: m.strings.clone(),
        gsubrs: m.gsubrs.clone(),
        top: strip(&top, false),
        charstrings: m.charstrings.clone(),
        charset: match &m.charset {
            CharsetM::Predefined(k, _) => Err(*k),
            c => Ok(c.ids().unwrap_or_default().into_iter().take(n.saturating_sub(1)).collect()),
        },
        kind: match &m.kind {
            KindM::Type1 { encoding, private } => KindObs::Type1 {
                encoding: match encoding {
                    EncodingM::Predefined(k, _) => Err(*k),
                    e => Ok(e.clone()),
                },
                private: priv_obs(private),
            },
            KindM::Cid { fds, fdselect, .. } => KindObs::Cid {
                fds: fds.iter().map(|(d, p)| (strip(&dict_obs(d), false), priv_obs(p))).collect(),
                fd_of_glyph: (0..n).map(|g| fdselect.fd_of(g as u16)).collect(),
            },
        },
    }
}

fn get1(d: &DictObs, op: u16) -> Option<&Vec<f64>> {
    d.iter().find(|(o, _)| *o == op).map(|(_, v)| v)
}

fn dec_private(d: &[u8], offset: usize, len: usize) -> Result<PrivObs, String> {
    let raw = dec_dict(d.get(offset..offset + len).ok_or_else(|| format!("Private DICT {}+{} outside the table", offset, len))?)?;
    let subrs = match get1(&raw, OP_SUBRS) {
        Some(v) if v.len() == 1 => Some(dec_index(d.get(offset + v[0] as usize..).ok_or("Subrs offset")?, false)?.0),
        Some(_) => return Err("Subrs operand count".into()),
        None => None,
    };
    Ok(PrivObs { dict: strip(&raw, true), subrs })
}

/// my CFF reader: bytes → observation
pub fn dec_cff(d: &[u8]) -> Result<CffObs, String> {
    if d.len() < 4 || d[0] != 1 {
        return Err("not a CFF 1 table".into());
    }
    let (minor, hdr, hos) = (d[1], d[2] as usize, d[3]);
    let mut p = hdr;
    let (names, used, _) = dec_index(d.get(p..).ok_or("Name INDEX")?, false)?;
    p += used;
    let (tops, used, _) = dec_index(d.get(p..).ok_or("Top DICT INDEX")?, false)?;
    p += used;
    let (strings, used, _) = dec_index(d.get(p..).ok_or("String INDEX")?, false)?;
    p += used;
    let (gsubrs, _, _) = dec_index(d.get(p..).ok_or("Global Subr INDEX")?, false)?;
    let top = dec_dict(tops.first().ok_or("no Top DICT")?)?;
    let one = |op: u16| -> Result<Option<usize>, String> {
        match get1(&top, op) {
            None => Ok(None),
            Some(v) if v.len() == 1 && v[0] >= 0.0 => Ok(Some(v[0] as usize)),
            Some(v) => Err(format!("operator {:#x} operands {:?}", op, v)),
        }
    };
    let cs_at = one(OP_CHARSTRINGS)?.ok_or("no CharStrings")?;
    let (charstrings, _, _) = dec_index(d.get(cs_at..).ok_or("CharStrings offset")?, false)?;
    let n = charstrings.len();
    let charset = match one(OP_CHARSET)?.unwrap_or(0) {
        k @ 0..=2 => Err(k as u8),
        o => Ok(dec_charset(d.get(o..).ok_or("charset offset")?, n)?.ids().unwrap_or_default().into_iter().take(n.saturating_sub(1)).collect()),
    };
    let kind = if top.first().map(|e| e.0) == Some(OP_ROS) {
        let fa = one(OP_FDARRAY)?.ok_or("no FDArray")?;
        let (fd_dicts, _, _) = dec_index(d.get(fa..).ok_or("FDArray offset")?, false)?;
        let mut fds = Vec::new();
        for fd in &fd_dicts {
            let raw = dec_dict(fd)?;
            let pv = get1(&raw, OP_PRIVATE).ok_or("Font DICT without Private")?;
            if pv.len() != 2 {
                return Err("Private operand count".into());
            }
            fds.push((strip(&raw, false), dec_private(d, pv[1] as usize, pv[0] as usize)?));
        }
        let fs = dec_fdselect(d.get(one(OP_FDSELECT)?.ok_or("no FDSelect")?..).ok_or("FDSelect offset")?, n)?;
        KindObs::Cid { fds, fd_of_glyph: (0..n).map(|g| fs.fd_of(g as u16)).collect() }
    } else {
        let encoding = match one(OP_ENCODING)?.unwrap_or(0) {
            k @ 0..=1 => Err(k as u8),
            o => Ok(dec_encoding(d.get(o..).ok_or("encoding offset")?)?),
        };
        let pv = get1(&top, OP_PRIVATE).ok_or("no Private")?;
        if pv.len() != 2 {
            return Err("Private operand count".into());
        }
        KindObs::Type1 { encoding, private: dec_private(d, pv[1] as usize, pv[0] as usize)? }
    };
    Ok(CffObs { minor, hdr_off_size: hos, names, strings, gsubrs, top: strip(&top, false), charstrings, charset, kind })
}

// ------------------------------------------------------------------ ItemVariationStore

#[derive(Clone, Debug, PartialEq)]
pub struct IvdM {
    pub region_indexes: Vec<u16>,
    /// number of "word" deltas (≤ region count); the rest are "short"
    pub word_count: u16,
    /// LONG_WORDS: words are int32 and shorts int16
    pub long: bool,
    /// one row per item, one delta per region index
    pub rows: Vec<Vec<i32>>,
}

#[derive(Clone, Debug, PartialEq)]
pub struct IvsM {
    pub axis_count: u16,
    /// regions: per axis (start, peak, end) raw F2Dot14
    pub regions: Vec<Vec<(i16, i16, i16)>>,
    pub subtables: Vec<IvdM>,
    /// encoder only: bit 0 puts the region list after the sub-tables, bit 1 stores identical
    /// sub-tables once and lets their offsets share the copy
    pub layout: u8,
}

fn enc_ivd(s: &IvdM) -> Vec<u8> {
    let mut b = Buf::new();
    b.u16(s.rows.len() as u16).u16(s.word_count | if s.long { 0x8000 } else { 0 }).u16(s.region_indexes.len() as u16);
    for r in &s.region_indexes {
        b.u16(*r);
    }
    for row in &s.rows {
        for (k, v) in row.iter().enumerate() {
            let word = k < s.word_count as usize;
            match (s.long, word) {
                (true, true) => {
                    b.i32(*v);
                }
                (true, false) | (false, true) => {
                    b.i16(*v as i16);
                }
                (false, false) => {
                    b.i8(*v as i8);
                }
            }
        }
    }
    b.into_vec()
}

pub fn enc_ivs(m: &IvsM) -> Vec<u8> {
    let mut regions = Buf::new();
    regions.u16(m.axis_count).u16(m.regions.len() as u16);
    for r in &m.regions {
        for a in r {
            regions.i16(a.0).i16(a.1).i16(a.2);
        }
    }
    let (regions_last, share) = (m.layout & 1 == 1, m.layout & 2 == 2);
    let subs: Vec<Vec<u8>> = m.subtables.iter().map(enc_ivd).collect();
    let header = 8 + 4 * subs.len();
    let mut body = Buf::new();
    if !regions_last {
        body.bytes(&regions.0);
    }
    let region_at_first = header;
    let mut sub_at: Vec<usize> = Vec::new();
    for (i, s) in subs.iter().enumerate() {
        if share {
            if let Some(j) = (0..i).find(|j| subs[*j] == *s) {
                let at = sub_at[j];
                sub_at.push(at);
                continue;
            }
        }
        sub_at.push(header + body.len());
        body.bytes(s);
    }
    let region_at = if regions_last { header + body.len() } else { region_at_first };
    if regions_last {
        body.bytes(&regions.0);
    }
    let mut b = Buf::new();
    b.u16(1).u32(region_at as u32).u16(subs.len() as u16);
    for o in &sub_at {
        b.u32(*o as u32);
    }
    b.bytes(&body.0);
    b.into_vec()
}

pub fn dec_ivs(d: &[u8]) -> Result<IvsM, String> {
    let r16 = |o: usize| -> Result<u16, String> { d.get(o..o + 2).map(|b| u16::from_be_bytes([b[0], b[1]])).ok_or_else(|| format!("IVS short read at {}", o)) };
    let r32 = |o: usize| -> Result<u32, String> { d.get(o..o + 4).map(|b| u32::from_be_bytes([b[0], b[1], b[2], b[3]])).ok_or_else(|| format!("IVS short read at {}", o)) };
    if r16(0)? != 1 {
        return Err(format!("IVS format {}", r16(0)?));
    }
    let ra = r32(2)? as usize;
    let count = r16(6)? as usize;
    let axis_count = r16(ra)?;
    let rc = r16(ra + 2)? as usize;
    let mut regions = Vec::new();
    for i in 0..rc {
        let mut r = Vec::new();
        for a in 0..axis_count as usize {
            let o = ra + 4 + 6 * (i * axis_count as usize + a);
            r.push((r16(o)? as i16, r16(o + 2)? as i16, r16(o + 4)? as i16));
        }
        regions.push(r);
    }
    let mut subtables = Vec::new();
    for k in 0..count {
        let o = r32(8 + 4 * k)? as usize;
        let items = r16(o)? as usize;
        let wc_raw = r16(o + 2)?;
        let (long, wc) = (wc_raw & 0x8000 != 0, (wc_raw & 0x7FFF) as usize);
        let nri = r16(o + 4)? as usize;
        if wc > nri {
            return Err(format!("wordDeltaCount {} > regionIndexCount {}", wc, nri));
        }
        let region_indexes: Vec<u16> = (0..nri).map(|i| r16(o + 6 + 2 * i)).collect::<Result<_, _>>()?;
        let mut p = o + 6 + 2 * nri;
        let mut rows = Vec::new();
        for _ in 0..items {
            let mut row = Vec::new();
            for c in 0..nri {
                let word = c < wc;
                let v = match (long, word) {
                    (true, true) => {
                        let v = r32(p)? as i32;
                        p += 4;
                        v
                    }
                    (true, false) | (false, true) => {
                        let v = r16(p)? as i16 as i32;
                        p += 2;
                        v
                    }
                    (false, false) => {
                        let v = *d.get(p).ok_or("IVS delta short")? as i8 as i32;
                        p += 1;
                        v
                    }
                };
                row.push(v);
            }
            rows.push(row);
        }
        subtables.push(IvdM { region_indexes, word_count: wc as u16, long, rows });
    }
    Ok(IvsM { axis_count, regions, subtables, layout: 0 })
}

/// exact value (as a rational num/den pair folded into f64) of the adjustment for one item
pub fn ivs_adjustment(m: &IvsM, outer: usize, inner: usize, coords: &[i16]) -> Option<f64> {
    let s = m.subtables.get(outer)?;
    let row = s.rows.get(inner)?;
    let mut sum = 0.0f64;
    for (delta, ri) in row.iter().zip(s.region_indexes.iter()) {
        let region = m.regions.get(*ri as usize)?;
        let mut scalar = 1.0f64;
        for (a, (start, peak, end)) in region.iter().enumerate() {
            let c = *coords.get(a)? as f64;
            let (s0, p0, e0) = (*start as f64, *peak as f64, *end as f64);
            let f = if *peak == 0 {
                1.0
            } else if c < s0 || c > e0 {
                0.0
            } else if c == p0 {
                1.0
            } else if c < p0 {
                (c - s0) / (p0 - s0)
            } else {
                (e0 - c) / (e0 - p0)
            };
            scalar *= f;
        }
        sum += scalar * *delta as f64;
    }
    Some(sum)
}

// ------------------------------------------------------------------ CFF2

#[derive(Clone, Debug, PartialEq)]
pub struct Cff2M {
    pub minor: u8,
    pub hdr_extra: u8,
    pub font_matrix: Option<Vec<Num>>,
    pub gsubrs: Vec<Vec<u8>>,
    pub charstrings: Vec<Vec<u8>>,
    /// one Private (+ subrs) per Font DICT
    pub fds: Vec<PrivM>,
    /// present iff more than one FD
    pub fdselect: Option<FdSelectM>,
    pub vstore: Option<IvsM>,
    pub index_off_size: u8,
}

#[derive(Clone, Debug, PartialEq)]
pub struct Cff2Obs {
    pub minor: u8,
    pub font_matrix: Option<Vec<f64>>,
    pub gsubrs: Vec<Vec<u8>>,
    pub charstrings: Vec<Vec<u8>>,
    pub fds: Vec<PrivObs>,
    pub fd_of_glyph: Option<Vec<Option<u8>>>,
    pub vstore: Option<IvsM>,
}

/// CFF2 Private DICT defaults (BlueScale, BlueShift, BlueFuzz, LanguageGroup, ExpansionFactor, vsindex)
pub fn strip2(d: &DictObs) -> DictObs {
    d.iter()
        .filter(|(op, v)| {
            let def: Option<Vec<f64>> = match *op {
                0x0C09 => Some(vec![0.039625]),
                0x0C0A => Some(vec![7.0]),
                0x0C0B => Some(vec![1.0]),
                0x0C11 | 22 => Some(vec![0.0]),
                0x0C12 => Some(vec![0.06]),
                _ => None,
            };
            !is_offset_op(*op) && def.as_ref() != Some(v)
        })
        .cloned()
        .collect()
}

pub fn obs_of_model2(m: &Cff2M) -> Cff2Obs {
    let n = m.charstrings.len();
    Cff2Obs {
        minor: m.minor,
        font_matrix: m.font_matrix.as_ref().map(|v| v.iter().map(|x| x.value()).collect()).filter(|v: &Vec<f64>| v != &vec![0.001, 0.0, 0.0, 0.001, 0.0, 0.0]),
        gsubrs: m.gsubrs.clone(),
        charstrings: m.charstrings.clone(),
        fds: m.fds.iter().map(|p| PrivObs { dict: strip2(&dict_obs(&p.dict)), subrs: p.subrs.clone() }).collect(),
        fd_of_glyph: m.fdselect.as_ref().map(|f| (0..n).map(|g| f.fd_of(g as u16)).collect()),
        vstore: m.vstore.as_ref().map(|v| IvsM { layout: 0, ..v.clone() }),
    }
}

pub fn enc_cff2(m: &Cff2M) -> Vec<u8> {
    let os = m.index_off_size;
    let build_top = |offs: &[usize; 4]| -> Vec<u8> {
        let mut top: DictM = Vec::new();
        if let Some(fm) = &m.font_matrix {
            top.push((OP_FONTMATRIX, fm.clone()));
        }
        top.push((OP_CHARSTRINGS, vec![off(offs[0], false)]));
        top.push((OP_FDARRAY, vec![off(offs[1], false)]));
        if m.fdselect.is_some() {
            top.push((OP_FDSELECT, vec![off(offs[2], false)]));
        }
        if m.vstore.is_some() {
            top.push((OP_VSTORE, vec![off(offs[3], false)]));
        }
        enc_dict(&top)
    };
    let top_len = build_top(&[0; 4]).len();
    let mut b = Buf::new();
    b.u8(2).u8(m.minor).u8(5 + m.hdr_extra).u16(top_len as u16).zeros(m.hdr_extra as usize);
    let top_at = b.len();
    b.zeros(top_len);
    b.bytes(&enc_index(&m.gsubrs, os, true));
    let mut offs = [0usize; 4];
    if let Some(v) = &m.vstore {
        offs[3] = b.len();
        let e = enc_ivs(v);
        b.u16(e.len() as u16).bytes(&e);
    }
    offs[0] = b.len();
    b.bytes(&enc_index(&m.charstrings, os, true));
    if let Some(f) = &m.fdselect {
        offs[2] = b.len();
        b.bytes(&enc_fdselect(f));
    }
    let mut fd_dicts = Vec::new();
    for p in &m.fds {
        // Subrs offset is relative to the Private DICT; the INDEX follows it, with a 32-bit count
        let mut d = p.dict.clone();
        if p.subrs.is_some() {
            d.push((OP_SUBRS, vec![off(0, false)]));
        }
        let len = enc_dict(&d).len();
        if p.subrs.is_some() {
            let last = d.len() - 1;
            d[last].1 = vec![off(len, false)];
        }
        let at = b.len();
        b.bytes(&enc_dict(&d));
        if let Some(s) = &p.subrs {
            b.bytes(&enc_index(s, os, true));
        }
        fd_dicts.push(enc_dict(&vec![(OP_PRIVATE, vec![off(len, false), off(at, false)])]));
    }
    offs[1] = b.len();
    b.bytes(&enc_index(&fd_dicts, os, true));
    let top = build_top(&offs);
    let mut out = b.into_vec();
    out[top_at..top_at + top.len()].copy_from_slice(&top);
    out
}

pub fn dec_cff2(d: &[u8]) -> Result<Cff2Obs, String> {
    if d.len() < 5 || d[0] != 2 {
        return Err("not a CFF2 table".into());
    }
    let (minor, hdr, tl) = (d[1], d[2] as usize, u16::from_be_bytes([d[3], d[4]]) as usize);
    let top = dec_dict(d.get(hdr..hdr + tl).ok_or("Top DICT outside the table")?)?;
    let (gsubrs, _, _) = dec_index(d.get(hdr + tl..).ok_or("Global Subr INDEX")?, true)?;
    let one = |op: u16| -> Result<Option<usize>, String> {
        match get1(&top, op) {
            None => Ok(None),
            Some(v) if v.len() == 1 && v[0] >= 0.0 => Ok(Some(v[0] as usize)),
            Some(v) => Err(format!("operator {:#x} operands {:?}", op, v)),
        }
    };
    let (charstrings, _, _) = dec_index(d.get(one(OP_CHARSTRINGS)?.ok_or("no CharStrings")?..).ok_or("CharStrings offset")?, true)?;
    let n = charstrings.len();
    let (fd_dicts, _, _) = dec_index(d.get(one(OP_FDARRAY)?.ok_or("no FDArray")?..).ok_or("FDArray offset")?, true)?;
    let mut fds = Vec::new();
    for fd in &fd_dicts {
        let raw = dec_dict(fd)?;
        let pv = get1(&raw, OP_PRIVATE).ok_or("Font DICT without Private")?;
        if pv.len() != 2 {
            return Err("Private operand count".into());
        }
        let (len, at) = (pv[0] as usize, pv[1] as usize);
        let praw = dec_dict(d.get(at..at + len).ok_or("Private DICT outside the table")?)?;
        let subrs = match get1(&praw, OP_SUBRS) {
            Some(v) if v.len() == 1 => Some(dec_index(d.get(at + v[0] as usize..).ok_or("Subrs offset")?, true)?.0),
            Some(_) => return Err("Subrs operand count".into()),
            None => None,
        };
        fds.push(PrivObs { dict: strip2(&praw), subrs });
    }
    let fd_of_glyph = match one(OP_FDSELECT)? {
        Some(o) => {
            let f = dec_fdselect(d.get(o..).ok_or("FDSelect offset")?, n)?;
            Some((0..n).map(|g| f.fd_of(g as u16)).collect())
        }
        None => None,
    };
    let vstore = match one(OP_VSTORE)? {
        Some(o) => {
            let len = u16::from_be_bytes(d.get(o..o + 2).ok_or("VariationStore length")?.try_into().unwrap()) as usize;
            let body = d.get(o + 2..o + 2 + len).ok_or_else(|| format!("VariationStore length {} at {} runs past the table ({} bytes)", len, o, d.len()))?;
            Some(dec_ivs(body)?)
        }
        None => None,
    };
    let font_matrix = get1(&top, OP_FONTMATRIX).cloned().filter(|v| v != &vec![0.001, 0.0, 0.0, 0.001, 0.0, 0.0]);
    Ok(Cff2Obs { minor, font_matrix, gsubrs, charstrings, fds, fd_of_glyph, vstore })
}
