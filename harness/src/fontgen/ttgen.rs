//! Generated TrueType fonts for the subsetting checks: a small glyph model with nested
//! composites (depth <= 4, shared components, components placed before and after their
//! parents), `numberOfHMetrics < numGlyphs`, short/long loca — encoded on top of
//! `fontgen::basic`. Also a WOFF 1.0 wrapper (written from the WOFF specification).

use super::basic::{glyf_simple, BasicFont, SimpleGlyph};
use super::buf::Buf;
use super::sfnt::parse_directory;
use crate::engine::util::pick;
use proptest::prelude::*;
use std::io::Write;

#[derive(Clone, Copy, Debug, PartialEq)]
pub enum ArgsModel {
    Xy(i16, i16),
    Points(u16, u16),
}

/// raw F2Dot14 values
#[derive(Clone, Copy, Debug, PartialEq)]
pub enum TransformModel {
    None,
    Scale(i16),
    XY(i16, i16),
    Matrix([i16; 4]),
}

#[derive(Clone, Debug, PartialEq)]
pub struct CompModel {
    pub glyph: u16,
    pub args: ArgsModel,
    /// use 16-bit arguments even when 8 bits would do
    pub force_words: bool,
    pub transform: TransformModel,
    /// ROUND_XY_TO_GRID 0x4, USE_MY_METRICS 0x200, OVERLAP_COMPOUND 0x400,
    /// SCALED_COMPONENT_OFFSET 0x800, UNSCALED_COMPONENT_OFFSET 0x1000
    pub flags: u16,
}

#[derive(Clone, Debug, PartialEq)]
pub enum GlyphModel {
    Empty,
    Simple(SimpleGlyph),
    Composite {
        bbox: (i16, i16, i16, i16),
        comps: Vec<CompModel>,
        /// Some(v): WE_HAVE_INSTRUCTIONS (on the last, another, or every component) followed by v (possibly empty)
        instructions: Option<Vec<u8>>,
    },
}

/// glyf record of a composite glyph
pub fn glyf_composite(bbox: (i16, i16, i16, i16), comps: &[CompModel], instructions: &Option<Vec<u8>>) -> Vec<u8> {
    let mut b = Buf::new();
    b.i16(-1).i16(bbox.0).i16(bbox.1).i16(bbox.2).i16(bbox.3);
    for (i, c) in comps.iter().enumerate() {
        let last = i + 1 == comps.len();
        let mut flags = c.flags & 0x1E04;
        let words = c.force_words
            || match c.args {
                ArgsModel::Xy(x, y) => !(-128..=127).contains(&x) || !(-128..=127).contains(&y),
                ArgsModel::Points(p, q) => p > 255 || q > 255,
            };
        if words {
            flags |= 0x0001;
        }
        if matches!(c.args, ArgsModel::Xy(..)) {
            flags |= 0x0002;
        }
        flags |= match c.transform {
            TransformModel::None => 0,
            TransformModel::Scale(_) => 0x0008,
            TransformModel::XY(..) => 0x0040,
            TransformModel::Matrix(_) => 0x0080,
        };
        if !last {
            flags |= 0x0020;
        }
        // WE_HAVE_INSTRUCTIONS: on the last component, or (chosen by the content, two records in
        // five) on another single component or on all of them — readers honour it anywhere
        if let Some(ins) = instructions {
            let n = comps.len();
            let sel = (ins.len() + n + comps[0].glyph as usize) % 5;
            let carrier = match sel {
                0 => Some((ins.len() + comps[0].glyph as usize) % n),
                1 => None, // all components
                _ => Some(n - 1),
            };
            if carrier.map_or(true, |k| k == i) {
                flags |= 0x0100;
            }
        }
        b.u16(flags).u16(c.glyph);
        match (c.args, words) {
            (ArgsModel::Xy(x, y), true) => {
                b.i16(x).i16(y);
            }
            (ArgsModel::Xy(x, y), false) => {
                b.i8(x as i8).i8(y as i8);
            }
            (ArgsModel::Points(p, q), true) => {
                b.u16(p).u16(q);
            }
            (ArgsModel::Points(p, q), false) => {
                b.u8(p as u8).u8(q as u8);
            }
        }
        match c.transform {
            TransformModel::None => {}
            TransformModel::Scale(s) => {
                b.i16(s);
            }
            TransformModel::XY(x, y) => {
                b.i16(x).i16(y);
            }
            TransformModel::Matrix(m) => {
                b.i16(m[0]).i16(m[1]).i16(m[2]).i16(m[3]);
            }
        }
    }
    if let Some(ins) = instructions {
        b.u16(ins.len() as u16).bytes(ins);
    }
    let mut v = b.into_vec();
    // "If the number of contours is negative, this is a composite glyph; -1 should be used":
    // every negative value marks a composite. One record in six (chosen by its content) carries
    // another negative value.
    let h = crate::engine::util::fnv1a(&v);
    if h % 6 == 0 {
        let noc: i16 = [-2, -3, -7, -256, -32768, -(2 + (h >> 8) as i16 % 100).abs() - 1][(h >> 4) as usize % 6];
        v[0..2].copy_from_slice(&noc.to_be_bytes());
    }
    v
}

#[derive(Clone, Debug)]
pub struct TtModel {
    pub glyphs: Vec<GlyphModel>,
    /// (advance, lsb) per glyph as *stored*; see `metric`
    pub metrics: Vec<(u16, i16)>,
    pub num_h_metrics: u16,
    pub long_loca: bool,
}

impl TtModel {
    /// the metrics a reader must report for glyph g
    pub fn metric(&self, g: u16) -> (u16, i16) {
        let nhm = self.num_h_metrics.max(1) as usize;
        let g = g as usize;
        if g < nhm {
            self.metrics[g]
        } else {
            (self.metrics[nhm - 1].0, self.metrics[g].1)
        }
    }

    pub fn to_basic(&self) -> BasicFont {
        let n = self.glyphs.len() as u16;
        let mut f = BasicFont::with_glyphs(n);
        f.glyph_records = self
            .glyphs
            .iter()
            .map(|g| match g {
                GlyphModel::Empty => Vec::new(),
                GlyphModel::Simple(s) => glyf_simple(s),
                GlyphModel::Composite {
                    bbox,
                    comps,
                    instructions,
                } => glyf_composite(*bbox, comps, instructions),
            })
            .collect();
        f.metrics = self.metrics.clone();
        f.num_h_metrics = self.num_h_metrics;
        f.long_loca = self.long_loca;
        for g in 1..n.min(60) {
            f.cmap.insert(0x40 + g as u32, g);
        }
        f
    }

    pub fn build(&self) -> Vec<u8> {
        self.to_basic().build()
    }

    /// nesting depth below glyph g (0 = not a composite)
    pub fn depth(&self, g: u16) -> u32 {
        match &self.glyphs[g as usize] {
            GlyphModel::Composite { comps, .. } => 1 + comps.iter().map(|c| self.depth(c.glyph)).max().unwrap_or(0),
            _ => 0,
        }
    }
}

#[derive(Clone, Debug)]
struct RawComp {
    pick: u32,
    xy: bool,
    a: i16,
    b: i16,
    force_words: bool,
    tkind: u8,
    t: [i16; 4],
    flag_bits: u8,
}

#[derive(Clone, Debug)]
struct RawGlyph {
    level: u8,
    contours: Vec<Vec<(i16, i16, bool)>>,
    simple_instr: Vec<u8>,
    comps: Vec<RawComp>,
    comp_instr: Option<Vec<u8>>,
    bbox: (i16, i16, i16, i16),
    adv: u16,
    lsb: i16,
}

fn raw_comp() -> impl Strategy<Value = RawComp> {
    (
        any::<u32>(),
        prop::bool::weighted(0.8),
        prop_oneof![3 => -100i16..100, 1 => -2000i16..2000],
        prop_oneof![3 => -100i16..100, 1 => 0i16..600],
        prop::bool::weighted(0.2),
        prop_oneof![5 => Just(0u8), 1 => Just(1u8), 1 => Just(2u8), 1 => Just(3u8)],
        [-16384i16..=16384, -8192i16..=8192, -8192i16..=8192, -16384i16..=16384],
        any::<u8>(),
    )
        .prop_map(|(pick, xy, a, b, force_words, tkind, t, flag_bits)| RawComp {
            pick,
            xy,
            a,
            b,
            force_words,
            tkind,
            t,
            flag_bits,
        })
}

fn raw_glyph() -> impl Strategy<Value = RawGlyph> {
    (
        prop_oneof![5 => Just(0u8), 3 => Just(1u8), 2 => Just(2u8), 1 => Just(3u8), 1 => Just(4u8)],
        prop::collection::vec(prop::collection::vec((-300i16..1200, -300i16..1200, any::<bool>()), 1..6), 0..3),
        prop::collection::vec(any::<u8>(), 0..4),
        prop::collection::vec(raw_comp(), 1..4),
        prop::option::weighted(0.3, prop::collection::vec(any::<u8>(), 0..5)),
        (-50i16..50, -50i16..50, 100i16..900, 100i16..900),
        prop_oneof![4 => 0u16..1500, 1 => any::<u16>()],
        -300i16..300,
    )
        .prop_map(|(level, contours, simple_instr, comps, comp_instr, bbox, adv, lsb)| RawGlyph {
            level,
            contours,
            simple_instr,
            comps,
            comp_instr,
            bbox,
            adv,
            lsb,
        })
}

fn assemble(raw: Vec<RawGlyph>, nhm_sel: (u8, u32), long_loca: bool) -> TtModel {
    let n = raw.len();
    let levels: Vec<u8> = raw.iter().map(|g| g.level).collect();
    let mut glyphs = Vec::with_capacity(n);
    for (i, g) in raw.iter().enumerate() {
        let lower: Vec<u16> = (0..n).filter(|&j| j != i && levels[j] < g.level).map(|j| j as u16).collect();
        if g.level == 0 || lower.is_empty() {
            if g.contours.is_empty() {
                glyphs.push(GlyphModel::Empty);
            } else {
                glyphs.push(GlyphModel::Simple(SimpleGlyph {
                    contours: g.contours.clone(),
                    instructions: g.simple_instr.clone(),
                }));
            }
            continue;
        }
        // the first component comes from the level directly below when there is one, so that
        // the intended nesting depth is actually reached
        let below: Vec<u16> = lower.iter().copied().filter(|&j| levels[j as usize] + 1 == g.level).collect();
        let comps = g
            .comps
            .iter()
            .enumerate()
            .map(|(k, c)| {
                let pool = if k == 0 && !below.is_empty() { &below } else { &lower };
                let glyph = pool[pick(pool.len(), c.pick)];
                let mut flags = 0u16;
                if c.flag_bits & 1 != 0 {
                    flags |= 0x0004;
                }
                if c.flag_bits & 2 != 0 {
                    flags |= 0x0200;
                }
                if c.flag_bits & 4 != 0 && k == 0 {
                    flags |= 0x0400;
                }
                match (c.flag_bits >> 3) & 7 {
                    1 => flags |= 0x0800,
                    2 => flags |= 0x1000,
                    _ => {}
                }
                CompModel {
                    glyph,
                    args: if c.xy {
                        ArgsModel::Xy(c.a, c.b)
                    } else {
                        ArgsModel::Points(c.a.unsigned_abs() % 300, c.b.unsigned_abs() % 300)
                    },
                    force_words: c.force_words,
                    transform: match c.tkind {
                        0 => TransformModel::None,
                        1 => TransformModel::Scale(c.t[0]),
                        2 => TransformModel::XY(c.t[0], c.t[3]),
                        _ => TransformModel::Matrix(c.t),
                    },
                    flags,
                }
            })
            .collect();
        glyphs.push(GlyphModel::Composite {
            bbox: g.bbox,
            comps,
            instructions: g.comp_instr.clone(),
        });
    }
    let num_h_metrics = match nhm_sel.0 {
        0 | 1 => n as u16,
        2 => 1,
        3 => (n as u16).saturating_sub(1).max(1),
        _ => 1 + pick(n, nhm_sel.1) as u16,
    };
    TtModel {
        glyphs,
        metrics: raw.iter().map(|g| (g.adv, g.lsb)).collect(),
        num_h_metrics,
        long_loca,
    }
}

/// Models with 2..=16 glyphs mostly, sometimes up to 60, sometimes 257..=320 (so that lists
/// crossing 255/256 glyphs exist).
pub fn tt_model() -> impl Strategy<Value = TtModel> {
    let n = prop_oneof![12 => 2usize..=16, 4 => 17usize..=60, 1 => 257usize..=320];
    (
        n.prop_flat_map(|n| prop::collection::vec(raw_glyph(), n)),
        (0u8..6, any::<u32>()),
        any::<bool>(),
    )
        .prop_map(|(raw, nhm, long)| assemble(raw, nhm, long))
}

/// Wrap a bare sfnt as WOFF 1.0: tables in directory order, each zlib-compressed when that
/// is smaller (as the specification requires), 4-byte aligned, no metadata / private block.
pub fn woff1_wrap(sfnt: &[u8]) -> Option<Vec<u8>> {
    let (flavour, dir) = parse_directory(sfnt)?;
    let mut entries = Buf::new();
    let mut data = Buf::new();
    let data_start = 44 + 20 * dir.len();
    let mut total_sfnt = 12 + 16 * dir.len();
    for e in &dir {
        let orig = sfnt.get(e.offset as usize..(e.offset as usize).checked_add(e.length as usize)?)?;
        let mut enc = flate2::write::ZlibEncoder::new(Vec::new(), flate2::Compression::new(6));
        enc.write_all(orig).ok()?;
        let comp = enc.finish().ok()?;
        let stored: &[u8] = if comp.len() < orig.len() { &comp } else { orig };
        entries
            .tag(&e.tag)
            .u32((data_start + data.len()) as u32)
            .u32(stored.len() as u32)
            .u32(orig.len() as u32)
            .u32(e.checksum);
        data.bytes(stored).pad_to(4);
        total_sfnt += (orig.len() + 3) / 4 * 4;
    }
    let mut b = Buf::new();
    b.tag(b"wOFF").u32(flavour).u32((data_start + data.len()) as u32).u16(dir.len() as u16).u16(0);
    b.u32(total_sfnt as u32).u16(1).u16(0);
    b.u32(0).u32(0).u32(0).u32(0).u32(0);
    b.bytes(&entries.0).bytes(&data.0);
    Some(b.into_vec())
}

/// A small CFF (version 1) builder for the subsetting checks: name-keyed or CID-keyed (1-3 Font
/// DICTs, FDSelect format 0 or 3), global and per-FD local subroutine INDEXes of chosen sizes
/// (so that the bias edges 1240 / 33900 can be straddled), glyphs made of rmoveto / rlineto /
/// rrcurveto segments and subroutine calls, widths relative to nominalWidthX / defaultWidthX.
/// Written from Adobe Technical Notes #5176 and #5177.
pub mod cffgen {
    use super::super::basic::{maxp_v05, BasicFont};
    use super::super::buf::Buf;
    use super::super::sfnt::{build_sfnt, OTTO};
    use crate::engine::util::pick;
    use proptest::prelude::*;

    #[derive(Clone, Debug, PartialEq)]
    pub enum Seg {
        Line(i16, i16),
        Curve([i16; 6]),
        /// call local subr `index` (unbiased) of the glyph's FD
        Local(usize),
        /// call global subr `index` (unbiased)
        Global(usize),
    }

    #[derive(Clone, Debug)]
    pub struct Glyph {
        pub width: u16,
        pub lsb: i16,
        pub fd: u8,
        /// None: no path at all (just width + endchar)
        pub start: Option<(i16, i16)>,
        pub segs: Vec<Seg>,
        /// `adx ady bchar achar endchar` (Type 2 Appendix C): accent offset and the glyph ids of
        /// base and accent; in the fonts built here glyph k has SID k, and standard encoding
        /// code 31 + k maps to SID k for k in 1..=95. Name-keyed fonts only.
        pub seac: Option<(i16, i16, u16, u16)>,
    }

    #[derive(Clone, Debug)]
    pub struct Fd {
        pub n_lsubrs: usize,
        pub default_width: i16,
        pub nominal_width: i16,
    }

    #[derive(Clone, Debug)]
    pub struct CffModel {
        pub cid: bool,
        pub fdselect3: bool,
        pub glyphs: Vec<Glyph>,
        pub n_gsubrs: usize,
        pub fds: Vec<Fd>,
    }

    pub fn bias(n: usize) -> i32 {
        if n < 1240 {
            107
        } else if n < 33900 {
            1131
        } else {
            32768
        }
    }

    /// Type 2 charstring integer
    pub fn cs_int(b: &mut Buf, v: i32) {
        match v {
            -107..=107 => {
                b.u8((v + 139) as u8);
            }
            108..=1131 => {
                let w = v - 108;
                b.u8((w / 256 + 247) as u8).u8((w % 256) as u8);
            }
            -1131..=-108 => {
                let w = -v - 108;
                b.u8((w / 256 + 251) as u8).u8((w % 256) as u8);
            }
            _ => {
                b.u8(28).i16(v as i16);
            }
        }
    }

    /// the line a subroutine draws: distinct per index, different for local and global
    pub fn subr_delta(global: bool, k: usize) -> (i16, i16) {
        if global {
            ((k % 97) as i16 + 1, (k % 89) as i16 + 2)
        } else {
            (-((k % 83) as i16) - 1, (k % 101) as i16 + 3)
        }
    }

    /// local subr k additionally calls this global subr (nested call) when Some
    pub fn nested_global(k: usize, n_gsubrs: usize) -> Option<usize> {
        if n_gsubrs > 0 && k % 7 == 3 {
            Some((k * 31) % n_gsubrs)
        } else {
            None
        }
    }

    pub fn subr_bytes(global: bool, k: usize, n_gsubrs: usize) -> Vec<u8> {
        let mut b = Buf::new();
        let (dx, dy) = subr_delta(global, k);
        cs_int(&mut b, dx as i32);
        cs_int(&mut b, dy as i32);
        b.u8(5); // rlineto
        if !global {
            if let Some(g) = nested_global(k, n_gsubrs) {
                cs_int(&mut b, g as i32 - bias(n_gsubrs));
                b.u8(29); // callgsubr
            }
        }
        b.u8(11); // return
        b.into_vec()
    }

    pub fn index(objects: &[Vec<u8>]) -> Vec<u8> {
        let mut b = Buf::new();
        b.u16(objects.len() as u16);
        if objects.is_empty() {
            return b.into_vec();
        }
        let total: usize = objects.iter().map(|o| o.len()).sum::<usize>() + 1;
        let off_size = if total < 0x100 {
            1
        } else if total < 0x1_0000 {
            2
        } else if total < 0x100_0000 {
            3
        } else {
            4
        };
        b.u8(off_size);
        let mut off = 1usize;
        let put = |b: &mut Buf, v: usize| {
            let bytes = (v as u32).to_be_bytes();
            b.bytes(&bytes[4 - off_size as usize..]);
        };
        put(&mut b, off);
        for o in objects {
            off += o.len();
            put(&mut b, off);
        }
        for o in objects {
            b.bytes(o);
        }
        b.into_vec()
    }

    fn dict_int5(b: &mut Buf, v: i32) {
        b.u8(29).i32(v);
    }

    impl CffModel {
        pub fn charstring(&self, g: &Glyph) -> Vec<u8> {
            let fd = &self.fds[g.fd as usize];
            let mut b = Buf::new();
            if g.width as i32 != fd.default_width as i32 {
                cs_int(&mut b, g.width as i32 - fd.nominal_width as i32);
            }
            if let Some((adx, ady, base, accent)) = g.seac {
                if b.is_empty() {
                    // four operands exactly would be ambiguous with "width + 3": always state the width
                    cs_int(&mut b, g.width as i32 - fd.nominal_width as i32);
                }
                cs_int(&mut b, adx as i32);
                cs_int(&mut b, ady as i32);
                cs_int(&mut b, 31 + base as i32);
                cs_int(&mut b, 31 + accent as i32);
            } else if let Some((x, y)) = g.start {
                cs_int(&mut b, x as i32);
                cs_int(&mut b, y as i32);
                b.u8(21); // rmoveto
                for s in &g.segs {
                    match s {
                        Seg::Line(dx, dy) => {
                            cs_int(&mut b, *dx as i32);
                            cs_int(&mut b, *dy as i32);
                            b.u8(5);
                        }
                        Seg::Curve(v) => {
                            for x in v {
                                cs_int(&mut b, *x as i32);
                            }
                            b.u8(8); // rrcurveto
                        }
                        Seg::Local(k) => {
                            cs_int(&mut b, *k as i32 - bias(fd.n_lsubrs));
                            b.u8(10);
                        }
                        Seg::Global(k) => {
                            cs_int(&mut b, *k as i32 - bias(self.n_gsubrs));
                            b.u8(29);
                        }
                    }
                }
            }
            b.u8(14); // endchar
            b.into_vec()
        }

        /// The path of glyph g as absolute points: (kind, coordinates) with kind 'M','L','C','Z'.
        pub fn path(&self, g: &Glyph) -> Vec<(char, Vec<i32>)> {
            let mut out = Vec::new();
            if let Some((adx, ady, base, accent)) = g.seac {
                out = self.path(&self.glyphs[base as usize]);
                for (k, mut pts) in self.path(&self.glyphs[accent as usize]) {
                    for (i, v) in pts.iter_mut().enumerate() {
                        *v += if i % 2 == 0 { adx as i32 } else { ady as i32 };
                    }
                    out.push((k, pts));
                }
                return out;
            }
            let (mut x, mut y) = match g.start {
                Some((x, y)) => (x as i32, y as i32),
                None => return out,
            };
            out.push(('M', vec![x, y]));
            for s in &g.segs {
                let lines: Vec<(i16, i16)> = match s {
                    Seg::Curve(v) => {
                        let mut pts = Vec::new();
                        for p in v.chunks(2) {
                            x += p[0] as i32;
                            y += p[1] as i32;
                            pts.push(x);
                            pts.push(y);
                        }
                        out.push(('C', pts));
                        continue;
                    }
                    Seg::Line(dx, dy) => vec![(*dx, *dy)],
                    Seg::Global(k) => vec![subr_delta(true, *k)],
                    Seg::Local(k) => {
                        let mut v = vec![subr_delta(false, *k)];
                        if let Some(gk) = nested_global(*k, self.n_gsubrs) {
                            v.push(subr_delta(true, gk));
                        }
                        v
                    }
                };
                for (dx, dy) in lines {
                    x += dx as i32;
                    y += dy as i32;
                    out.push(('L', vec![x, y]));
                }
            }
            out.push(('Z', vec![]));
            out
        }

        /// The `CFF ` table.
        pub fn cff_table(&self) -> Vec<u8> {
            let n = self.glyphs.len();
            let header = vec![1u8, 0, 4, 4];
            let name = index(&[b"VerifCFF".to_vec()]);
            let strings = if self.cid { index(&[b"Adobe".to_vec(), b"Identity".to_vec()]) } else { index(&[]) };
            let gsubrs = index(&(0..self.n_gsubrs).map(|k| subr_bytes(true, k, self.n_gsubrs)).collect::<Vec<_>>());
            // charset: format 0, SID/CID k for glyph k
            let mut charset = Buf::new();
            charset.u8(0);
            for k in 1..n {
                charset.u16(k as u16);
            }
            let charset = charset.into_vec();
            let fdselect = if !self.cid {
                Vec::new()
            } else if self.fdselect3 {
                let mut ranges: Vec<(u16, u8)> = Vec::new();
                for (k, g) in self.glyphs.iter().enumerate() {
                    if ranges.last().map(|r| r.1) != Some(g.fd) {
                        ranges.push((k as u16, g.fd));
                    }
                }
                let mut b = Buf::new();
                b.u8(3).u16(ranges.len() as u16);
                for r in &ranges {
                    b.u16(r.0).u8(r.1);
                }
                b.u16(n as u16);
                b.into_vec()
            } else {
                let mut b = Buf::new();
                b.u8(0);
                for g in &self.glyphs {
                    b.u8(g.fd);
                }
                b.into_vec()
            };
            let charstrings = index(&self.glyphs.iter().map(|g| self.charstring(g)).collect::<Vec<_>>());
            // private dicts + local subrs (Subrs offset = size of the private dict: they follow it)
            let private = |fd: &Fd| -> Vec<u8> {
                let mut b = Buf::new();
                cs_dict_int(&mut b, fd.default_width as i32);
                b.u8(20);
                cs_dict_int(&mut b, fd.nominal_width as i32);
                b.u8(21);
                if fd.n_lsubrs > 0 {
                    let size = b.len() + 6;
                    dict_int5(&mut b, size as i32);
                    b.u8(19);
                }
                b.into_vec()
            };
            let lsubrs = |fd: &Fd| -> Vec<u8> {
                if fd.n_lsubrs == 0 {
                    Vec::new()
                } else {
                    index(&(0..fd.n_lsubrs).map(|k| subr_bytes(false, k, self.n_gsubrs)).collect::<Vec<_>>())
                }
            };
            let privs: Vec<(Vec<u8>, Vec<u8>)> = self.fds.iter().map(|fd| (private(fd), lsubrs(fd))).collect();

            // two passes: offsets are fixed-size operands, so the layout does not move
            let build = |offs: &Offsets| -> (Vec<u8>, Offsets) {
                let mut top = Buf::new();
                if self.cid {
                    cs_dict_int(&mut top, 391);
                    cs_dict_int(&mut top, 392);
                    cs_dict_int(&mut top, 0);
                    top.u8(12).u8(30);
                }
                dict_int5(&mut top, offs.charset as i32);
                top.u8(15);
                dict_int5(&mut top, offs.charstrings as i32);
                top.u8(17);
                if self.cid {
                    dict_int5(&mut top, offs.fdarray as i32);
                    top.u8(12).u8(36);
                    dict_int5(&mut top, offs.fdselect as i32);
                    top.u8(12).u8(37);
                    dict_int5(&mut top, n as i32);
                    top.u8(12).u8(34);
                } else {
                    dict_int5(&mut top, privs[0].0.len() as i32);
                    dict_int5(&mut top, offs.privates[0] as i32);
                    top.u8(18);
                }
                let top_index = index(&[top.into_vec()]);
                let fdarray = if self.cid {
                    index(
                        &privs
                            .iter()
                            .enumerate()
                            .map(|(i, p)| {
                                let mut b = Buf::new();
                                dict_int5(&mut b, p.0.len() as i32);
                                dict_int5(&mut b, offs.privates[i] as i32);
                                b.u8(18);
                                b.into_vec()
                            })
                            .collect::<Vec<_>>(),
                    )
                } else {
                    Vec::new()
                };
                let mut out = Buf::new();
                let mut real = Offsets::default();
                out.bytes(&header).bytes(&name).bytes(&top_index).bytes(&strings).bytes(&gsubrs);
                real.charset = out.len();
                out.bytes(&charset);
                real.fdselect = out.len();
                out.bytes(&fdselect);
                real.charstrings = out.len();
                out.bytes(&charstrings);
                real.fdarray = out.len();
                out.bytes(&fdarray);
                for p in &privs {
                    real.privates.push(out.len());
                    out.bytes(&p.0).bytes(&p.1);
                }
                (out.into_vec(), real)
            };
            let mut guess = Offsets::default();
            guess.privates = vec![0; privs.len()];
            let (_, real) = build(&guess);
            let (bytes, check) = build(&real);
            debug_assert_eq!(real.charstrings, check.charstrings);
            bytes
        }

        /// A complete OpenType/CFF font around the table.
        pub fn build_otf(&self) -> Vec<u8> {
            let n = self.glyphs.len() as u16;
            let mut f = BasicFont::with_glyphs(n);
            f.metrics = self.glyphs.iter().map(|g| (g.width, g.lsb)).collect();
            f.num_h_metrics = n;
            for g in 1..n.min(60) {
                f.cmap.insert(0x40 + g as u32, g);
            }
            let mut tables: Vec<([u8; 4], Vec<u8>)> = f.tables().into_iter().filter(|t| &t.0 != b"glyf" && &t.0 != b"loca" && &t.0 != b"maxp").collect();
            tables.push((*b"maxp", maxp_v05(n)));
            tables.push((*b"CFF ", self.cff_table()));
            build_sfnt(OTTO, &tables)
        }
    }

    #[derive(Clone, Debug, Default)]
    struct Offsets {
        charset: usize,
        fdselect: usize,
        charstrings: usize,
        fdarray: usize,
        privates: Vec<usize>,
    }

    /// DICT integer operand, shortest form
    fn cs_dict_int(b: &mut Buf, v: i32) {
        match v {
            -107..=107 => {
                b.u8((v + 139) as u8);
            }
            108..=1131 => {
                let w = v - 108;
                b.u8((w / 256 + 247) as u8).u8((w % 256) as u8);
            }
            -1131..=-108 => {
                let w = -v - 108;
                b.u8((w / 256 + 251) as u8).u8((w % 256) as u8);
            }
            -32768..=32767 => {
                b.u8(28).i16(v as i16);
            }
            _ => dict_int5(b, v),
        }
    }

    #[derive(Clone, Debug)]
    struct RawSeg {
        kind: u8,
        v: [i16; 6],
        r: u32,
        edge: u8,
    }

    #[derive(Clone, Debug)]
    struct RawGlyph {
        width_kind: u8,
        width: u16,
        lsb: i16,
        fd: u32,
        empty: bool,
        start: (i16, i16),
        segs: Vec<RawSeg>,
        seac: (bool, i16, i16, u32, u32),
    }

    fn subr_count() -> impl Strategy<Value = usize> {
        prop_oneof![
            3 => Just(0usize),
            6 => 1usize..=6,
            2 => 100usize..=400,
            6 => 1236usize..=1244,
            3 => 1245usize..=3000,
            1 => 33896usize..=33903,
        ]
    }

    fn raw_glyph() -> impl Strategy<Value = RawGlyph> {
        let seg = (0u8..8, [-300i16..300, -300i16..300, -60i16..60, -60i16..60, -40i16..40, -40i16..40], any::<u32>(), 0u8..4)
            .prop_map(|(kind, v, r, edge)| RawSeg { kind, v, r, edge });
        (
            0u8..4,
            0u16..1500,
            -100i16..100,
            any::<u32>(),
            prop::bool::weighted(0.12),
            (-200i16..800, -200i16..800),
            prop::collection::vec(seg, 0..6),
            (prop::bool::weighted(0.03), -100i16..300, -100i16..600, any::<u32>(), any::<u32>()),
        )
            .prop_map(|(width_kind, width, lsb, fd, empty, start, segs, seac)| RawGlyph {
                width_kind,
                width,
                lsb,
                fd,
                empty,
                start,
                segs,
                seac,
            })
    }

    pub fn cff_model() -> impl Strategy<Value = CffModel> {
        let n = prop_oneof![8 => 2usize..=12, 3 => 13usize..=60, 3 => 257usize..=330];
        (
            any::<bool>(),
            any::<bool>(),
            n.prop_flat_map(|n| prop::collection::vec(raw_glyph(), n)),
            subr_count(),
            prop::collection::vec((subr_count(), 0i16..900, 0i16..900), 1..=3),
        )
            .prop_map(|(cid, fdselect3, raw, n_gsubrs, fds)| {
                let fds: Vec<Fd> = fds
                    .into_iter()
                    .take(if cid { 3 } else { 1 })
                    .map(|(n_lsubrs, default_width, nominal_width)| Fd {
                        n_lsubrs,
                        default_width,
                        nominal_width,
                    })
                    .collect();
                let glyphs = raw
                    .iter()
                    .map(|g| {
                        let fd = pick(fds.len(), g.fd) as u8;
                        let f = &fds[fd as usize];
                        let width = match g.width_kind {
                            0 => f.default_width as u16,
                            1 => f.nominal_width as u16,
                            _ => g.width,
                        };
                        let idx = |n: usize, s: &RawSeg| match s.edge {
                            0 => 0,
                            1 => n - 1,
                            _ => pick(n, s.r),
                        };
                        let segs = g
                            .segs
                            .iter()
                            .map(|s| match s.kind {
                                0 | 1 if f.n_lsubrs > 0 => Seg::Local(idx(f.n_lsubrs, s)),
                                2 | 3 if n_gsubrs > 0 => Seg::Global(idx(n_gsubrs, s)),
                                4 => Seg::Curve(s.v),
                                _ => Seg::Line(s.v[0], s.v[1]),
                            })
                            .collect();
                        Glyph {
                            width,
                            lsb: g.lsb,
                            fd,
                            start: if g.empty { None } else { Some(g.start) },
                            segs,
                            seac: None,
                        }
                    })
                    .collect::<Vec<Glyph>>();
                let mut glyphs = glyphs;
                if !cid {
                    // seac glyphs: base and accent are plain glyphs with SIDs reachable through
                    // the standard encoding (glyph ids 1..=95)
                    // (their width equals defaultWidthX, i.e. their charstrings carry no width operand:
                    // allsorts' interpreter does not expect one inside a seac component)
                    let plain: Vec<u16> = (1..glyphs.len().min(96))
                        .filter(|k| !raw[*k].seac.0 && glyphs[*k].start.is_some() && glyphs[*k].width as i32 == fds[0].default_width as i32)
                        .map(|k| k as u16)
                        .collect();
                    if !plain.is_empty() {
                        for (k, g) in raw.iter().enumerate().skip(1) {
                            if g.seac.0 {
                                let base = plain[pick(plain.len(), g.seac.3)];
                                let accent = plain[pick(plain.len(), g.seac.4)];
                                glyphs[k].seac = Some((g.seac.1, g.seac.2, base, accent));
                                glyphs[k].start = None;
                                glyphs[k].segs.clear();
                            }
                        }
                    }
                }
                CffModel {
                    cid,
                    fdselect3,
                    glyphs,
                    n_gsubrs,
                    fds,
                }
            })
    }
}
