//! Container ENCODERS written from the OpenType ("Organization of an OpenType font", "Font
//! collections") and WOFF 1.0 specifications. A *container model* (a pool of table blobs and
//! member fonts that reference them) is turned into bytes with freely chosen layout:
//!
//! * bare sfnt: directory sorted or permuted, table data in any order, gaps, unaligned data,
//!   several records sharing one byte range, one record addressing a sub-range of another;
//! * TTC version 1 / 2: 1..n member offset tables anywhere in the file, tables shared between
//!   members (one byte range referenced by several directories) or duplicated;
//! * WOFF 1.0: every table independently zlib-deflated (any level) or stored — always stored
//!   when deflate does not make it smaller, as the format requires — optional metadata and
//!   private blocks.
//!
//! Nothing here calls allsorts.

use super::buf::Buf;
use super::sfnt::{search_fields, table_checksum, Tag};
use std::collections::BTreeMap;
use std::io::Write;

pub const TTCF: u32 = 0x7474_6366;
pub const WOFF: u32 = 0x774F_4646;

#[derive(Clone, Debug, PartialEq)]
pub struct Blob {
    pub tag: Tag,
    pub data: Vec<u8>,
    /// `Some((src, start))`: `data` equals `pool[src].data[start..start + data.len()]`, and the
    /// encoder may address it as a sub-range of the source instead of storing it again.
    /// The source must itself have `within == None`.
    pub within: Option<(usize, usize)>,
}

#[derive(Clone, Debug, PartialEq)]
pub struct Member {
    pub flavour: u32,
    /// indices into the pool; tags are unique inside one member
    pub tables: Vec<usize>,
}

#[derive(Clone, Debug, PartialEq)]
pub struct Model {
    pub pool: Vec<Blob>,
    pub members: Vec<Member>,
}

impl Model {
    pub fn member_tables(&self, m: usize) -> Vec<(Tag, &[u8])> {
        self.members[m].tables.iter().map(|&b| (self.pool[b].tag, &self.pool[b].data[..])).collect()
    }
}

#[derive(Clone, Copy, Debug, PartialEq)]
pub enum DataOrder {
    /// in order of first reference, walking the members and their directories
    Directory,
    Reverse,
    /// sorted by `chunk_keys`
    Keyed,
}

#[derive(Clone, Debug)]
pub struct SfntLayout {
    pub sorted_dir: bool,
    /// sort keys that permute the directory records when `sorted_dir` is false (cyclic)
    pub dir_keys: Vec<u32>,
    pub order: DataOrder,
    pub chunk_keys: Vec<u32>,
    /// number of filler bytes in front of chunk k (cyclic; empty = none)
    pub gaps: Vec<u8>,
    pub gap_fill: u8,
    /// every chunk (directory or table data) starts on a 4-byte boundary
    pub aligned: bool,
    /// per pool blob (cyclic): one byte range referenced by every user instead of one copy per member
    pub store_once: Vec<bool>,
    /// honour `Blob::within`
    pub use_subranges: bool,
    /// records of one directory whose tables have identical bytes point at one range
    pub merge_identical: bool,
    /// TTC: offset tables directly behind the header in member order (else anywhere)
    pub dirs_first: bool,
    pub ttc_version: u16,
    /// TTC v2: (dsigTag, dsigLength, dsigOffset)
    pub dsig: (u32, u32, u32),
    pub trailing: u8,
}

impl SfntLayout {
    pub fn canonical() -> SfntLayout {
        SfntLayout {
            sorted_dir: true,
            dir_keys: vec![],
            order: DataOrder::Directory,
            chunk_keys: vec![],
            gaps: vec![],
            gap_fill: 0,
            aligned: true,
            store_once: vec![true],
            use_subranges: false,
            merge_identical: false,
            dirs_first: true,
            ttc_version: 1,
            dsig: (0, 0, 0),
            trailing: 0,
        }
    }
}

#[derive(Clone, Debug, Default)]
pub struct LayoutFacts {
    /// byte ranges (offset, non-zero length) referenced by at least two directory records
    pub shared_ranges: usize,
    /// ... of which referenced by records of two different members
    pub shared_between_members: usize,
    pub subranges: usize,
    pub unaligned_tables: usize,
    pub unaligned_dirs: usize,
    pub has_gaps: bool,
    pub nonzero_fill: bool,
    pub data_in_directory_order: bool,
    pub dir_sorted: bool,
    pub dir_after_data: bool,
}

#[derive(Clone, Debug)]
pub struct Encoded {
    pub bytes: Vec<u8>,
    pub dir_at: Vec<usize>,
    /// per member: directory records as written (tag, checksum, offset, length), in written order
    pub records: Vec<Vec<(Tag, u32, u32, u32)>>,
    pub facts: LayoutFacts,
}

fn cyc<T: Copy>(v: &[T], i: usize, default: T) -> T {
    if v.is_empty() {
        default
    } else {
        v[i % v.len()]
    }
}

#[derive(Clone, Copy, Debug, PartialEq, Eq, PartialOrd, Ord)]
enum Chunk {
    Dir(usize),
    /// (pool index, owning member or usize::MAX for a shared copy)
    Data(usize, usize),
}

const SHARED: usize = usize::MAX;

/// Encode `model` as a bare sfnt (`ttc == false`; exactly one member) or as a TTC.
pub fn encode_sfnt(model: &Model, lay: &SfntLayout, ttc: bool) -> Encoded {
    assert!(ttc || model.members.len() == 1);
    let nm = model.members.len();
    // which stored copy each (member, table position) uses, plus an inner offset
    let mut data_chunks: Vec<Chunk> = Vec::new();
    let mut uses: Vec<Vec<(Chunk, usize)>> = Vec::new();
    let mut subranges = 0usize;
    let add = |c: Chunk, v: &mut Vec<Chunk>| {
        if !v.contains(&c) {
            v.push(c);
        }
    };
    for (m, mem) in model.members.iter().enumerate() {
        let mut u = Vec::new();
        for (j, &b) in mem.tables.iter().enumerate() {
            let blob = &model.pool[b];
            let sub = match blob.within {
                Some((src, start))
                    if lay.use_subranges
                        && src < model.pool.len()
                        && model.pool[src].within.is_none()
                        && model.pool[src].data.get(start..start + blob.data.len()) == Some(&blob.data[..]) =>
                {
                    Some((src, start))
                }
                _ => None,
            };
            if let Some((src, start)) = sub {
                let c = Chunk::Data(src, SHARED);
                add(c, &mut data_chunks);
                u.push((c, start));
                subranges += 1;
                continue;
            }
            if lay.merge_identical && !blob.data.is_empty() {
                // an earlier table of this member with identical bytes?
                if let Some(k) = (0..j).find(|&k| model.pool[mem.tables[k]].data == blob.data) {
                    let prev: (Chunk, usize) = u[k];
                    u.push(prev);
                    continue;
                }
            }
            let c = if cyc(&lay.store_once, b, true) { Chunk::Data(b, SHARED) } else { Chunk::Data(b, m) };
            add(c, &mut data_chunks);
            u.push((c, 0));
        }
        uses.push(u);
    }
    match lay.order {
        DataOrder::Directory => {}
        DataOrder::Reverse => data_chunks.reverse(),
        DataOrder::Keyed => {
            let mut keyed: Vec<(u32, usize, Chunk)> =
                data_chunks.iter().enumerate().map(|(i, c)| (cyc(&lay.chunk_keys, i, 0), i, *c)).collect();
            keyed.sort();
            data_chunks = keyed.into_iter().map(|k| k.2).collect();
        }
    }
    // chunk sequence
    let mut seq: Vec<Chunk> = Vec::new();
    if !ttc {
        seq.push(Chunk::Dir(0));
        seq.extend(data_chunks.iter().copied());
    } else if lay.dirs_first {
        seq.extend((0..nm).map(Chunk::Dir));
        seq.extend(data_chunks.iter().copied());
    } else {
        // directories spread between the data chunks by key
        let mut keyed: Vec<(u32, usize, Chunk)> = Vec::new();
        for (i, c) in data_chunks.iter().enumerate() {
            keyed.push((((i as u64 * 0xFFFF_FFFF) / (data_chunks.len().max(1) as u64)) as u32, i, *c));
        }
        for m in 0..nm {
            keyed.push((cyc(&lay.chunk_keys, data_chunks.len() + m, (m as u32) << 28), usize::MAX - nm + m, Chunk::Dir(m)));
        }
        keyed.sort();
        seq = keyed.into_iter().map(|k| k.2).collect();
    }
    let header_len = if !ttc {
        0
    } else {
        12 + 4 * nm + if lay.ttc_version >= 2 { 12 } else { 0 }
    };
    let size_of = |c: &Chunk| match c {
        Chunk::Dir(m) => 12 + 16 * model.members[*m].tables.len(),
        Chunk::Data(b, _) => model.pool[*b].data.len(),
    };
    let mut pos = header_len;
    let mut at: BTreeMap<Chunk, usize> = BTreeMap::new();
    let mut has_gaps = false;
    for (k, c) in seq.iter().enumerate() {
        let first_fixed = !ttc && k == 0;
        if !first_fixed {
            let g = cyc(&lay.gaps, k, 0) as usize;
            if g > 0 {
                has_gaps = true;
            }
            pos += g;
            if lay.aligned {
                pos = (pos + 3) / 4 * 4;
            }
        }
        at.insert(*c, pos);
        pos += size_of(c);
    }
    if lay.aligned {
        pos = (pos + 3) / 4 * 4;
    }
    pos += lay.trailing as usize;
    // alignment padding is zero unless explicit gaps / trailing bytes were requested
    let fill = if has_gaps || lay.trailing > 0 { lay.gap_fill } else { 0 };
    let mut bytes = vec![fill; pos];
    // table data
    for c in &data_chunks {
        if let Chunk::Data(b, _) = c {
            let o = at[c];
            let d = &model.pool[*b].data;
            bytes[o..o + d.len()].copy_from_slice(d);
        }
    }
    // directories
    let mut records_all = Vec::new();
    let mut dir_at = Vec::new();
    let mut range_users: BTreeMap<(usize, usize), Vec<usize>> = BTreeMap::new();
    let mut facts = LayoutFacts::default();
    for (m, mem) in model.members.iter().enumerate() {
        let mut recs: Vec<(Tag, u32, u32, u32)> = Vec::new();
        for (j, &b) in mem.tables.iter().enumerate() {
            let blob = &model.pool[b];
            let (c, inner) = uses[m][j];
            let off = at[&c] + inner;
            recs.push((blob.tag, table_checksum(&blob.data), off as u32, blob.data.len() as u32));
            if !blob.data.is_empty() {
                range_users.entry((off, blob.data.len())).or_default().push(m);
            }
            if off % 4 != 0 {
                facts.unaligned_tables += 1;
            }
        }
        if lay.sorted_dir {
            recs.sort_by(|a, b| a.0.cmp(&b.0));
        } else {
            let mut keyed: Vec<(u32, usize)> = (0..recs.len()).map(|i| (cyc(&lay.dir_keys, i, 0), i)).collect();
            keyed.sort();
            recs = keyed.into_iter().map(|(_, i)| recs[i]).collect();
        }
        let n = recs.len() as u16;
        let (sr, es, rs) = search_fields(n, 16);
        let mut d = Buf::new();
        d.u32(mem.flavour).u16(n).u16(sr).u16(es).u16(rs);
        for r in &recs {
            d.tag(&r.0).u32(r.1).u32(r.2).u32(r.3);
        }
        let o = at[&Chunk::Dir(m)];
        bytes[o..o + d.len()].copy_from_slice(&d.0);
        if o % 4 != 0 {
            facts.unaligned_dirs += 1;
        }
        if recs.iter().any(|r| r.3 > 0 && (r.2 as usize) < o) {
            facts.dir_after_data = true;
        }
        dir_at.push(o);
        records_all.push(recs);
    }
    if ttc {
        let mut h = Buf::new();
        h.u32(TTCF).u16(lay.ttc_version).u16(0).u32(nm as u32);
        for o in &dir_at {
            h.u32(*o as u32);
        }
        if lay.ttc_version >= 2 {
            if lay.dsig.1 == u32::MAX && lay.dsig.2 == u32::MAX && lay.trailing > 0 {
                // a signature block that really exists: the trailing bytes at the end of the file
                // (where signed collections put it), offset measured from the start of the file
                let len = lay.trailing as u32;
                h.u32(lay.dsig.0).u32(len).u32(bytes.len() as u32 - len);
            } else {
                h.u32(lay.dsig.0).u32(lay.dsig.1).u32(lay.dsig.2);
            }
        }
        bytes[..h.len()].copy_from_slice(&h.0);
    }
    for (_, users) in &range_users {
        if users.len() >= 2 {
            facts.shared_ranges += 1;
            if users.iter().any(|m| *m != users[0]) {
                facts.shared_between_members += 1;
            }
        }
    }
    facts.subranges = subranges;
    facts.has_gaps = has_gaps;
    facts.nonzero_fill = fill != 0;
    facts.dir_sorted = records_all.iter().all(|r| r.windows(2).all(|w| w[0].0 < w[1].0));
    facts.data_in_directory_order = records_all.iter().all(|r| {
        let nz: Vec<u32> = r.iter().filter(|x| x.3 > 0).map(|x| x.2).collect();
        nz.windows(2).all(|w| w[0] <= w[1])
    });
    Encoded { bytes, dir_at, records: records_all, facts }
}

// ------------------------------------------------------------------------------ WOFF 1.0

#[derive(Clone, Copy, Debug, PartialEq)]
pub enum Comp {
    Stored,
    /// zlib level 0..=9
    Deflate(u32),
    /// zlib level 0..=9, kept even when the stream is longer than the table
    DeflateAlways(u32),
}

#[derive(Clone, Debug)]
pub struct WoffLayout {
    /// per table in *model* order (cyclic)
    pub comp: Vec<Comp>,
    pub order: DataOrder,
    pub chunk_keys: Vec<u32>,
    /// extended metadata (XML bytes, zlib level)
    pub meta: Option<(Vec<u8>, u32)>,
    pub private: Option<Vec<u8>>,
    pub version: (u16, u16),
    // ---- choices that leave the WOFF 1.0 conformance rules (directory sorted by tag, data
    // blocks 4-byte aligned, padded with zeros, no extraneous data)
    pub sorted_dir: bool,
    pub dir_keys: Vec<u32>,
    pub aligned: bool,
    pub gaps: Vec<u8>,
    pub gap_fill: u8,
}

impl WoffLayout {
    pub fn canonical() -> WoffLayout {
        WoffLayout {
            comp: vec![Comp::Deflate(6)],
            order: DataOrder::Directory,
            chunk_keys: vec![],
            meta: None,
            private: None,
            version: (1, 0),
            sorted_dir: true,
            dir_keys: vec![],
            aligned: true,
            gaps: vec![],
            gap_fill: 0,
        }
    }
}

#[derive(Clone, Debug)]
pub struct WoffEncoded {
    pub bytes: Vec<u8>,
    /// directory entries as written: (tag, offset, compLength, origLength, origChecksum)
    pub entries: Vec<(Tag, u32, u32, u32, u32)>,
    /// per table in model order: stored deflated?
    pub deflated: Vec<bool>,
    /// tables for which deflate was requested but did not shrink the data (stored instead)
    pub fell_back: usize,
    /// tables stored as a zlib stream that is longer than the table (compLength > origLength)
    pub oversize: usize,
    pub total_sfnt_size: u32,
    pub meta_at: (u32, u32, u32),
    pub priv_at: (u32, u32),
}

pub fn zlib(data: &[u8], level: u32) -> Vec<u8> {
    let mut e = flate2::write::ZlibEncoder::new(Vec::new(), flate2::Compression::new(level.min(9)));
    e.write_all(data).expect("zlib write");
    e.finish().expect("zlib finish")
}

/// WOFF 1.0 file of one font.
pub fn encode_woff(flavour: u32, tables: &[(Tag, &[u8])], lay: &WoffLayout) -> WoffEncoded {
    let n = tables.len();
    // stored form of every table
    let mut stored: Vec<Vec<u8>> = Vec::new();
    let mut deflated = Vec::new();
    let mut fell_back = 0;
    let mut oversize = 0usize;
    for (i, (_, d)) in tables.iter().enumerate() {
        match cyc(&lay.comp, i, Comp::Stored) {
            Comp::Stored => {
                stored.push(d.to_vec());
                deflated.push(false);
            }
            Comp::DeflateAlways(level) => {
                // an encoder that compresses every table even when that makes it longer
                // (compLength > origLength): not what the format asks of encoders, but the entry
                // is unambiguous (compLength != origLength <=> zlib stream). Only an equal
                // length has to fall back, because equality *means* stored.
                let z = zlib(d, level);
                if z.len() != d.len() {
                    if z.len() > d.len() {
                        oversize += 1;
                    }
                    stored.push(z);
                    deflated.push(true);
                } else {
                    stored.push(d.to_vec());
                    deflated.push(false);
                    fell_back += 1;
                }
            }
            Comp::Deflate(level) => {
                let z = zlib(d, level);
                if z.len() < d.len() {
                    stored.push(z);
                    deflated.push(true);
                } else {
                    // "If compression does not result in a smaller size, the table MUST be stored uncompressed"
                    stored.push(d.to_vec());
                    deflated.push(false);
                    fell_back += 1;
                }
            }
        }
    }
    // directory order
    let mut dir: Vec<usize> = (0..n).collect();
    if lay.sorted_dir {
        dir.sort_by(|a, b| tables[*a].0.cmp(&tables[*b].0));
    } else {
        let mut keyed: Vec<(u32, usize)> = (0..n).map(|i| (cyc(&lay.dir_keys, i, 0), i)).collect();
        keyed.sort();
        dir = keyed.into_iter().map(|k| k.1).collect();
    }
    // data order
    let mut order: Vec<usize> = dir.clone();
    match lay.order {
        DataOrder::Directory => {}
        DataOrder::Reverse => order.reverse(),
        DataOrder::Keyed => {
            let mut keyed: Vec<(u32, usize, usize)> =
                order.iter().enumerate().map(|(k, i)| (cyc(&lay.chunk_keys, k, 0), k, *i)).collect();
            keyed.sort();
            order = keyed.into_iter().map(|k| k.2).collect();
        }
    }
    let mut pos = 44 + 20 * n;
    let mut at = vec![0usize; n];
    for (k, &i) in order.iter().enumerate() {
        pos += cyc(&lay.gaps, k, 0) as usize;
        if lay.aligned {
            pos = (pos + 3) / 4 * 4;
        }
        at[i] = pos;
        pos += stored[i].len();
    }
    let align4 = |p: usize| (p + 3) / 4 * 4;
    let mut meta_at = (0u32, 0u32, 0u32);
    let mut meta_z = Vec::new();
    if let Some((xml, level)) = &lay.meta {
        meta_z = zlib(xml, *level);
        pos = align4(pos);
        meta_at = (pos as u32, meta_z.len() as u32, xml.len() as u32);
        pos += meta_z.len();
    }
    let mut priv_at = (0u32, 0u32);
    if let Some(p) = &lay.private {
        if !p.is_empty() {
            pos = align4(pos);
            priv_at = (pos as u32, p.len() as u32);
            pos += p.len();
        }
    }
    if lay.private.is_none() || priv_at.1 == 0 {
        // the file ends on a 4-byte boundary unless a private block (any length) is last
        if lay.aligned {
            pos = align4(pos);
        }
    }
    let has_gaps = (0..order.len()).any(|k| cyc(&lay.gaps, k, 0) > 0);
    let fill = if has_gaps { lay.gap_fill } else { 0 };
    let mut bytes = vec![fill; pos];
    for i in 0..n {
        bytes[at[i]..at[i] + stored[i].len()].copy_from_slice(&stored[i]);
        if lay.aligned && !has_gaps {
            // zero padding (already zero)
        }
    }
    if meta_at.1 > 0 {
        let o = meta_at.0 as usize;
        // padding in front of the block is zero
        bytes[o..o + meta_z.len()].copy_from_slice(&meta_z);
    }
    if priv_at.1 > 0 {
        let o = priv_at.0 as usize;
        bytes[o..o + priv_at.1 as usize].copy_from_slice(lay.private.as_ref().unwrap());
    }
    let total_sfnt_size: usize = 12 + 16 * n + tables.iter().map(|t| align4(t.1.len())).sum::<usize>();
    let mut h = Buf::new();
    h.u32(WOFF).u32(flavour).u32(pos as u32).u16(n as u16).u16(0).u32(total_sfnt_size as u32);
    h.u16(lay.version.0).u16(lay.version.1);
    h.u32(meta_at.0).u32(meta_at.1).u32(meta_at.2).u32(priv_at.0).u32(priv_at.1);
    debug_assert_eq!(h.len(), 44);
    let mut entries = Vec::new();
    for &i in &dir {
        let (tag, d) = &tables[i];
        let e = (*tag, at[i] as u32, stored[i].len() as u32, d.len() as u32, table_checksum(d));
        h.tag(&e.0).u32(e.1).u32(e.2).u32(e.3).u32(e.4);
        entries.push(e);
    }
    bytes[..h.len()].copy_from_slice(&h.0);
    WoffEncoded {
        bytes,
        entries,
        deflated,
        fell_back,
        oversize,
        total_sfnt_size: total_sfnt_size as u32,
        meta_at,
        priv_at,
    }
}
