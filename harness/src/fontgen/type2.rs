//! Type 2 / CFF2 charstring ENCODER (model -> bytes), written from Adobe Technical Note #5177
//! ("The Type 2 Charstring Format") and the OpenType "CFF2 CharString" chapter. Nothing here
//! calls allsorts.
//!
//! Pipeline (all pieces are `pub` so other checks can reuse them):
//!
//! 1. a **path model** ([`PathModel`]: contours of *relative* line / cubic segments in 16.16
//!    units, optionally with per-region variation deltas) — [`PathModel::commands`] gives the
//!    drawing commands the Type 2 specification assigns to it (exact integer accumulation);
//! 2. [`gen_glyph_plan`] draws a random path (biased towards the shapes the special operator
//!    forms need) from a [`Dec`] decision stream; [`GlyphPlan::model`] flattens it;
//! 3. [`Encoder`] turns a plan into a token list ([`Tok`]) choosing freely among the
//!    equivalent operator forms, number encodings, stem hints / hintmask / cntrmask, width,
//!    CFF2 `blend`/`vsindex`;
//! 4. [`factor`] cuts arbitrary token ranges out into (nested) subroutines; [`Frag`] is a
//!    shared, stack-neutral subroutine (a path fragment callable from several glyphs);
//! 5. [`SubrLayout`] places subroutines in a (padded) INDEX and knows the bias;
//!    [`serialize`] produces the charstring bytes.
//!
//! Numbers are `Raw` = 16.16 fixed point (i32). A value that is a whole number may be written
//! in any of the integer forms or as a 5-byte 16.16 number; other values need the 16.16 form.

use std::collections::{BTreeMap, BTreeSet};

pub type Raw = i32;
pub const ONE: Raw = 65536;

// ------------------------------------------------------------------------------------------
// decision stream

/// Deterministic decision stream (splitmix64) seeded from a proptest-generated value.
#[derive(Clone, Debug)]
pub struct Dec {
    s: u64,
}

impl Dec {
    pub fn new(seed: u64) -> Dec {
        Dec { s: seed ^ 0x9e37_79b9_7f4a_7c15 }
    }
    pub fn u64(&mut self) -> u64 {
        self.s = self.s.wrapping_add(0x9e37_79b9_7f4a_7c15);
        let mut z = self.s;
        z = (z ^ (z >> 30)).wrapping_mul(0xbf58_476d_1ce4_e5b9);
        z = (z ^ (z >> 27)).wrapping_mul(0x94d0_49bb_1331_11eb);
        z ^ (z >> 31)
    }
    pub fn u32(&mut self) -> u32 {
        (self.u64() >> 32) as u32
    }
    /// uniform in 0..n (0 if n == 0)
    pub fn below(&mut self, n: usize) -> usize {
        if n == 0 {
            0
        } else {
            ((self.u32() as u64 * n as u64) >> 32) as usize
        }
    }
    pub fn chance(&mut self, num: u32, den: u32) -> bool {
        (self.below(den as usize) as u32) < num
    }
    /// uniform in lo..=hi
    pub fn range(&mut self, lo: i32, hi: i32) -> i32 {
        if hi <= lo {
            return lo;
        }
        lo + self.below((hi as i64 - lo as i64 + 1) as usize) as i32
    }
    pub fn fork(&mut self) -> Dec {
        Dec::new(self.u64())
    }
}

// ------------------------------------------------------------------------------------------
// path model

#[derive(Clone, Debug, PartialEq)]
pub enum Seg {
    /// dx dy
    Line([Raw; 2]),
    /// dxa dya dxb dyb dxc dyc (each relative to the previous point)
    Curve([Raw; 6]),
}

impl Seg {
    pub fn ncomp(&self) -> u32 {
        match self {
            Seg::Line(_) => 2,
            Seg::Curve(_) => 6,
        }
    }
    pub fn comps(&self) -> &[Raw] {
        match self {
            Seg::Line(c) => c,
            Seg::Curve(c) => c,
        }
    }
}

#[derive(Clone, Debug, PartialEq, Default)]
pub struct Contour {
    /// moveto, relative to the current point (the origin for the first contour)
    pub mv: [Raw; 2],
    pub segs: Vec<Seg>,
}

/// The path of one glyph. Component ids (used for variation deltas) number all relative
/// components in traversal order: per contour the two moveto components, then 2 per line and
/// 6 per curve.
#[derive(Clone, Debug, PartialEq, Default)]
pub struct PathModel {
    pub contours: Vec<Contour>,
    /// component id -> one delta (16.16) per region of the glyph's ItemVariationData
    pub deltas: BTreeMap<u32, Vec<Raw>>,
}

#[derive(Clone, Debug, PartialEq)]
pub enum Cmd {
    Move(f64, f64),
    Line(f64, f64),
    Curve(f64, f64, f64, f64, f64, f64),
    Close,
}

impl PathModel {
    pub fn ncurves(&self) -> usize {
        self.contours.iter().map(|c| c.segs.iter().filter(|s| matches!(s, Seg::Curve(_))).count()).sum()
    }
    pub fn nsegs(&self) -> usize {
        self.contours.iter().map(|c| c.segs.len()).sum()
    }

    /// The drawing commands of the path: one `Move`, the segments at the accumulated absolute
    /// coordinates, and one `Close` per contour. With `scalars` (one per region) every
    /// component is `default + Σ scalar·delta`.
    pub fn commands(&self, scalars: Option<&[f64]>) -> Vec<Cmd> {
        let mut out = Vec::new();
        let mut id = 0u32;
        // exact accumulation in raw units for the static part, f64 for the varied part
        let (mut x, mut y) = (0i64, 0i64);
        let (mut vx, mut vy) = (0f64, 0f64);
        let comp = |raw: Raw, id: &mut u32| -> (i64, f64) {
            let mut v = 0.0;
            if let (Some(sc), Some(d)) = (scalars, self.deltas.get(id)) {
                for (s, dv) in sc.iter().zip(d.iter()) {
                    v += s * (*dv as f64 / 65536.0);
                }
            }
            *id += 1;
            (raw as i64, v)
        };
        let f = |r: i64, v: f64| r as f64 / 65536.0 + v;
        for c in &self.contours {
            let (a, av) = comp(c.mv[0], &mut id);
            let (b, bv) = comp(c.mv[1], &mut id);
            x += a;
            y += b;
            vx += av;
            vy += bv;
            out.push(Cmd::Move(f(x, vx), f(y, vy)));
            for s in &c.segs {
                match s {
                    Seg::Line(l) => {
                        let (a, av) = comp(l[0], &mut id);
                        let (b, bv) = comp(l[1], &mut id);
                        x += a;
                        y += b;
                        vx += av;
                        vy += bv;
                        out.push(Cmd::Line(f(x, vx), f(y, vy)));
                    }
                    Seg::Curve(k) => {
                        let mut p = [0f64; 6];
                        for i in 0..3 {
                            let (a, av) = comp(k[2 * i], &mut id);
                            let (b, bv) = comp(k[2 * i + 1], &mut id);
                            x += a;
                            y += b;
                            vx += av;
                            vy += bv;
                            p[2 * i] = f(x, vx);
                            p[2 * i + 1] = f(y, vy);
                        }
                        out.push(Cmd::Curve(p[0], p[1], p[2], p[3], p[4], p[5]));
                    }
                }
            }
            out.push(Cmd::Close);
        }
        out
    }
}

/// Compare two command lists: same commands in the same order, coordinates within `tol`.
/// Returns a description of the first difference.
pub fn diff_commands(got: &[Cmd], want: &[Cmd], tol: f64) -> Option<String> {
    let near = |a: f64, b: f64| (a - b).abs() <= tol;
    for (i, (g, w)) in got.iter().zip(want.iter()).enumerate() {
        let ok = match (g, w) {
            (Cmd::Move(a, b), Cmd::Move(c, d)) | (Cmd::Line(a, b), Cmd::Line(c, d)) => near(*a, *c) && near(*b, *d),
            (Cmd::Curve(a, b, c, d, e, f), Cmd::Curve(a2, b2, c2, d2, e2, f2)) => {
                near(*a, *a2) && near(*b, *b2) && near(*c, *c2) && near(*d, *d2) && near(*e, *e2) && near(*f, *f2)
            }
            (Cmd::Close, Cmd::Close) => true,
            _ => false,
        };
        if !ok {
            return Some(format!("command {}: got {:?}, expected {:?}", i, g, w));
        }
    }
    if got.len() != want.len() {
        return Some(format!(
            "{} commands delivered, {} expected; first extra/missing: {:?}",
            got.len(),
            want.len(),
            if got.len() > want.len() { &got[want.len()] } else { &want[got.len()] }
        ));
    }
    None
}

// ------------------------------------------------------------------------------------------
// coordinate grid: keeps every absolute coordinate exactly representable in f32

/// All absolute coordinates of a path are multiples of 2^-frac_bits and lie within ±bound
/// (integer units), chosen so that every partial sum an f32 interpreter forms is exact.
#[derive(Clone, Copy, Debug, PartialEq)]
pub struct Grid {
    pub frac_bits: u8,
    pub bound: i32,
}

impl Grid {
    /// integers, |coordinate| <= 30000 (bounding boxes must fit i16)
    pub const INT: Grid = Grid { frac_bits: 0, bound: 30000 };
    /// multiples of 1/256, |coordinate| <= 16000
    pub const F8: Grid = Grid { frac_bits: 8, bound: 16000 };
    /// arbitrary 16.16 values, |coordinate| <= 120
    pub const F16: Grid = Grid { frac_bits: 16, bound: 120 };
    /// small integers (leaves room for variation deltas)
    pub const SMALL: Grid = Grid { frac_bits: 0, bound: 2000 };

    fn unit(&self) -> i64 {
        1i64 << (16 - self.frac_bits as u32)
    }
    fn lim(&self) -> i64 {
        self.bound as i64 * ONE as i64
    }
}

/// A relative step from absolute coordinate `cur` (raw) that stays within the grid bound and
/// fits one charstring number. Biased towards 0, ±1, the number-encoding boundaries
/// (107/108, 1131/1132) and large values.
pub fn gen_step(dec: &mut Dec, grid: Grid, cur: i64, scale: i32) -> Raw {
    let scale = scale.clamp(1, 32767);
    let ip: i64 = match dec.below(20) {
        0..=2 => 0,
        3 => 1,
        4 => -1,
        5..=9 => dec.range(-107.min(scale), 107.min(scale)) as i64,
        10 => *[107i64, 108, -107, -108, 1131, 1132, -1131, -1132, 32767, -32768]
            .get(dec.below(10))
            .unwrap(),
        11..=14 => dec.range(-1131.min(scale), 1131.min(scale)) as i64,
        _ => dec.range(-scale, scale) as i64,
    };
    let mut v = ip * ONE as i64;
    if grid.frac_bits > 0 && dec.chance(1, 2) {
        let steps = 1i64 << grid.frac_bits;
        v += dec.below(steps as usize) as i64 * grid.unit();
    }
    let fits = |v: i64| (cur + v).abs() <= grid.lim() && v.abs() < 32768 * ONE as i64;
    if fits(v) {
        return v as Raw;
    }
    if fits(-v) {
        return (-v) as Raw;
    }
    // towards the origin by a bounded amount
    let w = (-cur).clamp(-(scale as i64) * ONE as i64, scale as i64 * ONE as i64);
    let w = w / grid.unit() * grid.unit();
    if fits(w) {
        w as Raw
    } else {
        0
    }
}

// ------------------------------------------------------------------------------------------
// glyph plans (paths with references to shared fragments)

#[derive(Clone, Debug, PartialEq)]
pub enum Chunk {
    /// a run of segments encoded inline
    Segs(Vec<Seg>),
    /// the segments of shared fragment `n` (a subroutine call)
    Frag(usize),
}

#[derive(Clone, Debug, PartialEq, Default)]
pub struct ContourPlan {
    pub mv: [Raw; 2],
    pub chunks: Vec<Chunk>,
}

#[derive(Clone, Debug, PartialEq, Default)]
pub struct GlyphPlan {
    pub contours: Vec<ContourPlan>,
}

/// A shared path fragment: a stack-neutral subroutine (complete operators only) that draws
/// `flat` relative to the current point. It may itself call lower-numbered fragments.
#[derive(Clone, Debug)]
pub struct Frag {
    pub chunks: Vec<Chunk>,
    pub flat: Vec<Seg>,
    /// extent of all points (incl. control points) relative to the start: (min x, max x, min y, max y)
    pub extent: (i64, i64, i64, i64),
    /// end point relative to the start
    pub end: (i64, i64),
    /// nesting depth of the subroutine (1 = calls nothing)
    pub depth: u32,
    /// global subroutine, or local subroutine of font dict `fd`
    pub global: bool,
    pub fd: usize,
    /// (global, id) in the subroutine tables
    pub subr: (bool, usize),
}

fn extent_of(segs: &[Seg]) -> ((i64, i64, i64, i64), (i64, i64)) {
    let (mut x, mut y) = (0i64, 0i64);
    let mut e = (0i64, 0i64, 0i64, 0i64);
    for s in segs {
        let c = s.comps();
        for p in c.chunks(2) {
            x += p[0] as i64;
            y += p[1] as i64;
            e.0 = e.0.min(x);
            e.1 = e.1.max(x);
            e.2 = e.2.min(y);
            e.3 = e.3.max(y);
        }
    }
    (e, (x, y))
}

impl GlyphPlan {
    pub fn model(&self, frags: &[Frag]) -> PathModel {
        let mut m = PathModel::default();
        for c in &self.contours {
            let mut segs = Vec::new();
            for ch in &c.chunks {
                match ch {
                    Chunk::Segs(s) => segs.extend(s.iter().cloned()),
                    Chunk::Frag(i) => segs.extend(frags[*i].flat.iter().cloned()),
                }
            }
            m.contours.push(Contour { mv: c.mv, segs });
        }
        m
    }
}

#[derive(Clone, Copy, Debug)]
pub struct PathOpts {
    pub grid: Grid,
    pub max_contours: usize,
    /// soft cap on segments per contour
    pub max_segs: usize,
    /// typical step size (integer units)
    pub scale: i32,
    /// allow an occasional very long run (argument batching up to the stack limit)
    pub long_runs: bool,
}

struct PathGen<'a> {
    dec: &'a mut Dec,
    grid: Grid,
    scale: i32,
    x: i64,
    y: i64,
}

impl<'a> PathGen<'a> {
    fn dx(&mut self) -> Raw {
        let v = gen_step(self.dec, self.grid, self.x, self.scale);
        self.x += v as i64;
        v
    }
    fn dy(&mut self) -> Raw {
        let v = gen_step(self.dec, self.grid, self.y, self.scale);
        self.y += v as i64;
        v
    }
    fn line(&mut self) -> Seg {
        Seg::Line([self.dx(), self.dy()])
    }
    fn curve(&mut self) -> Seg {
        Seg::Curve([self.dx(), self.dy(), self.dx(), self.dy(), self.dx(), self.dy()])
    }
    /// curve with the components flagged in `zero` forced to 0
    fn curve_z(&mut self, zero: [bool; 6]) -> Seg {
        let mut c = [0; 6];
        for i in 0..6 {
            if !zero[i] {
                c[i] = if i % 2 == 0 { self.dx() } else { self.dy() };
            }
        }
        Seg::Curve(c)
    }

    fn run(&mut self, budget: usize, long: bool) -> Vec<Seg> {
        let mut n = 1 + self.dec.below(4);
        if long && self.dec.chance(1, 3) {
            n = budget;
        }
        let n = n.min(budget.max(1));
        let mut out = Vec::new();
        match self.dec.below(14) {
            0 | 1 => {
                for _ in 0..n {
                    out.push(self.line());
                }
            }
            2 | 3 => {
                let mut h = self.dec.chance(1, 2);
                for _ in 0..n {
                    out.push(if h { Seg::Line([self.dx(), 0]) } else { Seg::Line([0, self.dy()]) });
                    h = !h;
                }
            }
            4 | 5 => {
                for _ in 0..n {
                    out.push(self.curve());
                }
            }
            6 => {
                // hhcurveto shapes: start and end tangent horizontal, first may have dy1
                let odd = self.dec.chance(1, 2);
                for k in 0..n {
                    out.push(self.curve_z([false, !(k == 0 && odd), false, false, false, true]));
                }
            }
            7 => {
                let odd = self.dec.chance(1, 2);
                for k in 0..n {
                    out.push(self.curve_z([!(k == 0 && odd), false, false, false, true, false]));
                }
            }
            8 | 9 | 10 => {
                // alternating hv / vh; the last one may have a free final component
                let mut hv = self.dec.chance(1, 2);
                let tail = self.dec.chance(1, 2);
                for k in 0..n {
                    let last = k + 1 == n && tail;
                    out.push(if hv {
                        self.curve_z([false, true, false, false, !last, false])
                    } else {
                        self.curve_z([true, false, false, false, false, !last])
                    });
                    hv = !hv;
                }
            }
            _ => {
                // flex pairs
                match self.dec.below(4) {
                    0 => {
                        out.push(self.curve());
                        out.push(self.curve());
                    }
                    1 => {
                        // hflex
                        let c1 = self.curve_z([false, true, false, false, false, true]);
                        let dy2 = if let Seg::Curve(c) = &c1 { c[3] } else { 0 };
                        let mut c2 = [self.dx(), 0, self.dx(), -dy2, 0, 0];
                        self.y -= dy2 as i64;
                        c2[4] = self.dx();
                        out.push(c1);
                        out.push(Seg::Curve(c2));
                    }
                    2 => {
                        // hflex1
                        let c1 = self.curve_z([false, false, false, false, false, true]);
                        let (dy1, dy2) = if let Seg::Curve(c) = &c1 { (c[1], c[3]) } else { (0, 0) };
                        let dx4 = self.dx();
                        let dx5 = self.dx();
                        let dy5 = self.dy();
                        let dx6 = self.dx();
                        let dy6 = -(dy1 as i64 + dy2 as i64 + dy5 as i64);
                        if dy6 >= -(32768 * ONE as i64) && dy6 < 32768 * ONE as i64 {
                            self.y += dy6;
                            out.push(c1);
                            out.push(Seg::Curve([dx4, 0, dx5, dy5, dx6, dy6 as Raw]));
                        } else {
                            out.push(c1);
                            out.push(Seg::Curve([dx4, 0, dx5, dy5, dx6, 0]));
                        }
                    }
                    _ => {
                        // flex1
                        let c1 = self.curve();
                        let mut a = [self.dx(), self.dy(), self.dx(), self.dy()];
                        let c = if let Seg::Curve(c) = &c1 { *c } else { [0; 6] };
                        let sx = c[0] as i64 + c[2] as i64 + c[4] as i64 + a[0] as i64 + a[2] as i64;
                        let mut sy = c[1] as i64 + c[3] as i64 + c[5] as i64 + a[1] as i64 + a[3] as i64;
                        if self.dec.chance(1, 4) {
                            // tie |dx| == |dy|: the specification then takes d6 as dy
                            let target = if self.dec.chance(1, 2) { sx } else { -sx };
                            let nd = a[3] as i64 + (target - sy);
                            let ny = self.y + (target - sy);
                            if nd.abs() < 32768 * ONE as i64 && ny.abs() <= self.grid.lim() {
                                a[3] = nd as Raw;
                                self.y = ny;
                                sy = target;
                            }
                        }
                        let ok = |v: i64| v >= -(32768 * ONE as i64) && v < 32768 * ONE as i64;
                        let (e0, e1);
                        if sx.abs() > sy.abs() {
                            // last point: x given, y back to the start
                            if ok(-sy) {
                                e1 = (-sy) as Raw;
                                self.y -= sy;
                            } else {
                                e1 = 0;
                            }
                            e0 = self.dx();
                        } else {
                            if ok(-sx) {
                                e0 = (-sx) as Raw;
                                self.x -= sx;
                            } else {
                                e0 = 0;
                            }
                            e1 = self.dy();
                        }
                        out.push(c1);
                        out.push(Seg::Curve([a[0], a[1], a[2], a[3], e0, e1]));
                    }
                }
            }
        }
        out
    }
}

/// Draw a random glyph plan. `frags[i]` may be used by this glyph if `usable(i)`.
pub fn gen_glyph_plan(dec: &mut Dec, o: &PathOpts, frags: &[Frag], usable: &dyn Fn(usize) -> bool) -> GlyphPlan {
    let ncont = match dec.below(10) {
        0 => 0,
        1..=5 => 1,
        _ => 1 + dec.below(o.max_contours.max(1)),
    }
    .min(o.max_contours);
    let mut plan = GlyphPlan::default();
    let usable_ids: Vec<usize> = (0..frags.len()).filter(|i| usable(*i)).collect();
    let mut g = PathGen { dec, grid: o.grid, scale: o.scale, x: 0, y: 0 };
    for _ in 0..ncont {
        let mv = match g.dec.below(5) {
            0 => [g.dx(), 0],
            1 => [0, g.dy()],
            _ => [g.dx(), g.dy()],
        };
        let mut c = ContourPlan { mv, chunks: Vec::new() };
        let target = match g.dec.below(8) {
            0 => 0,
            1 => 1,
            _ => 1 + g.dec.below(o.max_segs.max(1)),
        };
        let mut nsegs = 0;
        let long = o.long_runs && g.dec.chance(1, 12);
        while nsegs < target {
            if !usable_ids.is_empty() && g.dec.chance(1, 4) {
                let fi = usable_ids[g.dec.below(usable_ids.len())];
                let f = &frags[fi];
                let lim = g.grid.lim();
                if g.x + f.extent.0 >= -lim && g.x + f.extent.1 <= lim && g.y + f.extent.2 >= -lim && g.y + f.extent.3 <= lim {
                    g.x += f.end.0;
                    g.y += f.end.1;
                    nsegs += f.flat.len().max(1);
                    c.chunks.push(Chunk::Frag(fi));
                    continue;
                }
            }
            let budget = if long { 300 } else { target - nsegs };
            let run = g.run(budget, long);
            nsegs += run.len();
            // adjacent Segs chunks are merged so that operator batches may span runs
            if let Some(Chunk::Segs(prev)) = c.chunks.last_mut() {
                prev.extend(run);
            } else {
                c.chunks.push(Chunk::Segs(run));
            }
        }
        plan.contours.push(c);
    }
    plan
}

/// Draw the chunks of a shared fragment (small steps; may call fragments `< frags.len()`
/// for which `usable` holds).
pub fn gen_frag_chunks(dec: &mut Dec, grid: Grid, scale: i32, frags: &[Frag], usable: &dyn Fn(usize) -> bool) -> (Vec<Chunk>, Vec<Seg>) {
    // fragments are drawn around the origin within a small box so that they fit anywhere
    let small = Grid { frac_bits: grid.frac_bits, bound: (grid.bound / 8).max(8) };
    let usable_ids: Vec<usize> = (0..frags.len()).filter(|i| usable(*i)).collect();
    let mut g = PathGen { dec, grid: small, scale: scale.min(small.bound), x: 0, y: 0 };
    let mut chunks: Vec<Chunk> = Vec::new();
    let mut flat = Vec::new();
    let n = 1 + g.dec.below(3);
    for _ in 0..n {
        if !usable_ids.is_empty() && g.dec.chance(1, 2) {
            let fi = usable_ids[g.dec.below(usable_ids.len())];
            let f = &frags[fi];
            let lim = small.lim();
            if g.x + f.extent.0 >= -lim && g.x + f.extent.1 <= lim && g.y + f.extent.2 >= -lim && g.y + f.extent.3 <= lim {
                g.x += f.end.0;
                g.y += f.end.1;
                flat.extend(f.flat.iter().cloned());
                chunks.push(Chunk::Frag(fi));
                continue;
            }
        }
        let run = g.run(3, false);
        flat.extend(run.iter().cloned());
        if let Some(Chunk::Segs(prev)) = chunks.last_mut() {
            prev.extend(run);
        } else {
            chunks.push(Chunk::Segs(run));
        }
    }
    (chunks, flat)
}

impl Frag {
    pub fn new(chunks: Vec<Chunk>, flat: Vec<Seg>, frags: &[Frag], global: bool, fd: usize, subr: (bool, usize)) -> Frag {
        let (extent, end) = extent_of(&flat);
        let depth = 1 + chunks
            .iter()
            .map(|c| match c {
                Chunk::Frag(i) => frags[*i].depth,
                _ => 0,
            })
            .max()
            .unwrap_or(0);
        Frag { chunks, flat, extent, end, depth, global, fd, subr }
    }
}

// ------------------------------------------------------------------------------------------
// tokens

#[derive(Clone, Copy, Debug, PartialEq)]
pub enum NumForm {
    /// shortest integer form (1 byte, 2 bytes, else 28)
    Short,
    /// 28 + int16
    Int16,
    /// 255 + 16.16
    Fixed,
}

pub mod op {
    pub const HSTEM: u16 = 1;
    pub const VSTEM: u16 = 3;
    pub const VMOVETO: u16 = 4;
    pub const RLINETO: u16 = 5;
    pub const HLINETO: u16 = 6;
    pub const VLINETO: u16 = 7;
    pub const RRCURVETO: u16 = 8;
    pub const CALLSUBR: u16 = 10;
    pub const RETURN: u16 = 11;
    pub const ENDCHAR: u16 = 14;
    pub const VSINDEX: u16 = 15;
    pub const BLEND: u16 = 16;
    pub const HSTEMHM: u16 = 18;
    pub const HINTMASK: u16 = 19;
    pub const CNTRMASK: u16 = 20;
    pub const RMOVETO: u16 = 21;
    pub const HMOVETO: u16 = 22;
    pub const VSTEMHM: u16 = 23;
    pub const RCURVELINE: u16 = 24;
    pub const RLINECURVE: u16 = 25;
    pub const VVCURVETO: u16 = 26;
    pub const HHCURVETO: u16 = 27;
    pub const CALLGSUBR: u16 = 29;
    pub const VHCURVETO: u16 = 30;
    pub const HVCURVETO: u16 = 31;
    pub const HFLEX: u16 = 0x0c22;
    pub const FLEX: u16 = 0x0c23;
    pub const HFLEX1: u16 = 0x0c24;
    pub const FLEX1: u16 = 0x0c25;
}

#[derive(Clone, Debug, PartialEq)]
pub enum Tok {
    /// a numeric operand. `comp`: the path component it encodes (None for hints, width, ...);
    /// `var`: per-region deltas (CFF2; turned into `blend` groups by [`apply_blends`]).
    Num { v: Raw, form: NumForm, comp: Option<u32>, var: Option<Vec<Raw>>, blendable: bool },
    /// an operator (two-byte operators are 0x0c00 | b1)
    Op(u16),
    /// hintmask / cntrmask with the mask bytes that must follow it
    Mask { cntr: bool, bytes: Vec<u8> },
    /// `number callsubr|callgsubr`; the number is resolved at serialisation time
    Call { global: bool, id: usize, form: NumForm },
}

pub fn write_num(out: &mut Vec<u8>, v: Raw, form: NumForm) {
    if v % ONE != 0 || form == NumForm::Fixed {
        out.push(255);
        out.extend_from_slice(&v.to_be_bytes());
        return;
    }
    let iv = v >> 16;
    match (form, iv) {
        (NumForm::Short, -107..=107) => out.push((iv + 139) as u8),
        (NumForm::Short, 108..=1131) => {
            let w = iv - 108;
            out.push(247 + (w >> 8) as u8);
            out.push((w & 255) as u8);
        }
        (NumForm::Short, -1131..=-108) => {
            let w = -iv - 108;
            out.push(251 + (w >> 8) as u8);
            out.push((w & 255) as u8);
        }
        _ => {
            out.push(28);
            out.extend_from_slice(&(iv as i16).to_be_bytes());
        }
    }
}

pub fn write_op(out: &mut Vec<u8>, o: u16) {
    if o >= 0x0c00 {
        out.push(12);
        out.push((o & 0xff) as u8);
    } else {
        out.push(o as u8);
    }
}

/// Serialise tokens. `call_number(global, id)` gives the *biased* operand of a call.
pub fn serialize(toks: &[Tok], call_number: &dyn Fn(bool, usize) -> i32) -> Vec<u8> {
    let mut out = Vec::new();
    for t in toks {
        match t {
            Tok::Num { v, form, .. } => write_num(&mut out, *v, *form),
            Tok::Op(o) => write_op(&mut out, *o),
            Tok::Mask { cntr, bytes } => {
                out.push(if *cntr { op::CNTRMASK as u8 } else { op::HINTMASK as u8 });
                out.extend_from_slice(bytes);
            }
            Tok::Call { global, id, form } => {
                write_num(&mut out, call_number(*global, *id) * ONE, *form);
                out.push(if *global { op::CALLGSUBR as u8 } else { op::CALLSUBR as u8 });
            }
        }
    }
    out
}

// ------------------------------------------------------------------------------------------
// subroutine INDEX layout and bias

/// Adobe TN #5176 §16: bias 107 below 1240 subroutines, 1131 below 33900, else 32768.
pub fn subr_bias(count: usize) -> i32 {
    if count < 1240 {
        107
    } else if count < 33900 {
        1131
    } else {
        32768
    }
}

/// Where the real subroutines (by id) sit in an INDEX of `size` entries (the rest is filler).
#[derive(Clone, Debug, Default)]
pub struct SubrLayout {
    pub size: usize,
    pub pos: Vec<usize>,
}

impl SubrLayout {
    /// `nreal` subroutines in an INDEX of `size >= nreal` entries; positions are distinct,
    /// biased towards the ends and towards the index values where number encodings change.
    pub fn new(dec: &mut Dec, nreal: usize, size: usize) -> SubrLayout {
        let size = size.max(nreal);
        let bias = subr_bias(size) as i64;
        let mut used = BTreeSet::new();
        let mut pos = Vec::new();
        for _ in 0..nreal {
            let mut p = match dec.below(8) {
                0 => 0,
                1 => size - 1,
                2 => {
                    // operand values at number-format boundaries: -108,-107,0,107,108,1131,1132
                    let v = *[-1132i64, -1131, -108, -107, 0, 107, 108, 1131, 1132].get(dec.below(9)).unwrap();
                    (v + bias).clamp(0, size as i64 - 1) as usize
                }
                _ => dec.below(size),
            };
            while used.contains(&p) {
                p = (p + 1) % size;
            }
            used.insert(p);
            pos.push(p);
        }
        SubrLayout { size, pos }
    }
    pub fn identity(n: usize) -> SubrLayout {
        SubrLayout { size: n, pos: (0..n).collect() }
    }
    pub fn number(&self, id: usize) -> i32 {
        self.pos[id] as i32 - subr_bias(self.size)
    }
    /// The INDEX entries: `bodies[id]` at its position, `filler` elsewhere.
    pub fn entries(&self, bodies: &[Vec<u8>], filler: &[u8]) -> Vec<Vec<u8>> {
        let mut v = vec![filler.to_vec(); self.size];
        for (id, b) in bodies.iter().enumerate() {
            v[self.pos[id]] = b.clone();
        }
        v
    }
}

// ------------------------------------------------------------------------------------------
// encoder

#[derive(Clone, Debug)]
pub struct EncOpts {
    /// CFF2 rules: no width, no endchar, no return, stack limit 513
    pub cff2: bool,
    /// allow number forms other than the shortest
    pub free_number_forms: bool,
    pub hints: bool,
    /// value of the width operand, if the charstring carries one (CFF only)
    pub width: Option<Raw>,
    /// number of regions of this glyph's ItemVariationData (0: no blends)
    pub regions: usize,
    /// emit `n vsindex` first
    pub vsindex: Option<u16>,
    /// probability (per mille) that a blendable operand gets deltas
    pub blend_permille: u32,
    /// magnitude of deltas (integer units)
    pub delta_scale: i32,
    /// coordinates of this glyph are not exactly representable in f32 (blended operands):
    /// constructs whose meaning depends on an exact comparison are avoided
    pub inexact: bool,
}

impl EncOpts {
    pub fn stack_limit(&self) -> usize {
        if self.cff2 {
            513
        } else {
            48
        }
    }
}

/// Statistics about what an encoding used (for class histograms / non-triviality).
#[derive(Clone, Debug, Default)]
pub struct EncStats {
    pub forms: BTreeSet<&'static str>,
    pub masks: usize,
    pub stems: usize,
    pub implicit_vstem: bool,
    pub width: bool,
    pub calls: usize,
    pub blends: usize,
    pub max_args: usize,
    pub num_forms: BTreeSet<&'static str>,
}

pub struct Encoder<'a> {
    pub o: &'a EncOpts,
    pub toks: Vec<Tok>,
    pub stats: EncStats,
    stack: usize,
    comp: u32,
}

fn is_h(s: &Seg) -> bool {
    matches!(s, Seg::Line(l) if l[1] == 0)
}
fn is_v(s: &Seg) -> bool {
    matches!(s, Seg::Line(l) if l[0] == 0)
}
fn curve(s: &Seg) -> Option<&[Raw; 6]> {
    match s {
        Seg::Curve(c) => Some(c),
        _ => None,
    }
}

impl<'a> Encoder<'a> {
    pub fn new(o: &'a EncOpts) -> Encoder<'a> {
        Encoder { o, toks: Vec::new(), stats: EncStats::default(), stack: 0, comp: 0 }
    }

    fn form(&mut self, dec: &mut Dec, v: Raw) -> NumForm {
        if v % ONE != 0 {
            self.stats.num_forms.insert("fixed-fractional");
            return NumForm::Fixed;
        }
        let f = if !self.o.free_number_forms {
            NumForm::Short
        } else {
            match dec.below(10) {
                0 | 1 => NumForm::Int16,
                2 | 3 => NumForm::Fixed,
                _ => NumForm::Short,
            }
        };
        let iv = v >> 16;
        self.stats.num_forms.insert(match f {
            NumForm::Short if (-107..=107).contains(&iv) => "int1",
            NumForm::Short if (-1131..=1131).contains(&iv) => "int2",
            NumForm::Short | NumForm::Int16 => "int28",
            NumForm::Fixed => "fixed-integral",
        });
        f
    }

    /// push a plain number (hint value, width, flex depth): never a path component
    fn num(&mut self, dec: &mut Dec, v: Raw, blendable: bool) {
        let form = self.form(dec, v);
        self.toks.push(Tok::Num { v, form, comp: None, var: None, blendable });
        self.stack += 1;
    }

    /// push path component `id` with value v
    fn pnum(&mut self, dec: &mut Dec, v: Raw, id: u32, blendable: bool) {
        let form = self.form(dec, v);
        self.toks.push(Tok::Num { v, form, comp: Some(id), var: None, blendable });
        self.stack += 1;
    }

    fn op(&mut self, o: u16) {
        self.stats.max_args = self.stats.max_args.max(self.stack);
        self.toks.push(Tok::Op(o));
        self.stack = 0;
    }

    fn room(&self) -> usize {
        self.o.stack_limit() - self.stack
    }

    // ---- hints

    fn stems(&mut self, dec: &mut Dec, o: u16, n: usize, implicit_last: bool) {
        let mut left = n;
        while left > 0 {
            let max_pairs = (self.room() / 2).min(left);
            let take = if dec.chance(2, 3) { max_pairs } else { 1 + dec.below(max_pairs) };
            for _ in 0..take {
                let a = self.hint_value(dec);
                let b = self.hint_value(dec);
                self.num(dec, a, true);
                self.num(dec, b, true);
            }
            left -= take;
            if left == 0 && implicit_last {
                // the following hintmask/cntrmask takes these as vstem hints
                return;
            }
            self.op(o);
        }
    }

    fn hint_value(&mut self, dec: &mut Dec) -> Raw {
        match dec.below(6) {
            0 => dec.range(-32768, 32767) * ONE,
            1 => dec.range(-300, 300) * ONE + dec.below(65536) as i32,
            2 => -20 * ONE, // ghost hint widths
            3 => -21 * ONE,
            _ => dec.range(-200, 800) * ONE,
        }
    }

    fn mask(&mut self, dec: &mut Dec, cntr: bool, nstems: usize) {
        let nbytes = (nstems + 7) / 8;
        let bytes: Vec<u8> = (0..nbytes)
            .map(|_| match dec.below(4) {
                0 => 0xff,
                1 => 0,
                _ => dec.below(256) as u8,
            })
            .collect();
        self.stats.max_args = self.stats.max_args.max(self.stack);
        self.toks.push(Tok::Mask { cntr, bytes });
        self.stats.masks += 1;
        self.stack = 0;
    }

    /// Encode a whole glyph: width, hints, contours, endchar (CFF).
    pub fn glyph(&mut self, dec: &mut Dec, plan: &GlyphPlan, frags: &[Frag]) {
        if let Some(vs) = self.o.vsindex {
            let f = self.form(dec, vs as i32 * ONE);
            self.toks.push(Tok::Num { v: vs as i32 * ONE, form: f, comp: None, var: None, blendable: false });
            self.toks.push(Tok::Op(op::VSINDEX));
        }
        if let Some(w) = self.o.width {
            if !self.o.cff2 {
                self.num(dec, w, false);
                self.stats.width = true;
            }
        }
        // hints
        let mut nstems = 0usize;
        let mut masks = false;
        if self.o.hints {
            let total = match dec.below(12) {
                0 => 0,
                1..=5 => 1 + dec.below(8),
                6 => 8,
                7 => 9,
                8 => 16 + dec.below(2),
                9 => 24 + dec.below(3),
                10 => 25 + dec.below(72),
                _ => 96,
            };
            let nh = match dec.below(4) {
                0 => 0,
                1 => total,
                _ => dec.below(total + 1),
            };
            let nv = total - nh;
            masks = total > 0 && dec.chance(1, 2);
            nstems = total;
            self.stats.stems = total;
            let (hop, vop) = if masks { (op::HSTEMHM, op::VSTEMHM) } else { (op::HSTEM, op::VSTEM) };
            if nh > 0 {
                self.stems(dec, hop, nh, false);
            }
            // implicit vstem: the last batch of vstem arguments directly precedes the first mask
            let room_pairs = self.room() / 2;
            let implicit = masks && nv > 0 && dec.chance(1, 2);
            if nv > 0 {
                self.stems(dec, vop, nv, implicit);
                if implicit {
                    self.stats.implicit_vstem = true;
                }
            }
            let _ = room_pairs;
            if masks {
                let ncntr = match dec.below(4) {
                    0 => 1,
                    1 => 2,
                    _ => 0,
                };
                let mut first = true;
                for _ in 0..ncntr {
                    self.mask(dec, true, nstems);
                    first = false;
                }
                if first || dec.chance(2, 3) {
                    self.mask(dec, false, nstems);
                }
            }
        }
        // contours
        for c in &plan.contours {
            // moveto
            let (dx, dy) = (c.mv[0], c.mv[1]);
            let id = self.comp;
            self.comp += 2;
            let choice = dec.below(3);
            if dy == 0 && choice == 0 {
                self.pnum(dec, dx, id, true);
                self.op(op::HMOVETO);
                self.stats.forms.insert("hmoveto");
            } else if dx == 0 && choice <= 1 {
                self.pnum(dec, dy, id + 1, true);
                self.op(op::VMOVETO);
                self.stats.forms.insert("vmoveto");
            } else {
                self.pnum(dec, dx, id, true);
                self.pnum(dec, dy, id + 1, true);
                self.op(op::RMOVETO);
                self.stats.forms.insert("rmoveto");
            }
            for ch in &c.chunks {
                if masks && dec.chance(1, 6) {
                    self.mask(dec, false, nstems);
                    self.stats.forms.insert("hintmask-mid-path");
                }
                match ch {
                    Chunk::Segs(s) => self.segs(dec, s, masks, nstems),
                    Chunk::Frag(i) => {
                        let f = &frags[*i];
                        let ncomp: u32 = f.flat.iter().map(|s| s.ncomp()).sum();
                        self.comp += ncomp;
                        let form = if self.o.free_number_forms && dec.chance(1, 4) { NumForm::Int16 } else { NumForm::Short };
                        self.toks.push(Tok::Call { global: f.subr.0, id: f.subr.1, form });
                        self.stats.calls += 1;
                    }
                }
            }
        }
        if !self.o.cff2 {
            self.op(op::ENDCHAR);
        }
    }

    /// Encode the body of a shared fragment (complete operators, then `return` for CFF).
    pub fn fragment(&mut self, dec: &mut Dec, chunks: &[Chunk], frags: &[Frag]) {
        for ch in chunks {
            match ch {
                Chunk::Segs(s) => self.segs(dec, s, false, 0),
                Chunk::Frag(i) => {
                    let f = &frags[*i];
                    self.toks.push(Tok::Call { global: f.subr.0, id: f.subr.1, form: NumForm::Short });
                    self.stats.calls += 1;
                }
            }
        }
        // fragment tokens are shared between glyphs: no component ids
        for t in self.toks.iter_mut() {
            if let Tok::Num { comp, blendable, .. } = t {
                *comp = None;
                *blendable = false;
            }
        }
        if !self.o.cff2 {
            self.toks.push(Tok::Op(op::RETURN));
        }
    }

    /// Encode a run of segments, choosing operator forms freely.
    pub fn segs(&mut self, dec: &mut Dec, segs: &[Seg], masks: bool, nstems: usize) {
        // component id of each segment
        let mut ids = Vec::with_capacity(segs.len());
        for s in segs {
            ids.push(self.comp);
            self.comp += s.ncomp();
        }
        let mut i = 0;
        while i < segs.len() {
            if masks && dec.chance(1, 12) {
                self.mask(dec, false, nstems);
                self.stats.forms.insert("hintmask-mid-path");
            }
            let room = self.room();
            let rest = &segs[i..];
            // ---- applicable forms and their maximal lengths
            let mut cands: Vec<(&'static str, Vec<usize>)> = Vec::new();
            let nlines = rest.iter().take_while(|s| matches!(s, Seg::Line(_))).count();
            let ncurves = rest.iter().take_while(|s| matches!(s, Seg::Curve(_))).count();
            if nlines > 0 {
                let m = nlines.min(room / 2);
                cands.push(("rlineto", (1..=m).collect()));
                // alternating runs
                for (name, start_h) in [("hlineto", true), ("vlineto", false)] {
                    let mut m = 0;
                    let mut h = start_h;
                    for s in rest.iter().take(nlines) {
                        if (h && is_h(s)) || (!h && is_v(s)) {
                            m += 1;
                            h = !h;
                        } else {
                            break;
                        }
                    }
                    let m = m.min(room);
                    if m > 0 {
                        cands.push((name, (1..=m).collect()));
                    }
                }
                // rlinecurve: n lines then one curve
                let mut v = Vec::new();
                for n in 1..=nlines {
                    if 2 * n + 6 <= room && matches!(rest.get(n), Some(Seg::Curve(_))) && n == nlines {
                        v.push(n);
                    }
                }
                // (also a proper prefix of the line run cannot be followed by a curve, so only n == nlines)
                if !v.is_empty() {
                    cands.push(("rlinecurve", v));
                }
            }
            if ncurves > 0 {
                let m = ncurves.min(room / 6);
                cands.push(("rrcurveto", (1..=m).collect()));
                if matches!(rest.get(ncurves), Some(Seg::Line(_))) && 6 * ncurves + 2 <= room {
                    cands.push(("rcurveline", vec![ncurves]));
                }
                // hh / vv
                for (name, a, c_end) in [("hhcurveto", 1usize, 5usize), ("vvcurveto", 0, 4)] {
                    let mut m = 0;
                    for (k, s) in rest.iter().take(ncurves).enumerate() {
                        let c = curve(s).unwrap();
                        if (k == 0 || c[a] == 0) && c[c_end] == 0 {
                            m += 1;
                        } else {
                            break;
                        }
                    }
                    let m = m.min((room - 1) / 4);
                    if m > 0 {
                        cands.push((name, (1..=m).collect()));
                    }
                }
                // hv / vh
                for (name, start_hv) in [("hvcurveto", true), ("vhcurveto", false)] {
                    let mut v = Vec::new();
                    let mut hv = start_hv;
                    for (k, s) in rest.iter().take(ncurves).enumerate() {
                        let c = curve(s).unwrap();
                        let start_ok = if hv { c[1] == 0 } else { c[0] == 0 };
                        if !start_ok || 4 * (k + 1) + 1 > room {
                            break;
                        }
                        v.push(k + 1); // valid as last curve (free tail)
                        let strict = if hv { c[4] == 0 } else { c[5] == 0 };
                        if !strict {
                            break;
                        }
                        hv = !hv;
                    }
                    if !v.is_empty() {
                        cands.push((name, v));
                    }
                }
                // flex family
                if ncurves >= 2 {
                    let c1 = curve(&rest[0]).unwrap();
                    let c2 = curve(&rest[1]).unwrap();
                    if room >= 13 {
                        cands.push(("flex", vec![2]));
                    }
                    if room >= 7 && c1[1] == 0 && c1[5] == 0 && c2[1] == 0 && c2[5] == 0 && c2[3] as i64 == -(c1[3] as i64) {
                        cands.push(("hflex", vec![2]));
                    }
                    if room >= 9 && c1[5] == 0 && c2[1] == 0 && c2[5] as i64 == -(c1[1] as i64 + c1[3] as i64 + c2[3] as i64) {
                        cands.push(("hflex1", vec![2]));
                    }
                    if room >= 11 {
                        let sx = c1[0] as i64 + c1[2] as i64 + c1[4] as i64 + c2[0] as i64 + c2[2] as i64;
                        let sy = c1[1] as i64 + c1[3] as i64 + c1[5] as i64 + c2[1] as i64 + c2[3] as i64;
                        // flex1 decides by comparing |dx| with |dy|. In a glyph whose coordinates
                        // are blended (not exactly representable in the interpreter's floats) a tie
                        // may be decided either way by rounding: such glyphs use flex1 only when the
                        // comparison is decided by at least one unit.
                        let decided = !self.o.inexact || sx.abs() != sy.abs();
                        if decided && ((sx.abs() > sy.abs() && c2[5] as i64 == -sy) || (sx.abs() <= sy.abs() && c2[4] as i64 == -sx)) {
                            cands.push(("flex1", vec![2]));
                        }
                    }
                }
            }
            debug_assert!(!cands.is_empty());
            // prefer special forms a little: they are rarer
            let pick = if cands.len() > 1 && dec.chance(2, 3) { 1 + dec.below(cands.len() - 1) } else { dec.below(cands.len()) };
            let (name, lens) = &cands[pick];
            let n = if dec.chance(1, 2) { *lens.last().unwrap() } else { lens[dec.below(lens.len())] };
            let name: &'static str = name;
            self.emit(dec, name, &rest[..n + if name == "rlinecurve" || name == "rcurveline" { 1 } else { 0 }], &ids[i..]);
            i += n + if name == "rlinecurve" || name == "rcurveline" { 1 } else { 0 };
        }
    }

    fn emit(&mut self, dec: &mut Dec, name: &'static str, segs: &[Seg], ids: &[u32]) {
        self.stats.forms.insert(name);
        let all = |e: &mut Self, dec: &mut Dec, s: &Seg, id: u32| {
            for (k, v) in s.comps().iter().enumerate() {
                e.pnum(dec, *v, id + k as u32, true);
            }
        };
        match name {
            "rlineto" => {
                for (s, id) in segs.iter().zip(ids) {
                    all(self, dec, s, *id);
                }
                self.op(op::RLINETO);
            }
            "hlineto" | "vlineto" => {
                let mut h = name == "hlineto";
                for (s, id) in segs.iter().zip(ids) {
                    let c = s.comps();
                    if h {
                        self.pnum(dec, c[0], *id, true);
                    } else {
                        self.pnum(dec, c[1], *id + 1, true);
                    }
                    h = !h;
                }
                if segs.len() % 2 == 1 {
                    self.stats.forms.insert(if name == "hlineto" { "hlineto-odd" } else { "vlineto-odd" });
                } else {
                    self.stats.forms.insert(if name == "hlineto" { "hlineto-even" } else { "vlineto-even" });
                }
                self.op(if name == "hlineto" { op::HLINETO } else { op::VLINETO });
            }
            "rlinecurve" | "rrcurveto" | "rcurveline" => {
                for (s, id) in segs.iter().zip(ids) {
                    all(self, dec, s, *id);
                }
                self.op(match name {
                    "rlinecurve" => op::RLINECURVE,
                    "rrcurveto" => op::RRCURVETO,
                    _ => op::RCURVELINE,
                });
            }
            "hhcurveto" | "vvcurveto" => {
                let hh = name == "hhcurveto";
                let first = curve(&segs[0]).unwrap();
                let lead = if hh { first[1] } else { first[0] };
                let explicit = lead != 0 || dec.chance(1, 4);
                if explicit {
                    self.pnum(dec, lead, ids[0] + if hh { 1 } else { 0 }, true);
                    self.stats.forms.insert(if hh { "hhcurveto-odd" } else { "vvcurveto-odd" });
                }
                for (s, id) in segs.iter().zip(ids) {
                    let c = curve(s).unwrap();
                    if hh {
                        // dxa dxb dyb dxc
                        self.pnum(dec, c[0], *id, true);
                        self.pnum(dec, c[2], *id + 2, true);
                        self.pnum(dec, c[3], *id + 3, true);
                        self.pnum(dec, c[4], *id + 4, true);
                    } else {
                        // dya dxb dyb dyc
                        self.pnum(dec, c[1], *id + 1, true);
                        self.pnum(dec, c[2], *id + 2, true);
                        self.pnum(dec, c[3], *id + 3, true);
                        self.pnum(dec, c[5], *id + 5, true);
                    }
                }
                self.op(if hh { op::HHCURVETO } else { op::VVCURVETO });
            }
            "hvcurveto" | "vhcurveto" => {
                let mut hv = name == "hvcurveto";
                let n = segs.len();
                for (k, (s, id)) in segs.iter().zip(ids).enumerate() {
                    let c = curve(s).unwrap();
                    let last = k + 1 == n;
                    if hv {
                        // dxa dxb dyb dyc (dxc)
                        self.pnum(dec, c[0], *id, true);
                        self.pnum(dec, c[2], *id + 2, true);
                        self.pnum(dec, c[3], *id + 3, true);
                        self.pnum(dec, c[5], *id + 5, true);
                        if last && (c[4] != 0 || dec.chance(1, 5)) && self.room() > 0 {
                            self.pnum(dec, c[4], *id + 4, true);
                            self.stats.forms.insert(if name == "hvcurveto" { "hvcurveto-tail" } else { "vhcurveto-tail" });
                        } else {
                            debug_assert!(c[4] == 0);
                        }
                    } else {
                        // dya dxb dyb dxc (dyc)
                        self.pnum(dec, c[1], *id + 1, true);
                        self.pnum(dec, c[2], *id + 2, true);
                        self.pnum(dec, c[3], *id + 3, true);
                        self.pnum(dec, c[4], *id + 4, true);
                        if last && (c[5] != 0 || dec.chance(1, 5)) && self.room() > 0 {
                            self.pnum(dec, c[5], *id + 5, true);
                            self.stats.forms.insert(if name == "hvcurveto" { "hvcurveto-tail" } else { "vhcurveto-tail" });
                        } else {
                            debug_assert!(c[5] == 0);
                        }
                    }
                    hv = !hv;
                }
                if n > 1 {
                    self.stats.forms.insert(if name == "hvcurveto" { "hvcurveto-chain" } else { "vhcurveto-chain" });
                }
                self.op(if name == "hvcurveto" { op::HVCURVETO } else { op::VHCURVETO });
            }
            "flex" => {
                all(self, dec, &segs[0], ids[0]);
                all(self, dec, &segs[1], ids[1]);
                let fd = match dec.below(3) {
                    0 => 50 * ONE,
                    1 => dec.range(0, 1000) * ONE,
                    _ => dec.below(100 * 65536) as i32,
                };
                self.num(dec, fd, false);
                self.op(op::FLEX);
            }
            "hflex" => {
                // dx1 dx2 dy2 dx3 dx4 dx5 dx6   (implied components are not blendable)
                let c1 = *curve(&segs[0]).unwrap();
                let c2 = *curve(&segs[1]).unwrap();
                self.pnum(dec, c1[0], ids[0], false);
                self.pnum(dec, c1[2], ids[0] + 2, false);
                self.pnum(dec, c1[3], ids[0] + 3, false);
                self.pnum(dec, c1[4], ids[0] + 4, false);
                self.pnum(dec, c2[0], ids[1], false);
                self.pnum(dec, c2[2], ids[1] + 2, false);
                self.pnum(dec, c2[4], ids[1] + 4, false);
                self.op(op::HFLEX);
            }
            "hflex1" => {
                // dx1 dy1 dx2 dy2 dx3 dx4 dx5 dy5 dx6
                let c1 = *curve(&segs[0]).unwrap();
                let c2 = *curve(&segs[1]).unwrap();
                for k in 0..5 {
                    self.pnum(dec, c1[k], ids[0] + k as u32, false);
                }
                self.pnum(dec, c2[0], ids[1], false);
                self.pnum(dec, c2[2], ids[1] + 2, false);
                self.pnum(dec, c2[3], ids[1] + 3, false);
                self.pnum(dec, c2[4], ids[1] + 4, false);
                self.op(op::HFLEX1);
            }
            "flex1" => {
                let c1 = *curve(&segs[0]).unwrap();
                let c2 = *curve(&segs[1]).unwrap();
                for k in 0..6 {
                    self.pnum(dec, c1[k], ids[0] + k as u32, false);
                }
                for k in 0..4 {
                    self.pnum(dec, c2[k], ids[1] + k as u32, false);
                }
                let sx = c1[0] as i64 + c1[2] as i64 + c1[4] as i64 + c2[0] as i64 + c2[2] as i64;
                let sy = c1[1] as i64 + c1[3] as i64 + c1[5] as i64 + c2[1] as i64 + c2[3] as i64;
                if sx.abs() > sy.abs() {
                    self.pnum(dec, c2[4], ids[1] + 4, false);
                    self.stats.forms.insert("flex1-x");
                } else {
                    self.pnum(dec, c2[5], ids[1] + 5, false);
                    self.stats.forms.insert("flex1-y");
                }
                self.op(op::FLEX1);
            }
            _ => unreachable!("unknown form"),
        }
    }
}

// ------------------------------------------------------------------------------------------
// CFF2 blends

/// Give random per-region deltas to blendable operands and rewrite the token list so that
/// runs of varied operands become `defaults.. deltas.. n blend` groups. Returns the
/// component deltas for the path model. Stack limits are respected (an operand is only
/// varied if the enlarged argument list still fits `limit`).
pub fn apply_blends(dec: &mut Dec, toks: Vec<Tok>, o: &EncOpts, stats: &mut EncStats) -> (Vec<Tok>, BTreeMap<u32, Vec<Raw>>) {
    let k = o.regions;
    let mut deltas = BTreeMap::new();
    if k == 0 || o.blend_permille == 0 {
        return (toks, deltas);
    }
    let limit = o.stack_limit();
    let mut out: Vec<Tok> = Vec::new();
    // process operator by operator: [operands...] operator
    let mut i = 0;
    while i < toks.len() {
        // collect operands up to the next non-Num token
        let start = i;
        while i < toks.len() && matches!(toks[i], Tok::Num { .. }) {
            i += 1;
        }
        let operands = &toks[start..i];
        let n_ops = operands.len();
        // decide which operands vary; budget: every varied operand adds k stack entries while
        // its group is being assembled, plus 1 for the count
        let mut vary = vec![false; n_ops];
        // groups are maximal runs of varied operands; the stack peak occurs while the last
        // group is assembled: (#operands before and inside the group) + k*group + 1
        let want: Vec<bool> = operands
            .iter()
            .map(|t| matches!(t, Tok::Num { blendable: true, .. }) && dec.chance(o.blend_permille, 1000))
            .collect();
        let mut gstart = None;
        for j in 0..=n_ops {
            let w = j < n_ops && want[j];
            match (w, gstart) {
                (true, None) => gstart = Some(j),
                (false, Some(s)) => {
                    // group s..j: peak = j + k*(j-s) + 1
                    let mut len = j - s;
                    while len > 0 && s + len + k * len + 1 > limit {
                        len -= 1;
                    }
                    // operands after a shortened group stay static
                    for q in s..s + len {
                        vary[q] = true;
                    }
                    gstart = None;
                }
                _ => {}
            }
        }
        // emit
        let mut j = 0;
        while j < n_ops {
            if !vary[j] {
                out.push(operands[j].clone());
                j += 1;
                continue;
            }
            let s = j;
            while j < n_ops && vary[j] {
                j += 1;
            }
            // optionally split a long group in two blends
            let mut cuts = vec![s, j];
            if j - s >= 2 && dec.chance(1, 3) {
                cuts.insert(1, s + 1 + dec.below(j - s - 1));
            }
            for w in cuts.windows(2) {
                let (a, b) = (w[0], w[1]);
                let mut group_deltas: Vec<Vec<Raw>> = Vec::new();
                for q in a..b {
                    if let Tok::Num { v, form, comp, blendable, .. } = &operands[q] {
                        let d: Vec<Raw> = (0..k)
                            .map(|_| match dec.below(6) {
                                0 => 0,
                                1 => dec.range(-o.delta_scale, o.delta_scale) * ONE + dec.below(65536) as i32,
                                _ => dec.range(-o.delta_scale, o.delta_scale) * ONE,
                            })
                            .collect();
                        if let Some(c) = comp {
                            deltas.insert(*c, d.clone());
                        }
                        out.push(Tok::Num { v: *v, form: *form, comp: *comp, var: Some(d.clone()), blendable: *blendable });
                        group_deltas.push(d);
                    }
                }
                for d in &group_deltas {
                    for dv in d {
                        let form = if dv % ONE != 0 {
                            NumForm::Fixed
                        } else if o.free_number_forms && dec.chance(1, 5) {
                            NumForm::Int16
                        } else {
                            NumForm::Short
                        };
                        out.push(Tok::Num { v: *dv, form, comp: None, var: None, blendable: false });
                    }
                }
                out.push(Tok::Num { v: (b - a) as i32 * ONE, form: NumForm::Short, comp: None, var: None, blendable: false });
                out.push(Tok::Op(op::BLEND));
                stats.blends += 1;
            }
        }
        if i < toks.len() {
            out.push(toks[i].clone());
            i += 1;
        }
    }
    (out, deltas)
}

// ------------------------------------------------------------------------------------------
// stack depth bookkeeping and subroutine factoring

/// Stack depth before each token (and after the last) when the list is executed from an
/// empty stack with `regions` regions per blend. Calls are assumed stack-neutral.
pub fn depths(toks: &[Tok], regions: usize) -> Vec<usize> {
    let mut d = Vec::with_capacity(toks.len() + 1);
    let mut s = 0usize;
    for (i, t) in toks.iter().enumerate() {
        d.push(s);
        match t {
            Tok::Num { .. } => s += 1,
            Tok::Op(o) if *o == op::BLEND => {
                // n is the previous token
                let n = match toks.get(i.wrapping_sub(1)) {
                    Some(Tok::Num { v, .. }) => (*v >> 16) as usize,
                    _ => 0,
                };
                s = s.saturating_sub(1 + n * (regions + 1)) + n;
            }
            Tok::Op(o) if *o == op::VSINDEX => s = s.saturating_sub(1),
            Tok::Op(_) | Tok::Mask { .. } => s = 0,
            Tok::Call { .. } => {}
        }
    }
    d.push(s);
    d
}

/// Options for [`factor`].
pub struct FactorOpts<'a> {
    pub cff2: bool,
    pub regions: usize,
    /// maximal nesting depth the produced subroutines may reach (10 minus nothing: the limit)
    pub max_depth: u32,
    /// nesting depth of already existing subroutines a `Call` token refers to
    pub call_depth: &'a dyn Fn(bool, usize) -> u32,
    /// keep nesting as deep as allowed
    pub deep: bool,
}

/// Cut random token ranges of `toks` out into new subroutines (recursively, so that the new
/// subroutines nest). `new_subr(body, dec)` stores a body and returns `(global, id)`.
/// Returns the rewritten list and the nesting depth it now needs.
pub fn factor(
    dec: &mut Dec,
    toks: Vec<Tok>,
    o: &FactorOpts<'_>,
    new_subr: &mut dyn FnMut(Vec<Tok>, u32, &mut Dec) -> (bool, usize),
    ncuts: usize,
) -> (Vec<Tok>, u32) {
    let dep = depths(&toks, o.regions);
    factor_range(dec, &toks, &dep, 0, toks.len(), o, new_subr, ncuts, o.max_depth)
}

fn own_call_depth(toks: &[Tok], o: &FactorOpts<'_>) -> u32 {
    toks.iter()
        .map(|t| match t {
            Tok::Call { global, id, .. } => (o.call_depth)(*global, *id),
            _ => 0,
        })
        .max()
        .unwrap_or(0)
}

#[allow(clippy::too_many_arguments)]
fn factor_range(
    dec: &mut Dec,
    toks: &[Tok],
    dep: &[usize],
    lo: usize,
    hi: usize,
    o: &FactorOpts<'_>,
    new_subr: &mut dyn FnMut(Vec<Tok>, u32, &mut Dec) -> (bool, usize),
    ncuts: usize,
    budget: u32,
) -> (Vec<Tok>, u32) {
    let limit = if o.cff2 { 513 } else { 48 };
    let mut out = Vec::new();
    let mut depth = own_call_depth(&toks[lo..hi], o);
    if budget == 0 || hi - lo < 2 || ncuts == 0 {
        return (toks[lo..hi].to_vec(), depth);
    }
    // choose up to ncuts disjoint ranges, left to right
    let mut pos = lo;
    let mut cuts_left = ncuts;
    while pos < hi && cuts_left > 0 {
        let remaining = hi - pos;
        if remaining < 1 {
            break;
        }
        let (a, len) = if o.deep {
            // long ranges that shrink slowly, so that the nesting can reach the limit
            let a = pos + dec.below(2).min(remaining - 1);
            let maxlen = hi - a;
            (a, (maxlen - dec.below(2)).max(1))
        } else {
            let a = pos + dec.below(remaining);
            let maxlen = hi - a;
            let len = match dec.below(4) {
                0 => 1,
                1 => maxlen,
                _ => 1 + dec.below(maxlen),
            };
            (a, len)
        };
        let b = a + len;
        // the call pushes the subroutine number: needs one free stack slot at the call site
        let body_call_depth = own_call_depth(&toks[a..b], o);
        if dep[a] + 1 > limit || body_call_depth + 1 > budget {
            // not cuttable here (no room for the subroutine number, or too deep): try again
            cuts_left -= 1;
            continue;
        }
        out.extend_from_slice(&toks[pos..a]);
        // nest inside the body?
        let nest = if o.deep { true } else { dec.chance(1, 3) };
        let (mut body, body_depth) = if nest && b - a >= 2 {
            {
                let nc = 1 + dec.below(2);
                factor_range(dec, toks, dep, a, b, o, new_subr, nc, budget - 1)
            }
        } else {
            (toks[a..b].to_vec(), body_call_depth)
        };
        // a range that reaches the end of a CFF charstring contains its endchar: nothing may
        // follow endchar, so such a subroutine has no `return`
        let ends_with_endchar = b == toks.len() && matches!(toks.last(), Some(Tok::Op(x)) if *x == op::ENDCHAR);
        if !o.cff2 && !ends_with_endchar {
            body.push(Tok::Op(op::RETURN));
        }
        let d = body_depth + 1;
        let (global, id) = new_subr(body, d, dec);
        depth = depth.max(d);
        out.push(Tok::Call { global, id, form: if dec.chance(1, 5) { NumForm::Int16 } else { NumForm::Short } });
        pos = b;
        cuts_left -= 1;
    }
    out.extend_from_slice(&toks[pos..hi]);
    (out, depth)
}

/// Number of Call tokens.
pub fn count_calls(toks: &[Tok]) -> usize {
    toks.iter().filter(|t| matches!(t, Tok::Call { .. })).count()
}
