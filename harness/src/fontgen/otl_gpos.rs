//! OpenType Layout model + encoders for GPOS, GDEF and the legacy `kern` table, written from
//! the OpenType specification (chapter 2 common table formats, GPOS, GDEF, kern). The model
//! types defined here are what `refmodel::otl_gpos` interprets; nothing here reads or calls
//! allsorts.
//!
//! All encoders return `Err(TooBig)` instead of emitting a wrapped 16-bit offset.

use super::buf::Buf;
use std::collections::{BTreeMap, BTreeSet};

pub type Gid = u16;

#[derive(Clone, Copy, Debug, PartialEq, Eq)]
pub struct TooBig;

// ---------------------------------------------------------------------------------------------
// offset-table assembler: header with 16-bit offset slots + child blobs appended in order

struct Tab {
    b: Buf,
    fix: Vec<(usize, usize)>,
    kids: Vec<Vec<u8>>,
    share: bool,
}

impl Tab {
    fn new(share: bool) -> Tab {
        Tab { b: Buf::new(), fix: Vec::new(), kids: Vec::new(), share }
    }
    fn u16(&mut self, v: u16) -> &mut Self {
        self.b.u16(v);
        self
    }
    fn i16(&mut self, v: i16) -> &mut Self {
        self.b.i16(v);
        self
    }
    /// offset slot pointing at `child` (relative to the start of this table)
    fn off(&mut self, child: Vec<u8>) -> &mut Self {
        let idx = if self.share {
            match self.kids.iter().position(|k| *k == child) {
                Some(i) => i,
                None => {
                    self.kids.push(child);
                    self.kids.len() - 1
                }
            }
        } else {
            self.kids.push(child);
            self.kids.len() - 1
        };
        self.fix.push((self.b.len(), idx));
        self.b.u16(0);
        self
    }
    fn null(&mut self) -> &mut Self {
        self.b.u16(0);
        self
    }
    fn opt(&mut self, child: Option<Vec<u8>>) -> &mut Self {
        match child {
            Some(c) => self.off(c),
            None => self.null(),
        }
    }
    fn finish(mut self) -> Result<Vec<u8>, TooBig> {
        let mut at = Vec::new();
        for k in &self.kids {
            at.push(self.b.len());
            self.b.bytes(k);
        }
        for (pos, idx) in &self.fix {
            let o = at[*idx];
            if o > 0xFFFF {
                return Err(TooBig);
            }
            self.b.set_u16(*pos, o as u16);
        }
        Ok(self.b.into_vec())
    }
}

// ---------------------------------------------------------------------------------------------
// Coverage, ClassDef

/// Coverage table. `glyphs` sorted ascending, unique; coverage index = position.
/// fmt: 1 = glyph list, 2 = maximal ranges, 3 = format 2 with one range per glyph.
#[derive(Clone, Debug, PartialEq, Eq)]
pub struct Cov {
    pub glyphs: Vec<Gid>,
    pub fmt: u8,
}

impl Cov {
    pub fn new(mut glyphs: Vec<Gid>, fmt: u8) -> Cov {
        glyphs.sort_unstable();
        glyphs.dedup();
        Cov { glyphs, fmt }
    }
    pub fn index(&self, g: Gid) -> Option<usize> {
        self.glyphs.binary_search(&g).ok()
    }
    pub fn len(&self) -> usize {
        self.glyphs.len()
    }
}

pub fn encode_coverage(c: &Cov) -> Vec<u8> {
    let mut b = Buf::new();
    match c.fmt {
        1 => {
            b.u16(1).u16(c.glyphs.len() as u16);
            for g in &c.glyphs {
                b.u16(*g);
            }
        }
        _ => {
            let mut ranges: Vec<(Gid, Gid, u16)> = Vec::new();
            for (i, g) in c.glyphs.iter().enumerate() {
                if c.fmt == 2 {
                    if let Some(last) = ranges.last_mut() {
                        if last.1 + 1 == *g {
                            last.1 = *g;
                            continue;
                        }
                    }
                }
                ranges.push((*g, *g, i as u16));
            }
            b.u16(2).u16(ranges.len() as u16);
            for r in &ranges {
                b.u16(r.0).u16(r.1).u16(r.2);
            }
        }
    }
    b.into_vec()
}

/// Class definition: unlisted glyphs are class 0. fmt as for `Cov` (1 = array from the lowest
/// to the highest listed glyph, 2 = maximal ranges, 3 = one range per glyph).
#[derive(Clone, Debug, PartialEq, Eq, Default)]
pub struct ClassDefM {
    pub map: BTreeMap<Gid, u16>,
    pub fmt: u8,
}

impl ClassDefM {
    pub fn class(&self, g: Gid) -> u16 {
        self.map.get(&g).copied().unwrap_or(0)
    }
}

pub fn encode_classdef(c: &ClassDefM) -> Vec<u8> {
    let mut b = Buf::new();
    // class 0 entries need not be stored
    let listed: Vec<(Gid, u16)> = c.map.iter().filter(|(_, v)| **v != 0).map(|(g, v)| (*g, *v)).collect();
    match c.fmt {
        1 => {
            if listed.is_empty() {
                b.u16(1).u16(0).u16(0);
            } else {
                let lo = listed[0].0;
                let hi = listed[listed.len() - 1].0;
                b.u16(1).u16(lo).u16(hi - lo + 1);
                for g in lo..=hi {
                    b.u16(c.class(g));
                }
            }
        }
        _ => {
            let mut ranges: Vec<(Gid, Gid, u16)> = Vec::new();
            for (g, v) in &listed {
                if c.fmt == 2 {
                    if let Some(last) = ranges.last_mut() {
                        if last.1 + 1 == *g && last.2 == *v {
                            last.1 = *g;
                            continue;
                        }
                    }
                }
                ranges.push((*g, *g, *v));
            }
            b.u16(2).u16(ranges.len() as u16);
            for r in &ranges {
                b.u16(r.0).u16(r.1).u16(r.2);
            }
        }
    }
    b.into_vec()
}

// ---------------------------------------------------------------------------------------------
// GDEF

#[derive(Clone, Debug, Default, PartialEq)]
pub struct GdefModel {
    /// glyph class definition (1 base, 2 ligature, 3 mark, 4 component); None = offset 0
    pub glyph_classes: Option<ClassDefM>,
    pub mark_attach: Option<ClassDefM>,
    /// mark glyph sets (GDEF 1.2); the coverage format is per set
    pub mark_sets: Vec<Cov>,
    /// minor version 0, 2 or 3 (3 = with an ItemVariationStore offset, NULL unless `ivs`)
    pub minor: u16,
    /// ItemVariationStore (GDEF 1.3) that VariationIndex tables of GPOS refer to
    pub ivs: Option<crate::refmodel::varmodel::IvsModel>,
}

/// ItemVariationStore, format 1 (OpenType "Font variations common table formats"): region list
/// + one ItemVariationData subtable per model subtable; the leading columns that need 16 bits
/// are stored as words, the rest as int8.
pub fn encode_ivs(m: &crate::refmodel::varmodel::IvsModel) -> Vec<u8> {
    let axis_count = m.regions.first().map(|r| r.len()).unwrap_or(0);
    let mut regions = Buf::new();
    regions.u16(axis_count as u16).u16(m.regions.len() as u16);
    for r in &m.regions {
        for a in r {
            regions.i16(a.start).i16(a.peak).i16(a.end);
        }
    }
    let regions = regions.into_vec();
    let mut datas: Vec<Vec<u8>> = Vec::new();
    for (ri, rows) in &m.subtables {
        let mut words = 0usize;
        for row in rows {
            for (k, v) in row.iter().enumerate() {
                if *v < -128 || *v > 127 {
                    words = words.max(k + 1);
                }
            }
        }
        let mut d = Buf::new();
        d.u16(rows.len() as u16).u16(words as u16).u16(ri.len() as u16);
        for r in ri {
            d.u16(*r);
        }
        for row in rows {
            for (k, v) in row.iter().enumerate() {
                if k < words {
                    d.i16(*v as i16);
                } else {
                    d.u8(*v as i8 as u8);
                }
            }
        }
        datas.push(d.into_vec());
    }
    let mut b = Buf::new();
    let header = 8 + 4 * datas.len();
    b.u16(1).u32(header as u32).u16(datas.len() as u16);
    let mut at = header + regions.len();
    for d in &datas {
        b.u32(at as u32);
        at += d.len();
    }
    b.bytes(&regions);
    for d in &datas {
        b.bytes(d);
    }
    b.into_vec()
}

impl GdefModel {
    pub fn class(&self, g: Gid) -> u16 {
        self.glyph_classes.as_ref().map(|c| c.class(g)).unwrap_or(0)
    }
    pub fn attach_class(&self, g: Gid) -> u16 {
        self.mark_attach.as_ref().map(|c| c.class(g)).unwrap_or(0)
    }
    pub fn in_mark_set(&self, set: u16, g: Gid) -> bool {
        self.mark_sets.get(set as usize).map(|c| c.index(g).is_some()).unwrap_or(false)
    }
}

pub fn encode_gdef(g: &GdefModel) -> Result<Vec<u8>, TooBig> {
    let mut t = Tab::new(false);
    let minor = if g.ivs.is_some() {
        3
    } else if !g.mark_sets.is_empty() && g.minor < 2 {
        2
    } else {
        g.minor
    };
    t.u16(1).u16(minor);
    t.opt(g.glyph_classes.as_ref().map(encode_classdef));
    t.null(); // attachList
    t.null(); // ligCaretList
    t.opt(g.mark_attach.as_ref().map(encode_classdef));
    if minor >= 2 {
        if g.mark_sets.is_empty() {
            t.null();
        } else {
            // MarkGlyphSetsDef: format 1, count, Offset32[count] from the start of this table
            let mut b = Buf::new();
            b.u16(1).u16(g.mark_sets.len() as u16);
            let covs: Vec<Vec<u8>> = g.mark_sets.iter().map(encode_coverage).collect();
            let mut off = 4 + 4 * covs.len();
            for c in &covs {
                b.u32(off as u32);
                off += c.len();
            }
            for c in &covs {
                b.bytes(c);
            }
            t.off(b.into_vec());
        }
    }
    let ivs_slot = t.b.len();
    if minor >= 3 {
        t.b.u32(0);
    }
    let mut bytes = t.finish()?;
    if let Some(ivs) = &g.ivs {
        // Offset32 from the start of the GDEF header
        let at = (bytes.len() as u32).to_be_bytes();
        bytes[ivs_slot..ivs_slot + 4].copy_from_slice(&at);
        bytes.extend_from_slice(&encode_ivs(ivs));
    }
    Ok(bytes)
}

// ---------------------------------------------------------------------------------------------
// GPOS model

/// Value record contents. Fields whose bit is absent from the subtable's value format are not
/// stored and count as 0.
#[derive(Clone, Copy, Debug, Default, PartialEq, Eq)]
pub struct Value {
    pub xp: i16,
    pub yp: i16,
    pub xa: i16,
    pub ya: i16,
    /// Device / VariationIndex tables behind the four device offsets (xPlaDevice, yPlaDevice,
    /// xAdvDevice, yAdvDevice); `DevM::None` = NULL offset
    pub dev: [DevM; 4],
}

/// What a device offset of a value record or of an anchor (format 3) points at.
#[derive(Clone, Copy, Debug, Default, PartialEq, Eq)]
pub enum DevM {
    /// NULL offset
    #[default]
    None,
    /// hinting Device table: startSize..=endSize, deltaFormat 1-3 (2, 4, 8 bits per size); the
    /// packed delta words are derived from `fill`
    Hint { start: u16, end: u16, fmt: u8, fill: u16 },
    /// VariationIndex table (deltaFormat 0x8000): delta-set outer / inner index into the GDEF
    /// ItemVariationStore
    Var { outer: u16, inner: u16 },
}

/// Device table (hinting deltas, formats 1-3) or VariationIndex table (format 0x8000).
pub fn encode_device(d: &DevM) -> Vec<u8> {
    let mut b = Buf::new();
    match d {
        DevM::None => {}
        DevM::Hint { start, end, fmt, fill } => {
            let bits = match fmt {
                1 => 2usize,
                2 => 4,
                _ => 8,
            };
            let count = (*end as usize).saturating_sub(*start as usize) + 1;
            let words = (count * bits + 15) / 16;
            b.u16(*start).u16(*end).u16(match fmt {
                1 => 1,
                2 => 2,
                _ => 3,
            });
            for w in 0..words {
                b.u16(fill.wrapping_mul(w as u16 * 2 + 1).wrapping_add(w as u16));
            }
        }
        DevM::Var { outer, inner } => {
            b.u16(*outer).u16(*inner).u16(0x8000);
        }
    }
    b.into_vec()
}

impl Value {
    /// the value as it reads back under value format `fmt`
    pub fn masked(&self, fmt: u8) -> Value {
        Value {
            xp: if fmt & 1 != 0 { self.xp } else { 0 },
            yp: if fmt & 2 != 0 { self.yp } else { 0 },
            xa: if fmt & 4 != 0 { self.xa } else { 0 },
            ya: if fmt & 8 != 0 { self.ya } else { 0 },
            dev: [
                if fmt & 0x10 != 0 { self.dev[0] } else { DevM::None },
                if fmt & 0x20 != 0 { self.dev[1] } else { DevM::None },
                if fmt & 0x40 != 0 { self.dev[2] } else { DevM::None },
                if fmt & 0x80 != 0 { self.dev[3] } else { DevM::None },
            ],
        }
    }
}

/// value format: bits 0-3 xPlacement/yPlacement/xAdvance/yAdvance, bits 4-7 the four device
/// offsets (relative to the start of the table `t` assembles: the SinglePos / PairPosFormat2
/// subtable or the PairSet table), NULL unless the value names a Device/VariationIndex table.
fn put_value(t: &mut Tab, fmt: u8, v: &Value) {
    if fmt & 1 != 0 {
        t.i16(v.xp);
    }
    if fmt & 2 != 0 {
        t.i16(v.yp);
    }
    if fmt & 4 != 0 {
        t.i16(v.xa);
    }
    if fmt & 8 != 0 {
        t.i16(v.ya);
    }
    for bit in 4..8 {
        if fmt & (1 << bit) != 0 {
            match &v.dev[bit - 4] {
                DevM::None => t.null(),
                d => t.off(encode_device(d)),
            };
        }
    }
}

/// Anchor table; fmt 1 (x,y), 2 (x,y,anchorPoint), 3 (x,y, xDevice and yDevice offsets: NULL
/// unless `dev` names a Device/VariationIndex table)
#[derive(Clone, Copy, Debug, PartialEq, Eq)]
pub struct AnchorM {
    pub x: i16,
    pub y: i16,
    pub fmt: u8,
    pub point: u16,
    /// format 3 only
    pub dev: [DevM; 2],
}

pub fn encode_anchor(a: &AnchorM) -> Vec<u8> {
    let mut b = Buf::new();
    match a.fmt {
        2 => {
            b.u16(2).i16(a.x).i16(a.y).u16(a.point);
        }
        3 => {
            // device offsets are relative to the start of the Anchor table
            b.u16(3).i16(a.x).i16(a.y);
            let mut at = 10usize;
            let tabs: Vec<Vec<u8>> = a.dev.iter().map(encode_device).collect();
            for d in &tabs {
                if d.is_empty() {
                    b.u16(0);
                } else {
                    b.u16(at as u16);
                    at += d.len();
                }
            }
            for d in &tabs {
                b.bytes(d);
            }
        }
        _ => {
            b.u16(1).i16(a.x).i16(a.y);
        }
    }
    b.into_vec()
}

#[derive(Clone, Copy, Debug, Default, PartialEq, Eq)]
pub struct Flags {
    pub rtl: bool,
    pub ignore_base: bool,
    pub ignore_lig: bool,
    pub ignore_marks: bool,
    /// 0 = none
    pub mark_attach_type: u8,
    pub mark_filter_set: Option<u16>,
}

impl Flags {
    pub fn bits(&self) -> u16 {
        (self.rtl as u16)
            | (self.ignore_base as u16) << 1
            | (self.ignore_lig as u16) << 2
            | (self.ignore_marks as u16) << 3
            | (self.mark_filter_set.is_some() as u16) << 4
            | (self.mark_attach_type as u16) << 8
    }
    pub fn is_plain(&self) -> bool {
        !self.ignore_base && !self.ignore_lig && !self.ignore_marks && self.mark_attach_type == 0 && self.mark_filter_set.is_none()
    }
}

/// (sequenceIndex, lookupListIndex)
pub type SeqLookup = (u16, u16);

#[derive(Clone, Debug, PartialEq)]
pub struct Rule {
    /// glyph ids (format 1) or class values (format 2); backtrack is stored as in the file:
    /// element 0 is the glyph immediately before the input
    pub back: Vec<u16>,
    /// input sequence *after* the first glyph
    pub input: Vec<u16>,
    pub look: Vec<u16>,
    pub records: Vec<SeqLookup>,
}

#[derive(Clone, Debug, PartialEq)]
pub enum Subtable {
    Single1 { cov: Cov, fmt: u8, value: Value },
    Single2 { cov: Cov, fmt: u8, values: Vec<Value> },
    /// sets[coverage index] = (second glyph, value1, value2), sorted by second glyph
    Pair1 { cov: Cov, fmt1: u8, fmt2: u8, sets: Vec<Vec<(Gid, Value, Value)>> },
    /// matrix[class1][class2]
    Pair2 { cov: Cov, fmt1: u8, fmt2: u8, cd1: ClassDefM, cd2: ClassDefM, matrix: Vec<Vec<(Value, Value)>> },
    /// recs[coverage index] = (entry, exit)
    Cursive { cov: Cov, recs: Vec<(Option<AnchorM>, Option<AnchorM>)> },
    /// marks[mark coverage index] = (class, anchor); bases[base coverage index][class]
    MarkBase { mark_cov: Cov, base_cov: Cov, class_count: u16, marks: Vec<(u16, AnchorM)>, bases: Vec<Vec<Option<AnchorM>>> },
    /// ligs[ligature coverage index][component][class]
    MarkLig { mark_cov: Cov, lig_cov: Cov, class_count: u16, marks: Vec<(u16, AnchorM)>, ligs: Vec<Vec<Vec<Option<AnchorM>>>> },
    MarkMark { mark1_cov: Cov, mark2_cov: Cov, class_count: u16, marks: Vec<(u16, AnchorM)>, mark2s: Vec<Vec<Option<AnchorM>>> },
    /// rulesets[coverage index]; back/look unused
    Context1 { cov: Cov, rulesets: Vec<Option<Vec<Rule>>> },
    /// sets[class of first glyph]; back/look unused
    Context2 { cov: Cov, cd: ClassDefM, sets: Vec<Option<Vec<Rule>>> },
    Context3 { covs: Vec<Cov>, records: Vec<SeqLookup> },
    Chain1 { cov: Cov, rulesets: Vec<Option<Vec<Rule>>> },
    Chain2 { cov: Cov, bcd: ClassDefM, icd: ClassDefM, lcd: ClassDefM, sets: Vec<Option<Vec<Rule>>> },
    /// back[0] is the glyph immediately before the input
    Chain3 { back: Vec<Cov>, input: Vec<Cov>, look: Vec<Cov>, records: Vec<SeqLookup> },
}

impl Subtable {
    pub fn lookup_type(&self) -> u16 {
        match self {
            Subtable::Single1 { .. } | Subtable::Single2 { .. } => 1,
            Subtable::Pair1 { .. } | Subtable::Pair2 { .. } => 2,
            Subtable::Cursive { .. } => 3,
            Subtable::MarkBase { .. } => 4,
            Subtable::MarkLig { .. } => 5,
            Subtable::MarkMark { .. } => 6,
            Subtable::Context1 { .. } | Subtable::Context2 { .. } | Subtable::Context3 { .. } => 7,
            Subtable::Chain1 { .. } | Subtable::Chain2 { .. } | Subtable::Chain3 { .. } => 8,
        }
    }
    pub fn name(&self) -> &'static str {
        match self {
            Subtable::Single1 { .. } => "1.1",
            Subtable::Single2 { .. } => "1.2",
            Subtable::Pair1 { .. } => "2.1",
            Subtable::Pair2 { .. } => "2.2",
            Subtable::Cursive { .. } => "3",
            Subtable::MarkBase { .. } => "4",
            Subtable::MarkLig { .. } => "5",
            Subtable::MarkMark { .. } => "6",
            Subtable::Context1 { .. } => "7.1",
            Subtable::Context2 { .. } => "7.2",
            Subtable::Context3 { .. } => "7.3",
            Subtable::Chain1 { .. } => "8.1",
            Subtable::Chain2 { .. } => "8.2",
            Subtable::Chain3 { .. } => "8.3",
        }
    }
}

#[derive(Clone, Debug, PartialEq)]
pub struct Lookup {
    pub ltype: u16,
    pub flags: Flags,
    pub subtables: Vec<Subtable>,
    /// wrap every subtable in an Extension (type 9) record
    pub extension: bool,
    /// share identical child tables (coverage, anchors) inside a subtable
    pub share: bool,
}

#[derive(Clone, Debug, PartialEq)]
pub struct Feature {
    pub tag: [u8; 4],
    /// lookup list indices as stored (any order, duplicates allowed)
    pub lookups: Vec<u16>,
}

#[derive(Clone, Debug, PartialEq)]
pub struct ScriptM {
    pub tag: [u8; 4],
    /// feature indices of the default LangSys (None = no default LangSys)
    pub default: Option<Vec<u16>>,
    pub langsys: Vec<([u8; 4], Vec<u16>)>,
}

#[derive(Clone, Debug, PartialEq)]
pub struct GposModel {
    pub lookups: Vec<Lookup>,
    pub features: Vec<Feature>,
    pub scripts: Vec<ScriptM>,
    /// header minor version: 0, or 1 (with a NULL FeatureVariations offset)
    pub minor: u16,
}

fn put_records(b: &mut Buf, records: &[SeqLookup]) {
    for r in records {
        b.u16(r.0).u16(r.1);
    }
}

fn encode_mark_array(marks: &[(u16, AnchorM)], share: bool) -> Result<Vec<u8>, TooBig> {
    let mut t = Tab::new(share);
    t.u16(marks.len() as u16);
    for (class, a) in marks {
        t.u16(*class);
        t.off(encode_anchor(a));
    }
    t.finish()
}

fn encode_anchor_matrix(rows: &[Vec<Option<AnchorM>>], share: bool) -> Result<Vec<u8>, TooBig> {
    // BaseArray / Mark2Array: count, then rows of class_count anchor offsets
    let mut t = Tab::new(share);
    t.u16(rows.len() as u16);
    for row in rows {
        for a in row {
            t.opt(a.as_ref().map(encode_anchor));
        }
    }
    t.finish()
}

fn encode_rule(r: &Rule, chained: bool) -> Vec<u8> {
    let mut b = Buf::new();
    if chained {
        b.u16(r.back.len() as u16);
        for g in &r.back {
            b.u16(*g);
        }
        b.u16(r.input.len() as u16 + 1);
        for g in &r.input {
            b.u16(*g);
        }
        b.u16(r.look.len() as u16);
        for g in &r.look {
            b.u16(*g);
        }
        b.u16(r.records.len() as u16);
        put_records(&mut b, &r.records);
    } else {
        b.u16(r.input.len() as u16 + 1).u16(r.records.len() as u16);
        for g in &r.input {
            b.u16(*g);
        }
        put_records(&mut b, &r.records);
    }
    b.into_vec()
}

fn encode_ruleset(rules: &[Rule], chained: bool) -> Result<Vec<u8>, TooBig> {
    let mut t = Tab::new(false);
    t.u16(rules.len() as u16);
    for r in rules {
        t.off(encode_rule(r, chained));
    }
    t.finish()
}

pub fn encode_subtable(s: &Subtable, share: bool) -> Result<Vec<u8>, TooBig> {
    let mut t = Tab::new(share);
    match s {
        Subtable::Single1 { cov, fmt, value } => {
            t.u16(1).off(encode_coverage(cov)).u16(*fmt as u16);
            put_value(&mut t, *fmt, value);
        }
        Subtable::Single2 { cov, fmt, values } => {
            t.u16(2).off(encode_coverage(cov)).u16(*fmt as u16).u16(values.len() as u16);
            for v in values {
                put_value(&mut t, *fmt, v);
            }
        }
        Subtable::Pair1 { cov, fmt1, fmt2, sets } => {
            t.u16(1).off(encode_coverage(cov)).u16(*fmt1 as u16).u16(*fmt2 as u16).u16(sets.len() as u16);
            for set in sets {
                let mut b = Tab::new(share);
                b.u16(set.len() as u16);
                for (g2, v1, v2) in set {
                    b.u16(*g2);
                    put_value(&mut b, *fmt1, v1);
                    put_value(&mut b, *fmt2, v2);
                }
                t.off(b.finish()?);
            }
        }
        Subtable::Pair2 { cov, fmt1, fmt2, cd1, cd2, matrix } => {
            let c2 = matrix.first().map(|r| r.len()).unwrap_or(0);
            t.u16(2).off(encode_coverage(cov)).u16(*fmt1 as u16).u16(*fmt2 as u16);
            t.off(encode_classdef(cd1)).off(encode_classdef(cd2));
            t.u16(matrix.len() as u16).u16(c2 as u16);
            for row in matrix {
                for (v1, v2) in row {
                    put_value(&mut t, *fmt1, v1);
                    put_value(&mut t, *fmt2, v2);
                }
            }
        }
        Subtable::Cursive { cov, recs } => {
            t.u16(1).off(encode_coverage(cov)).u16(recs.len() as u16);
            for (entry, exit) in recs {
                t.opt(entry.as_ref().map(encode_anchor));
                t.opt(exit.as_ref().map(encode_anchor));
            }
        }
        Subtable::MarkBase { mark_cov, base_cov, class_count, marks, bases } => {
            t.u16(1).off(encode_coverage(mark_cov)).off(encode_coverage(base_cov)).u16(*class_count);
            t.off(encode_mark_array(marks, share)?).off(encode_anchor_matrix(bases, share)?);
        }
        Subtable::MarkMark { mark1_cov, mark2_cov, class_count, marks, mark2s } => {
            t.u16(1).off(encode_coverage(mark1_cov)).off(encode_coverage(mark2_cov)).u16(*class_count);
            t.off(encode_mark_array(marks, share)?).off(encode_anchor_matrix(mark2s, share)?);
        }
        Subtable::MarkLig { mark_cov, lig_cov, class_count, marks, ligs } => {
            t.u16(1).off(encode_coverage(mark_cov)).off(encode_coverage(lig_cov)).u16(*class_count);
            t.off(encode_mark_array(marks, share)?);
            // LigatureArray: count, offsets to LigatureAttach (componentCount, component records)
            let mut la = Tab::new(false);
            la.u16(ligs.len() as u16);
            for comps in ligs {
                la.off(encode_anchor_matrix(comps, share)?);
            }
            t.off(la.finish()?);
        }
        Subtable::Context1 { cov, rulesets } => {
            t.u16(1).off(encode_coverage(cov)).u16(rulesets.len() as u16);
            for rs in rulesets {
                match rs {
                    Some(rules) => t.off(encode_ruleset(rules, false)?),
                    None => t.null(),
                };
            }
        }
        Subtable::Context2 { cov, cd, sets } => {
            t.u16(2).off(encode_coverage(cov)).off(encode_classdef(cd)).u16(sets.len() as u16);
            for rs in sets {
                match rs {
                    Some(rules) => t.off(encode_ruleset(rules, false)?),
                    None => t.null(),
                };
            }
        }
        Subtable::Context3 { covs, records } => {
            t.u16(3).u16(covs.len() as u16).u16(records.len() as u16);
            for c in covs {
                t.off(encode_coverage(c));
            }
            put_records(&mut t.b, records);
        }
        Subtable::Chain1 { cov, rulesets } => {
            t.u16(1).off(encode_coverage(cov)).u16(rulesets.len() as u16);
            for rs in rulesets {
                match rs {
                    Some(rules) => t.off(encode_ruleset(rules, true)?),
                    None => t.null(),
                };
            }
        }
        Subtable::Chain2 { cov, bcd, icd, lcd, sets } => {
            t.u16(2).off(encode_coverage(cov));
            t.off(encode_classdef(bcd)).off(encode_classdef(icd)).off(encode_classdef(lcd));
            t.u16(sets.len() as u16);
            for rs in sets {
                match rs {
                    Some(rules) => t.off(encode_ruleset(rules, true)?),
                    None => t.null(),
                };
            }
        }
        Subtable::Chain3 { back, input, look, records } => {
            t.u16(3).u16(back.len() as u16);
            for c in back {
                t.off(encode_coverage(c));
            }
            t.u16(input.len() as u16);
            for c in input {
                t.off(encode_coverage(c));
            }
            t.u16(look.len() as u16);
            for c in look {
                t.off(encode_coverage(c));
            }
            t.u16(records.len() as u16);
            put_records(&mut t.b, records);
        }
    }
    t.finish()
}

pub fn encode_lookup(l: &Lookup) -> Result<Vec<u8>, TooBig> {
    let subs: Vec<Vec<u8>> = l.subtables.iter().map(|s| encode_subtable(s, l.share)).collect::<Result<_, _>>()?;
    let mut b = Buf::new();
    let n = subs.len();
    let header = 6 + 2 * n + if l.flags.mark_filter_set.is_some() { 2 } else { 0 };
    b.u16(if l.extension { 9 } else { l.ltype }).u16(l.flags.bits()).u16(n as u16);
    if l.extension {
        // extension records first (8 bytes each), then the real subtables
        let mut real_at = header + 8 * n;
        let mut ext = Buf::new();
        for (i, s) in subs.iter().enumerate() {
            let rec_at = header + 8 * i;
            if rec_at > 0xFFFF {
                return Err(TooBig);
            }
            b.u16(rec_at as u16);
            ext.u16(1).u16(l.ltype).u32((real_at - rec_at) as u32);
            real_at += s.len();
        }
        if let Some(set) = l.flags.mark_filter_set {
            b.u16(set);
        }
        b.bytes(&ext.0);
        for s in &subs {
            b.bytes(s);
        }
    } else {
        let mut at = header;
        for s in &subs {
            if at > 0xFFFF {
                return Err(TooBig);
            }
            b.u16(at as u16);
            at += s.len();
        }
        if let Some(set) = l.flags.mark_filter_set {
            b.u16(set);
        }
        for s in &subs {
            b.bytes(s);
        }
    }
    Ok(b.into_vec())
}

fn encode_langsys(features: &[u16]) -> Vec<u8> {
    let mut b = Buf::new();
    b.u16(0).u16(0xFFFF).u16(features.len() as u16);
    for f in features {
        b.u16(*f);
    }
    b.into_vec()
}

pub fn encode_gpos(g: &GposModel) -> Result<Vec<u8>, TooBig> {
    // script list
    let mut sl = Tab::new(false);
    let mut scripts: Vec<&ScriptM> = g.scripts.iter().collect();
    scripts.sort_by_key(|s| s.tag);
    sl.u16(scripts.len() as u16);
    for s in &scripts {
        sl.b.tag(&s.tag);
        let mut st = Tab::new(false);
        st.opt(s.default.as_ref().map(|f| encode_langsys(f)));
        let mut ls: Vec<&([u8; 4], Vec<u16>)> = s.langsys.iter().collect();
        ls.sort_by_key(|l| l.0);
        st.u16(ls.len() as u16);
        for l in ls {
            st.b.tag(&l.0);
            st.off(encode_langsys(&l.1));
        }
        sl.off(st.finish()?);
    }
    let script_list = sl.finish()?;
    // feature list (stored in model order: LangSys feature indices refer to it)
    let mut fl = Tab::new(false);
    fl.u16(g.features.len() as u16);
    for f in &g.features {
        fl.b.tag(&f.tag);
        let mut b = Buf::new();
        b.u16(0).u16(f.lookups.len() as u16);
        for l in &f.lookups {
            b.u16(*l);
        }
        fl.off(b.into_vec());
    }
    let feature_list = fl.finish()?;
    let mut ll = Tab::new(false);
    ll.u16(g.lookups.len() as u16);
    for l in &g.lookups {
        ll.off(encode_lookup(l)?);
    }
    let lookup_list = ll.finish()?;
    let mut t = Tab::new(false);
    t.u16(1).u16(g.minor);
    // the three lists; FeatureVariations offset (v1.1) is a 32-bit NULL written after them
    t.off(script_list).off(feature_list).off(lookup_list);
    if g.minor >= 1 {
        t.b.u32(0);
    }
    t.finish()
}

// ---------------------------------------------------------------------------------------------
// kern

pub const KERN_HORIZONTAL: u8 = 1;
pub const KERN_MINIMUM: u8 = 2;
pub const KERN_CROSS_STREAM: u8 = 4;
pub const KERN_OVERRIDE: u8 = 8;

#[derive(Clone, Debug, PartialEq)]
pub enum KernData {
    /// (left, right, value), sorted by (left, right), unique
    F0(Vec<(Gid, Gid, i16)>),
    /// class tables map glyph -> class index (glyphs outside firstGlyph..firstGlyph+n are class
    /// 0); `matrix[left class][right class]`; row 0 and column 0 are the "no kerning" class.
    F2 {
        left_first: Gid,
        left: Vec<u16>,
        right_first: Gid,
        right: Vec<u16>,
        matrix: Vec<Vec<i16>>,
        /// 0: array, left table, right table; 1: left, right, array; 2: left, array, right
        layout: u8,
    },
}

#[derive(Clone, Debug, PartialEq)]
pub struct KernSub {
    pub coverage: u8,
    pub data: KernData,
}

#[derive(Clone, Debug, PartialEq)]
pub struct KernModel {
    pub subs: Vec<KernSub>,
    /// zero bytes appended after the last subtable
    pub trailing: u16,
}

/// Byte layout facts of an encoded format 2 subtable that the reference needs to model
/// readers which address the kerning array differently.
#[derive(Clone, Debug, PartialEq)]
pub struct Kern2Layout {
    /// offset of the subtable within the kern table
    pub sub_at: usize,
    pub array_off: usize,
    pub row_width: usize,
}

/// Encode the kern table (version 0). Left class values are stored as
/// `arrayOffset + class * rowWidth` (offset from the start of the subtable, as Apple's and
/// Microsoft's text "adding the class values to the address of the subtable" describe), right
/// class values as `class * 2`.
pub fn encode_kern(k: &KernModel) -> (Vec<u8>, Vec<Option<Kern2Layout>>) {
    let mut b = Buf::new();
    let mut layouts = Vec::new();
    b.u16(0).u16(k.subs.len() as u16);
    for s in &k.subs {
        let sub_at = b.len();
        match &s.data {
            KernData::F0(pairs) => {
                let n = pairs.len() as u16;
                let (sr, es, rs) = super::sfnt::search_fields(n, 6);
                b.u16(0).u16((14 + 6 * pairs.len()) as u16).u16(s.coverage as u16);
                b.u16(n).u16(sr).u16(es).u16(rs);
                for (l, r, v) in pairs {
                    b.u16(*l).u16(*r).i16(*v);
                }
                layouts.push(None);
            }
            KernData::F2 { left_first, left, right_first, right, matrix, layout } => {
                let ncols = matrix.first().map(|r| r.len()).unwrap_or(0);
                let row_width = ncols * 2;
                let array_len = matrix.len() * row_width;
                let left_len = 4 + 2 * left.len();
                let right_len = 4 + 2 * right.len();
                let hdr = 6 + 8;
                let (array_off, left_off, right_off) = match layout {
                    0 => (hdr, hdr + array_len, hdr + array_len + left_len),
                    1 => (hdr + left_len + right_len, hdr, hdr + left_len),
                    _ => (hdr + left_len, hdr, hdr + left_len + array_len),
                };
                let total = hdr + array_len + left_len + right_len;
                b.u16(0).u16(total as u16).u16(0x0200 | s.coverage as u16);
                b.u16(row_width as u16).u16(left_off as u16).u16(right_off as u16).u16(array_off as u16);
                let mut parts: Vec<(usize, Vec<u8>)> = Vec::new();
                let mut a = Buf::new();
                for row in matrix {
                    for v in row {
                        a.i16(*v);
                    }
                }
                parts.push((array_off, a.into_vec()));
                let mut l = Buf::new();
                l.u16(*left_first).u16(left.len() as u16);
                for c in left {
                    l.u16((array_off + *c as usize * row_width) as u16);
                }
                parts.push((left_off, l.into_vec()));
                let mut r = Buf::new();
                r.u16(*right_first).u16(right.len() as u16);
                for c in right {
                    r.u16(*c * 2);
                }
                parts.push((right_off, r.into_vec()));
                parts.sort_by_key(|p| p.0);
                for (off, bytes) in parts {
                    debug_assert_eq!(b.len(), sub_at + off);
                    b.bytes(&bytes);
                }
                layouts.push(Some(Kern2Layout { sub_at, array_off, row_width }));
            }
        }
    }
    b.zeros(k.trailing as usize);
    (b.into_vec(), layouts)
}

/// set of all glyphs mentioned by a coverage list (helper for generators/tests)
pub fn glyph_set(covs: &[&Cov]) -> BTreeSet<Gid> {
    covs.iter().flat_map(|c| c.glyphs.iter().copied()).collect()
}
