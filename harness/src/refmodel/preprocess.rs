//! Reference model of the *documented* text preprocessing steps that precede glyph mapping
//! (property C17). Nothing here is derived from allsorts' code; the tables are transcribed from
//!
//! * Unicode: canonical combining classes (crate `unicode-canonical-combining-class`, an
//!   independent primitive), canonical decompositions of the Indic two/three-part matras
//!   (UnicodeData.txt), the `Modifier_Combining_Mark` list (UTR #53 / PropList.txt);
//! * UTR #53 "Unicode Arabic Mark Rendering" (AMTRA), steps 2a–2c;
//! * the OpenType shaping documents (n8willis/opentype-shaping-documents): Thai/Lao SARA AM
//!   decomposition with NIKHAHIT/NIGGAHITA reordering, Khmer split vowels, the
//!   "modified combining class" table (HarfBuzz `_hb_modified_combining_class`);
//! * Microsoft's Universal Shaping Engine document, table "independent vowel (IV) plus
//!   dependent vowel (DV) constraints" (dotted circle between prohibited pairs);
//! * HarfBuzz-documented compatibility behaviours that allsorts states it follows:
//!   Bengali YA + NUKTA -> YYA recomposition, Kannada RA HALANT ZWJ -> RA ZWJ HALANT.
//!
//! The sort key ("modified combining class") is a *parameter* of the model: the property only
//! promises "stably by (modified) combining class", so the check supplies the library's own
//! public key function; the documented key (`doc_mcc`) is compared with it separately.

use unicode_canonical_combining_class::get_canonical_combining_class;

pub const DOTTED_CIRCLE: char = '\u{25CC}';
pub const ZWJ: char = '\u{200D}';

/// Canonical combining class (Unicode), independent primitive.
pub fn ccc(c: char) -> u8 {
    get_canonical_combining_class(c) as u8
}

// ------------------------------------------------------------------------------------------
// documented modified combining classes
// ------------------------------------------------------------------------------------------

/// Modified combining class of a canonical class value as documented by HarfBuzz /
/// the shaping documents. Second component: `true` when the shaping documents themselves
/// disagree or leave a choice for this class (Telugu length marks: HarfBuzz maps them to 0,
/// other engines to a low non-zero class; Tibetan 130/132: HarfBuzz swaps them, the Tibetan
/// shaping document does not), i.e. a difference there is not a defect.
pub fn doc_mcc_of_class(class: u8) -> (u8, bool) {
    match class {
        // Hebrew (SBL Hebrew manual order)
        10 => (22, false), // sheva
        11 => (15, false), // hataf segol
        12 => (16, false), // hataf patah
        13 => (17, false), // hataf qamats
        14 => (23, false), // hiriq
        15 => (18, false), // tsere
        16 => (19, false), // segol
        17 => (20, false), // patah
        18 => (21, false), // qamats
        19 => (14, false), // holam
        20 => (24, false), // qubuts
        21 => (12, false), // dagesh
        22 => (25, false), // meteg
        23 => (13, false), // rafe
        24 => (10, false), // shin dot
        25 => (11, false), // sin dot
        26 => (26, false), // point varika
        // Telugu length marks
        84 => (0, true),
        91 => (0, true),
        // Thai sara u / sara uu below phinthu
        103 => (3, false),
        // Tibetan
        130 => (132, true),
        132 => (131, true),
        c => (c, false),
    }
}

pub fn doc_mcc(c: char) -> (u8, bool) {
    doc_mcc_of_class(ccc(c))
}

// ------------------------------------------------------------------------------------------
// script dispatch
// ------------------------------------------------------------------------------------------

#[derive(Clone, Copy, Debug, PartialEq, Eq)]
pub enum Indic {
    Devanagari,
    Bengali,
    Gurmukhi,
    Gujarati,
    Oriya,
    Tamil,
    Telugu,
    Kannada,
    Malayalam,
    Sinhala,
}

#[derive(Clone, Copy, Debug, PartialEq, Eq)]
pub enum ScriptClass {
    Default,
    Arabic,
    Syriac,
    ThaiLao,
    Indic(Indic),
    Khmer,
    Myanmar,
}

pub const fn tag(b: &[u8; 4]) -> u32 {
    ((b[0] as u32) << 24) | ((b[1] as u32) << 16) | ((b[2] as u32) << 8) | b[3] as u32
}

/// Which documented preprocessing a script tag selects (OpenType script tags; the Indic
/// entries are the "Indic1" tags that the library's callers pass).
pub fn classify_tag(t: u32) -> ScriptClass {
    match &t.to_be_bytes() {
        b"arab" => ScriptClass::Arabic,
        b"syrc" => ScriptClass::Syriac,
        b"thai" | b"lao " => ScriptClass::ThaiLao,
        b"khmr" => ScriptClass::Khmer,
        b"mymr" | b"mym2" => ScriptClass::Myanmar,
        b"deva" => ScriptClass::Indic(Indic::Devanagari),
        b"beng" => ScriptClass::Indic(Indic::Bengali),
        b"guru" => ScriptClass::Indic(Indic::Gurmukhi),
        b"gujr" => ScriptClass::Indic(Indic::Gujarati),
        b"orya" => ScriptClass::Indic(Indic::Oriya),
        b"taml" => ScriptClass::Indic(Indic::Tamil),
        b"telu" => ScriptClass::Indic(Indic::Telugu),
        b"knda" => ScriptClass::Indic(Indic::Kannada),
        b"mlym" => ScriptClass::Indic(Indic::Malayalam),
        b"sinh" => ScriptClass::Indic(Indic::Sinhala),
        _ => ScriptClass::Default,
    }
}

// ------------------------------------------------------------------------------------------
// tables
// ------------------------------------------------------------------------------------------

/// UTR #53 §3 / PropList.txt `Modifier_Combining_Mark`.
pub const MCM: [char; 14] = [
    '\u{0654}', '\u{0655}', '\u{0658}', '\u{06DC}', '\u{06E3}', '\u{06E7}', '\u{06E8}', '\u{08CA}', '\u{08CB}',
    '\u{08CD}', '\u{08CE}', '\u{08CF}', '\u{08D3}', '\u{08F3}',
];

pub fn is_mcm(c: char) -> bool {
    MCM.contains(&c)
}

/// Two- and three-part dependent vowels of the Indic scripts with their full canonical
/// decomposition (UnicodeData.txt field 5, applied recursively).
pub const INDIC_SPLITS: &[(char, &[char])] = &[
    ('\u{09CB}', &['\u{09C7}', '\u{09BE}']),
    ('\u{09CC}', &['\u{09C7}', '\u{09D7}']),
    ('\u{0B48}', &['\u{0B47}', '\u{0B56}']),
    ('\u{0B4B}', &['\u{0B47}', '\u{0B3E}']),
    ('\u{0B4C}', &['\u{0B47}', '\u{0B57}']),
    ('\u{0BCA}', &['\u{0BC6}', '\u{0BBE}']),
    ('\u{0BCB}', &['\u{0BC7}', '\u{0BBE}']),
    ('\u{0BCC}', &['\u{0BC6}', '\u{0BD7}']),
    ('\u{0C48}', &['\u{0C46}', '\u{0C56}']),
    ('\u{0CC0}', &['\u{0CBF}', '\u{0CD5}']),
    ('\u{0CC7}', &['\u{0CC6}', '\u{0CD5}']),
    ('\u{0CC8}', &['\u{0CC6}', '\u{0CD6}']),
    ('\u{0CCA}', &['\u{0CC6}', '\u{0CC2}']),
    ('\u{0CCB}', &['\u{0CC6}', '\u{0CC2}', '\u{0CD5}']),
    ('\u{0D4A}', &['\u{0D46}', '\u{0D3E}']),
    ('\u{0D4B}', &['\u{0D47}', '\u{0D3E}']),
    ('\u{0D4C}', &['\u{0D46}', '\u{0D57}']),
    ('\u{0DDA}', &['\u{0DD9}', '\u{0DCA}']),
    ('\u{0DDC}', &['\u{0DD9}', '\u{0DCF}']),
    ('\u{0DDD}', &['\u{0DD9}', '\u{0DCF}', '\u{0DCA}']),
    ('\u{0DDE}', &['\u{0DD9}', '\u{0DDF}']),
];

pub fn indic_split(c: char) -> Option<&'static [char]> {
    INDIC_SPLITS.iter().find(|(k, _)| *k == c).map(|(_, v)| *v)
}

/// Khmer split vowels: the pre-base component U+17C1 is emitted in front of the vowel, which
/// itself is kept (opentype-shaping-khmer, "split vowels").
pub const KHMER_SPLITS: [char; 5] = ['\u{17BE}', '\u{17BF}', '\u{17C0}', '\u{17C4}', '\u{17C5}'];
pub const KHMER_SIGN_E: char = '\u{17C1}';

/// Thai / Lao AM vowels: (AM, nikhahit/niggahita, AA).
pub const AM_VOWELS: [(char, char, char); 2] = [('\u{0E33}', '\u{0E4D}', '\u{0E32}'), ('\u{0EB3}', '\u{0ECD}', '\u{0EB2}')];

pub fn am_split(c: char) -> Option<(char, char)> {
    AM_VOWELS.iter().find(|t| t.0 == c).map(|t| (t.1, t.2))
}

/// Above-base (top position) marks of the Thai and Lao blocks per the character tables of the
/// Thai/Lao shaping document. The document says the NIKHAHIT of a decomposed SARA AM moves in
/// front of the tone marks; issue #125 of the documents (quoted by the library) extends this to
/// all above-base marks. U+0ECE (Unicode 15) is not in the tables: `None` = undetermined.
pub fn thai_lao_above_base(c: char) -> Option<bool> {
    match c {
        '\u{0E31}' | '\u{0E34}'..='\u{0E37}' | '\u{0E47}'..='\u{0E4E}' => Some(true),
        '\u{0EB1}' | '\u{0EB4}'..='\u{0EB7}' | '\u{0EBB}' | '\u{0EC8}'..='\u{0ECD}' => Some(true),
        '\u{0ECE}' => None,
        _ => Some(false),
    }
}

/// Tone marks proper (the documented minimum for the NIKHAHIT reordering).
pub fn thai_lao_tone_mark(c: char) -> bool {
    matches!(c, '\u{0E48}'..='\u{0E4B}' | '\u{0EC8}'..='\u{0ECB}')
}

/// Microsoft USE document: prohibited IV+DV (and DV+DV) pairs; third column = the character
/// the sequence would be confused with. A dotted circle is inserted between the two.
pub const PROHIBITED_PAIRS: &[(char, char, char)] = &[
    // Devanagari
    ('\u{0905}', '\u{0946}', '\u{0904}'),
    ('\u{0905}', '\u{093E}', '\u{0906}'),
    ('\u{0909}', '\u{0941}', '\u{090A}'),
    ('\u{090F}', '\u{0945}', '\u{090D}'),
    ('\u{090F}', '\u{0946}', '\u{090E}'),
    ('\u{090F}', '\u{0947}', '\u{0910}'),
    ('\u{0905}', '\u{0949}', '\u{0911}'),
    ('\u{0906}', '\u{0945}', '\u{0911}'),
    ('\u{0905}', '\u{094A}', '\u{0912}'),
    ('\u{0906}', '\u{0946}', '\u{0912}'),
    ('\u{0905}', '\u{094B}', '\u{0913}'),
    ('\u{0906}', '\u{0947}', '\u{0913}'),
    ('\u{0905}', '\u{094C}', '\u{0914}'),
    ('\u{0906}', '\u{0948}', '\u{0914}'),
    ('\u{0905}', '\u{0945}', '\u{0972}'),
    ('\u{0905}', '\u{093A}', '\u{0973}'),
    ('\u{0905}', '\u{093B}', '\u{0974}'),
    ('\u{0906}', '\u{093A}', '\u{0974}'),
    ('\u{0905}', '\u{094F}', '\u{0975}'),
    ('\u{0905}', '\u{0956}', '\u{0976}'),
    ('\u{0905}', '\u{0957}', '\u{0977}'),
    // Bengali
    ('\u{0985}', '\u{09BE}', '\u{0986}'),
    ('\u{098B}', '\u{09C3}', '\u{09E0}'),
    ('\u{098C}', '\u{09E2}', '\u{09E1}'),
    // Gurmukhi
    ('\u{0A05}', '\u{0A3E}', '\u{0A06}'),
    ('\u{0A72}', '\u{0A3F}', '\u{0A07}'),
    ('\u{0A72}', '\u{0A40}', '\u{0A08}'),
    ('\u{0A73}', '\u{0A41}', '\u{0A09}'),
    ('\u{0A73}', '\u{0A42}', '\u{0A0A}'),
    ('\u{0A72}', '\u{0A47}', '\u{0A0F}'),
    ('\u{0A05}', '\u{0A48}', '\u{0A10}'),
    ('\u{0A73}', '\u{0A4B}', '\u{0A13}'),
    ('\u{0A05}', '\u{0A4C}', '\u{0A14}'),
    // Gujarati
    ('\u{0A85}', '\u{0ABE}', '\u{0A86}'),
    ('\u{0A85}', '\u{0AC5}', '\u{0A8D}'),
    ('\u{0A85}', '\u{0AC7}', '\u{0A8F}'),
    ('\u{0A85}', '\u{0AC8}', '\u{0A90}'),
    ('\u{0A85}', '\u{0AC9}', '\u{0A91}'),
    ('\u{0A85}', '\u{0ACB}', '\u{0A93}'),
    ('\u{0A85}', '\u{0ACC}', '\u{0A94}'),
    ('\u{0AC5}', '\u{0ABE}', '\u{0AC9}'),
    // Oriya
    ('\u{0B05}', '\u{0B3E}', '\u{0B06}'),
    ('\u{0B0F}', '\u{0B57}', '\u{0B10}'),
    ('\u{0B13}', '\u{0B57}', '\u{0B14}'),
    // Telugu
    ('\u{0C12}', '\u{0C55}', '\u{0C13}'),
    ('\u{0C12}', '\u{0C4C}', '\u{0C14}'),
    ('\u{0C3F}', '\u{0C55}', '\u{0C40}'),
    ('\u{0C46}', '\u{0C55}', '\u{0C47}'),
    ('\u{0C4A}', '\u{0C55}', '\u{0C4B}'),
    // Kannada
    ('\u{0C89}', '\u{0CBE}', '\u{0C8A}'),
    ('\u{0C92}', '\u{0CCC}', '\u{0C94}'),
    ('\u{0C8B}', '\u{0CBE}', '\u{0CE0}'),
    // Malayalam
    ('\u{0D07}', '\u{0D57}', '\u{0D08}'),
    ('\u{0D09}', '\u{0D57}', '\u{0D0A}'),
    ('\u{0D0E}', '\u{0D46}', '\u{0D10}'),
    ('\u{0D12}', '\u{0D3E}', '\u{0D13}'),
    ('\u{0D12}', '\u{0D57}', '\u{0D14}'),
    // Sinhala
    ('\u{0D85}', '\u{0DCF}', '\u{0D86}'),
    ('\u{0D85}', '\u{0DD0}', '\u{0D87}'),
    ('\u{0D85}', '\u{0DD1}', '\u{0D88}'),
    ('\u{0D8B}', '\u{0DDF}', '\u{0D8C}'),
    ('\u{0D8D}', '\u{0DD8}', '\u{0D8E}'),
    ('\u{0D8F}', '\u{0DDF}', '\u{0D90}'),
    ('\u{0D91}', '\u{0DCA}', '\u{0D92}'),
    ('\u{0D91}', '\u{0DD9}', '\u{0D93}'),
    ('\u{0D91}', '\u{0DDA}', '\u{0D92}'),
    ('\u{0D91}', '\u{0DDC}', '\u{0D94}'),
    ('\u{0D91}', '\u{0DDD}', '\u{0D94}'),
    ('\u{0D94}', '\u{0DDF}', '\u{0D96}'),
];

pub fn is_prohibited(c1: char, c2: char) -> bool {
    PROHIBITED_PAIRS.iter().any(|p| p.0 == c1 && p.1 == c2)
}

/// Devanagari "reph + letter I" (RA HALANT I looks like letter II): circle before the I.
pub const REPH_I: [char; 3] = ['\u{0930}', '\u{094D}', '\u{0907}'];

/// Pairs present in later revisions of the constraint table only (HarfBuzz's generated
/// vowel-constraint list has Tamil A + UU); the library's table predates them. A circle
/// there is neither required nor forbidden by the check.
pub const LATER_PAIRS: [(char, char); 1] = [('\u{0B85}', '\u{0BC2}')];

pub const BENGALI_YA: char = '\u{09AF}';
pub const BENGALI_NUKTA: char = '\u{09BC}';
pub const BENGALI_YYA: char = '\u{09DF}';
pub const KANNADA_RA: char = '\u{0CB0}';
pub const KANNADA_HALANT: char = '\u{0CCD}';

// ------------------------------------------------------------------------------------------
// primitives
// ------------------------------------------------------------------------------------------

/// Stable insertion sort by key (written out so that no library sort is shared with the
/// implementation under test).
pub fn stable_sort_by_key(run: &mut [char], key: &dyn Fn(char) -> u8) {
    for i in 1..run.len() {
        let c = run[i];
        let k = key(c);
        let mut j = i;
        while j > 0 && key(run[j - 1]) > k {
            run[j] = run[j - 1];
            j -= 1;
        }
        run[j] = c;
    }
}

/// (start, end) of every maximal run of characters whose key is non-zero.
pub fn runs(cs: &[char], key: &dyn Fn(char) -> u8) -> Vec<(usize, usize)> {
    let mut out = Vec::new();
    let mut i = 0;
    while i < cs.len() {
        if key(cs[i]) == 0 {
            i += 1;
            continue;
        }
        let s = i;
        while i < cs.len() && key(cs[i]) != 0 {
            i += 1;
        }
        out.push((s, i));
    }
    out
}

pub fn sort_runs(cs: &mut [char], key: &dyn Fn(char) -> u8) {
    for (s, e) in runs(cs, key) {
        stable_sort_by_key(&mut cs[s..e], key);
    }
}

/// UTR #53 steps 2a–2c on one maximal run S of non-starters that is already in canonical
/// (here: modified-class) order. Returns (shadda moved, 230-MCM moved, 220-MCM moved).
pub fn amtra_run(s: &mut Vec<char>) -> (bool, bool, bool) {
    let before = s.clone();
    // 2a: move any shadda (ccc 33) to the beginning of S
    let shaddas: Vec<char> = s.iter().copied().filter(|&c| ccc(c) == 33).collect();
    let rest: Vec<char> = s.iter().copied().filter(|&c| ccc(c) != 33).collect();
    *s = shaddas;
    s.extend(rest);
    let a = *s != before;
    let mut moved = [false, false];
    // 2b (ccc 230) then 2c (ccc 220): if the sequence of characters of that class begins with
    // MCM characters, move that sequence of MCMs to the beginning of S
    for (n, class) in [230u8, 220u8].iter().enumerate() {
        if let Some(first) = s.iter().position(|&c| ccc(c) == *class) {
            let mut end = first;
            while end < s.len() && ccc(s[end]) == *class && is_mcm(s[end]) {
                end += 1;
            }
            if end > first {
                let seq: Vec<char> = s.drain(first..end).collect();
                moved[n] = first > 0;
                let tail = std::mem::take(s);
                *s = seq;
                s.extend(tail);
            }
        }
    }
    (a, moved[0], moved[1])
}

// ------------------------------------------------------------------------------------------
// the model
// ------------------------------------------------------------------------------------------

/// Choices where the documents leave room; the check accepts every listed combination and
/// counts the cases in which the choice matters.
#[derive(Clone, Copy, Debug, PartialEq, Eq)]
pub struct Variant {
    /// After a circle has been put between c1 and c2, is c2 examined again as the first
    /// member of a pair? (HarfBuzz: no. A literal reading of "between every prohibited pair":
    /// yes. Only U+0A85 U+0AC5 U+0ABE is affected.)
    pub rescan_second_of_pair: bool,
    /// Kannada RA HALANT ZWJ swap at every occurrence (HarfBuzz: start of each syllable)
    /// instead of only at the start of the text.
    pub kannada_swap_everywhere: bool,
    /// treat U+0ECE as an above-base mark for the NIGGAHITA reordering
    pub lao_0ece_above: bool,
    /// DEFECT MODEL (not a documented behaviour): the AM-vowel scan visits only as many
    /// positions as the text had on entry, although every decomposition lengthens the text by
    /// one: an AM vowel at input index p preceded by k AM vowels is left alone when p + k >= n.
    pub defect_am_scan_uses_entry_length: bool,
}

impl Variant {
    pub const PRIMARY: Variant = Variant {
        rescan_second_of_pair: false,
        kannada_swap_everywhere: false,
        lao_0ece_above: false,
        defect_am_scan_uses_entry_length: false,
    };
}

/// What the model did (for classification of the generated cases).
#[derive(Clone, Debug, Default)]
pub struct Trace {
    pub runs_reordered: u32,
    pub longest_run: u32,
    pub shadda_moved: u32,
    pub mcm230_moved: u32,
    pub mcm220_moved: u32,
    pub am_split: u32,
    pub am_rotated: u32,
    pub splits: u32,
    pub circles: u32,
    pub reph_i: u32,
    pub ya_nukta: u32,
    pub kannada_swap: u32,
    pub khmer_splits: u32,
}

fn sort_runs_traced(cs: &mut [char], key: &dyn Fn(char) -> u8, tr: &mut Trace) {
    for (s, e) in runs(cs, key) {
        let before: Vec<char> = cs[s..e].to_vec();
        stable_sort_by_key(&mut cs[s..e], key);
        if before[..] != cs[s..e] {
            tr.runs_reordered += 1;
        }
        tr.longest_run = tr.longest_run.max((e - s) as u32);
    }
}

pub fn reference(input: &[char], script_tag: u32, key: &dyn Fn(char) -> u8, v: Variant) -> (Vec<char>, Trace) {
    let mut tr = Trace::default();
    let out = match classify_tag(script_tag) {
        ScriptClass::Myanmar => input.to_vec(),
        ScriptClass::Default | ScriptClass::Syriac => {
            let mut cs = input.to_vec();
            sort_runs_traced(&mut cs, key, &mut tr);
            cs
        }
        ScriptClass::Arabic => {
            let mut cs = input.to_vec();
            sort_runs_traced(&mut cs, key, &mut tr);
            for (s, e) in runs(&cs, key) {
                let mut run: Vec<char> = cs[s..e].to_vec();
                let (a, b, c) = amtra_run(&mut run);
                tr.shadda_moved += a as u32;
                tr.mcm230_moved += b as u32;
                tr.mcm220_moved += c as u32;
                cs[s..e].copy_from_slice(&run);
            }
            cs
        }
        ScriptClass::ThaiLao => {
            let n = input.len();
            let mut out: Vec<char> = Vec::with_capacity(n + 4);
            let mut k = 0usize;
            for (p, &c) in input.iter().enumerate() {
                let split = am_split(c);
                let skipped_by_defect = v.defect_am_scan_uses_entry_length && p + k >= n;
                match split {
                    Some((nik, aa)) if !skipped_by_defect => {
                        k += 1;
                        tr.am_split += 1;
                        let mut j = out.len();
                        while j > 0 && thai_lao_above_base(out[j - 1]).unwrap_or(v.lao_0ece_above) {
                            j -= 1;
                        }
                        if j < out.len() {
                            tr.am_rotated += 1;
                        }
                        out.insert(j, nik);
                        out.push(aa);
                    }
                    _ => out.push(c),
                }
            }
            sort_runs_traced(&mut out, key, &mut tr);
            out
        }
        ScriptClass::Khmer => {
            let mut out = Vec::with_capacity(input.len() + 4);
            for &c in input {
                if KHMER_SPLITS.contains(&c) {
                    out.push(KHMER_SIGN_E);
                    tr.khmer_splits += 1;
                }
                out.push(c);
            }
            sort_runs_traced(&mut out, key, &mut tr);
            out
        }
        ScriptClass::Indic(script) => {
            // 1. dotted circle between prohibited vowel pairs
            let n = input.len();
            let mut a: Vec<char> = Vec::with_capacity(n + 4);
            let mut i = 0;
            while i < n {
                a.push(input[i]);
                if i + 1 < n && is_prohibited(input[i], input[i + 1]) {
                    a.push(DOTTED_CIRCLE);
                    tr.circles += 1;
                    if !v.rescan_second_of_pair {
                        a.push(input[i + 1]);
                        i += 2;
                        continue;
                    }
                } else if i + 2 < n && input[i..i + 3] == REPH_I {
                    a.push(input[i + 1]);
                    a.push(DOTTED_CIRCLE);
                    a.push(input[i + 2]);
                    tr.circles += 1;
                    tr.reph_i += 1;
                    i += 3;
                    continue;
                }
                i += 1;
            }
            // 2. split matras
            let mut b: Vec<char> = Vec::with_capacity(a.len() + 4);
            for &c in &a {
                match indic_split(c) {
                    Some(parts) => {
                        b.extend_from_slice(parts);
                        tr.splits += 1;
                    }
                    None => b.push(c),
                }
            }
            // 3. mark reordering
            sort_runs_traced(&mut b, key, &mut tr);
            // 4. script specific compatibility steps
            match script {
                Indic::Bengali => {
                    let mut c: Vec<char> = Vec::with_capacity(b.len());
                    let mut i = 0;
                    while i < b.len() {
                        if i + 1 < b.len() && b[i] == BENGALI_YA && b[i + 1] == BENGALI_NUKTA {
                            c.push(BENGALI_YYA);
                            tr.ya_nukta += 1;
                            i += 2;
                        } else {
                            c.push(b[i]);
                            i += 1;
                        }
                    }
                    c
                }
                Indic::Kannada => {
                    let pat = [KANNADA_RA, KANNADA_HALANT, ZWJ];
                    let mut i = 0;
                    while i + 3 <= b.len() {
                        if b[i..i + 3] == pat && (i == 0 || v.kannada_swap_everywhere) {
                            b.swap(i + 1, i + 2);
                            tr.kannada_swap += 1;
                            i += 3;
                        } else {
                            i += 1;
                        }
                    }
                    b
                }
                _ => b,
            }
        }
    };
    (out, tr)
}

/// Number of places in `input` where the constraint table (pairs, reph+I) matches at all
/// (every adjacent pair is tested): an upper bound for the dotted circles that may be added.
pub fn constraint_sites(input: &[char]) -> usize {
    let mut n = 0;
    for i in 0..input.len() {
        if i + 1 < input.len() && is_prohibited(input[i], input[i + 1]) {
            n += 1;
        }
        if i + 2 < input.len() && input[i..i + 3] == REPH_I {
            n += 1;
        }
    }
    n
}

/// Self-test of the model against examples printed in the documents. Panics (= harness error)
/// when the transcription is wrong.
pub fn self_test() {
    let key = |c: char| doc_mcc(c).0;
    let u = |s: &[u32]| -> Vec<char> { s.iter().map(|&x| char::from_u32(x).unwrap()).collect() };
    // UTR #53 §4.3 artificial example
    let inp = u(&[0x0618, 0x0619, 0x064E, 0x064F, 0x0654, 0x0658, 0x0653, 0x0654, 0x0651, 0x0656, 0x0651, 0x065C, 0x0655, 0x0650]);
    let exp = u(&[0x0654, 0x0658, 0x0651, 0x0651, 0x0618, 0x064E, 0x0619, 0x064F, 0x0650, 0x0656, 0x065C, 0x0655, 0x0653, 0x0654]);
    assert_eq!(reference(&inp, tag(b"arab"), &key, Variant::PRIMARY).0, exp, "UTR53 artificial example");
    // UTR #53 example 1: alef, damma, hamza above -> hamza first
    assert_eq!(reference(&u(&[0x627, 0x64F, 0x654]), tag(b"arab"), &key, Variant::PRIMARY).0, u(&[0x627, 0x654, 0x64F]));
    // CGJ blocks the reordering
    assert_eq!(
        reference(&u(&[0x627, 0x64F, 0x34F, 0x654]), tag(b"arab"), &key, Variant::PRIMARY).0,
        u(&[0x627, 0x64F, 0x34F, 0x654])
    );
    // Thai/Lao document: <consonant, tone, SARA AM> -> <consonant, NIKHAHIT, tone, SARA AA>
    assert_eq!(reference(&u(&[0xE19, 0xE49, 0xE33]), tag(b"thai"), &key, Variant::PRIMARY).0, u(&[0xE19, 0xE4D, 0xE49, 0xE32]));
    assert_eq!(
        reference(&u(&[0xE01, 0xE48, 0xE33, 0xE01, 0xE33]), tag(b"thai"), &key, Variant::PRIMARY).0,
        u(&[0xE01, 0xE4D, 0xE48, 0xE32, 0xE01, 0xE4D, 0xE32])
    );
    // phinthu after sara u
    assert_eq!(reference(&u(&[0xE19, 0xE3A, 0xE38]), tag(b"thai"), &key, Variant::PRIMARY).0, u(&[0xE19, 0xE38, 0xE3A]));
    // Bengali: ka + sign o -> ka, e, aa; ya + nukta -> yya
    assert_eq!(reference(&u(&[0x995, 0x9CB]), tag(b"beng"), &key, Variant::PRIMARY).0, u(&[0x995, 0x9C7, 0x9BE]));
    assert_eq!(reference(&u(&[0x9AF, 0x9BC]), tag(b"beng"), &key, Variant::PRIMARY).0, u(&[0x9DF]));
    assert_eq!(reference(&u(&[0x9AF, 0x9BC]), tag(b"deva"), &key, Variant::PRIMARY).0, u(&[0x9AF, 0x9BC]));
    // Bengali A + AA sign
    assert_eq!(reference(&u(&[0x985, 0x9BE]), tag(b"beng"), &key, Variant::PRIMARY).0, u(&[0x985, 0x25CC, 0x9BE]));
    // Kannada
    assert_eq!(reference(&u(&[0xCB0, 0xCCD, 0x200D, 0xC95]), tag(b"knda"), &key, Variant::PRIMARY).0, u(&[0xCB0, 0x200D, 0xCCD, 0xC95]));
    // Kannada three-part matra, Sinhala three-part matra
    assert_eq!(reference(&u(&[0xC95, 0xCCB]), tag(b"knda"), &key, Variant::PRIMARY).0, u(&[0xC95, 0xCC6, 0xCC2, 0xCD5]));
    assert_eq!(reference(&u(&[0xD9A, 0xDDD]), tag(b"sinh"), &key, Variant::PRIMARY).0, u(&[0xD9A, 0xDD9, 0xDCF, 0xDCA]));
    // Khmer
    assert_eq!(reference(&u(&[0x1780, 0x17C4]), tag(b"khmr"), &key, Variant::PRIMARY).0, u(&[0x1780, 0x17C1, 0x17C4]));
    // Hebrew: dagesh (21) sorts before sheva (10) under the modified classes
    assert_eq!(reference(&u(&[0x5D1, 0x5B0, 0x5BC]), tag(b"hebr"), &key, Variant::PRIMARY).0, u(&[0x5D1, 0x5BC, 0x5B0]));
    // every split table row is consistent with canonical classes: parts are never reordered
    // relative to each other by the sort unless their classes say so (documented expectation:
    // all parts of the listed matras have ccc 0 except Sinhala al-lakuna U+0DCA (9) and the
    // Telugu ai length mark U+0C56 (91), each the last part of its matra)
    for (c, parts) in INDIC_SPLITS.iter() {
        assert_eq!(ccc(*c), 0);
        for p in parts.iter() {
            assert!(ccc(*p) == 0 || *p == '\u{0DCA}' || *p == '\u{0C56}', "{:04X}", *p as u32);
        }
    }
}
