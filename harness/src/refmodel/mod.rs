//! independent decoders / reference semantics
