//! independent decoders / reference semantics
pub mod preprocess;
pub mod glyf_min;
pub mod glyf_lite;
pub mod varmodel;
