//! independent decoders / reference semantics
pub mod preprocess;
