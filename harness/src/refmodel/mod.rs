//! independent decoders / reference semantics
pub mod preprocess;
pub mod glyf_min;
pub mod glyf_lite;
pub mod varmodel;
pub mod otl_gpos;
pub mod cmap;
pub mod glyf;
pub mod type2;
pub mod sfnt_validate;
pub mod otl_gsub;
pub mod varext;
