//! The OpenType variation model, evaluated in f64 — written from the specification
//! (OpenType Font Variations Overview, "Algorithm for interpolation of instance values";
//! gvar, "Inferred deltas for un-referenced point numbers"; hmtx/gvar phantom points), and
//! independent minimal readers for the tables of an instanced font (loca/glyf, hhea/hmtx,
//! OS/2, post) plus decoders for gvar / ItemVariationStore / HVAR / MVAR so that real
//! (fixture) variable fonts can be evaluated by the same reference.
//!
//! Nothing here calls allsorts.

use crate::fontgen::sfnt::find_table;

// ------------------------------------------------------------------ model

/// One axis of a variation region, raw F2Dot14.
#[derive(Clone, Copy, Debug, PartialEq, Eq, PartialOrd, Ord, Hash)]
pub struct AxisRegion {
    pub start: i16,
    pub peak: i16,
    pub end: i16,
}

pub type Region = Vec<AxisRegion>;

/// The region implied by a peak tuple when no intermediate start/end tuples are given:
/// from zero to the peak.
pub fn implied_axis_region(peak: i16) -> AxisRegion {
    AxisRegion {
        start: peak.min(0),
        peak,
        end: peak.max(0),
    }
}

/// One tuple variation of a glyph: a region, a point set and one (x, y) delta per listed point.
#[derive(Clone, Debug, PartialEq)]
pub struct TupleVar {
    pub region: Region,
    /// strictly increasing point numbers, or None = every point including the four phantoms
    pub points: Option<Vec<u16>>,
    pub deltas: Vec<(i16, i16)>,
}

/// Per-axis scalar, exactly the specification's algorithm (all operands are raw 2.14 values,
/// the quotient is formed in f64).
pub fn axis_scalar(coord: i16, r: AxisRegion) -> f64 {
    let (c, s, p, e) = (coord as f64, r.start as f64, r.peak as f64, r.end as f64);
    if r.start > r.peak || r.peak > r.end {
        1.0
    } else if r.start < 0 && r.end > 0 && r.peak != 0 {
        1.0
    } else if r.peak == 0 {
        1.0
    } else if coord < r.start || coord > r.end {
        0.0
    } else if coord == r.peak {
        1.0
    } else if coord < r.peak {
        (c - s) / (p - s)
    } else {
        (e - c) / (e - p)
    }
}

/// true if the region is one the specification calls invalid for an axis (and then ignores)
pub fn axis_region_invalid(r: AxisRegion) -> bool {
    r.start > r.peak || r.peak > r.end || (r.start < 0 && r.end > 0 && r.peak != 0)
}

pub fn region_scalar(loc: &[i16], region: &[AxisRegion]) -> f64 {
    let mut s = 1.0;
    for (i, r) in region.iter().enumerate() {
        let c = loc.get(i).copied().unwrap_or(0);
        s *= axis_scalar(c, *r);
        if s == 0.0 {
            return 0.0;
        }
    }
    s
}

fn infer_coord(prev_c: i16, target_c: i16, next_c: i16, prev_d: i16, next_d: i16) -> f64 {
    if prev_c == next_c {
        if prev_d == next_d {
            prev_d as f64
        } else {
            0.0
        }
    } else {
        let (lo_c, lo_d, hi_c, hi_d) = if prev_c < next_c {
            (prev_c as f64, prev_d as f64, next_c as f64, next_d as f64)
        } else {
            (next_c as f64, next_d as f64, prev_c as f64, prev_d as f64)
        };
        let t = target_c as f64;
        if t <= lo_c {
            lo_d
        } else if t >= hi_c {
            hi_d
        } else {
            let prop = (t - lo_c) / (hi_c - lo_c);
            (1.0 - prop) * lo_d + prop * hi_d
        }
    }
}

/// Deltas of one tuple variation for all `n_total` point numbers (glyph points followed by the
/// four phantom points): explicit deltas as given, inferred deltas for un-referenced points of
/// contours that have some referenced point, zero elsewhere. `coords` are the *default* outline
/// coordinates (len = number of real points; empty for composite and empty glyphs) and `ends`
/// the inclusive end index of each contour. Returns (deltas, was_inferred).
pub fn tuple_deltas(
    n_total: usize,
    coords: &[(i16, i16)],
    ends: &[usize],
    t: &TupleVar,
) -> (Vec<(f64, f64)>, Vec<bool>) {
    let mut explicit: Vec<Option<(i16, i16)>> = vec![None; n_total];
    match &t.points {
        None => {
            for (i, d) in t.deltas.iter().enumerate().take(n_total) {
                explicit[i] = Some(*d);
            }
        }
        Some(ps) => {
            for (p, d) in ps.iter().zip(t.deltas.iter()) {
                if (*p as usize) < n_total {
                    explicit[*p as usize] = Some(*d);
                }
            }
        }
    }
    let mut out: Vec<(f64, f64)> = explicit
        .iter()
        .map(|e| e.map(|d| (d.0 as f64, d.1 as f64)).unwrap_or((0.0, 0.0)))
        .collect();
    let mut inferred = vec![false; n_total];
    let mut begin = 0usize;
    for &end in ends {
        if end >= coords.len() || end < begin {
            break;
        }
        let refd: Vec<usize> = (begin..=end).filter(|i| explicit[*i].is_some()).collect();
        let len = end - begin + 1;
        if refd.is_empty() || refd.len() == len {
            // untouched contour, or nothing to infer
        } else if refd.len() == 1 {
            let d = explicit[refd[0]].unwrap();
            for i in begin..=end {
                if i != refd[0] {
                    out[i] = (d.0 as f64, d.1 as f64);
                    inferred[i] = true;
                }
            }
        } else {
            for i in begin..=end {
                if explicit[i].is_some() {
                    continue;
                }
                // nearest referenced point before (else the highest referenced of the contour)
                let prev = refd.iter().rev().find(|r| **r < i).copied().unwrap_or(*refd.last().unwrap());
                // nearest referenced point after (else the lowest referenced of the contour)
                let next = refd.iter().find(|r| **r > i).copied().unwrap_or(refd[0]);
                let (pd, nd) = (explicit[prev].unwrap(), explicit[next].unwrap());
                let dx = infer_coord(coords[prev].0, coords[i].0, coords[next].0, pd.0, nd.0);
                let dy = infer_coord(coords[prev].1, coords[i].1, coords[next].1, pd.1, nd.1);
                out[i] = (dx, dy);
                inferred[i] = true;
            }
        }
        begin = end + 1;
    }
    (out, inferred)
}

#[derive(Clone, Debug, Default)]
pub struct GlyphEval {
    /// summed scaled deltas for the n real points / components followed by 4 phantoms
    pub deltas: Vec<(f64, f64)>,
    /// number of tuples with scalar not in {0, 1}
    pub fractional_scalars: usize,
    /// number of tuples with non-zero scalar
    pub applicable: usize,
    /// some point of an applicable tuple received an inferred delta
    pub any_inferred: bool,
    /// the location lies exactly on start, peak or end of some axis of some (non-ignored) region
    pub on_edge: bool,
    /// more than one axis contributes a factor strictly between 0 and 1 in some tuple
    pub multi_axis_product: bool,
}

/// Evaluate all tuple variations of one glyph at the normalised location `loc`.
pub fn eval_glyph(n_points: usize, coords: &[(i16, i16)], ends: &[usize], tuples: &[TupleVar], loc: &[i16]) -> GlyphEval {
    let n_total = n_points + 4;
    let mut ev = GlyphEval {
        deltas: vec![(0.0, 0.0); n_total],
        ..Default::default()
    };
    for t in tuples {
        for (i, r) in t.region.iter().enumerate() {
            let c = loc.get(i).copied().unwrap_or(0);
            if r.peak != 0 && !axis_region_invalid(*r) && (c == r.start || c == r.peak || c == r.end) {
                ev.on_edge = true;
            }
        }
        let s = region_scalar(loc, &t.region);
        if s == 0.0 {
            continue;
        }
        ev.applicable += 1;
        if s != 1.0 {
            ev.fractional_scalars += 1;
        }
        let frac_axes = t
            .region
            .iter()
            .enumerate()
            .filter(|(i, r)| {
                let a = axis_scalar(loc.get(*i).copied().unwrap_or(0), **r);
                a > 0.0 && a < 1.0
            })
            .count();
        if frac_axes > 1 {
            ev.multi_axis_product = true;
        }
        let (d, inf) = tuple_deltas(n_total, coords, ends, t);
        if inf.iter().any(|b| *b) {
            ev.any_inferred = true;
        }
        for i in 0..n_total {
            ev.deltas[i].0 += s * d[i].0;
            ev.deltas[i].1 += s * d[i].1;
        }
    }
    ev
}

/// An item variation store in model form.
#[derive(Clone, Debug, Default, PartialEq)]
pub struct IvsModel {
    pub regions: Vec<Region>,
    /// per ItemVariationData subtable: (region indexes, rows of deltas — one per region index)
    pub subtables: Vec<(Vec<u16>, Vec<Vec<i32>>)>,
}

impl IvsModel {
    /// net adjustment of delta set (outer, inner) at `loc`; None if the indices do not exist
    pub fn adjustment(&self, outer: u16, inner: u16, loc: &[i16]) -> Option<f64> {
        let (ri, rows) = self.subtables.get(outer as usize)?;
        let row = rows.get(inner as usize)?;
        let mut sum = 0.0;
        for (k, d) in row.iter().enumerate() {
            let region = self.regions.get(*ri.get(k)? as usize)?;
            sum += region_scalar(loc, region) * (*d as f64);
        }
        Some(sum)
    }
}

// ------------------------------------------------------------------ readers for the output

fn u16at(d: &[u8], at: usize) -> Result<u16, String> {
    d.get(at..at + 2)
        .map(|b| u16::from_be_bytes([b[0], b[1]]))
        .ok_or_else(|| format!("read u16 at {} beyond {} bytes", at, d.len()))
}
fn i16at(d: &[u8], at: usize) -> Result<i16, String> {
    u16at(d, at).map(|v| v as i16)
}
fn u32at(d: &[u8], at: usize) -> Result<u32, String> {
    d.get(at..at + 4)
        .map(|b| u32::from_be_bytes([b[0], b[1], b[2], b[3]]))
        .ok_or_else(|| format!("read u32 at {} beyond {} bytes", at, d.len()))
}
fn u8at(d: &[u8], at: usize) -> Result<u8, String> {
    d.get(at).copied().ok_or_else(|| format!("read u8 at {} beyond {} bytes", at, d.len()))
}

#[derive(Clone, Debug, PartialEq)]
pub struct OutComponent {
    pub flags: u16,
    pub glyph: u16,
    /// true: args are x/y offsets, false: point numbers
    pub xy: bool,
    pub arg1: i32,
    pub arg2: i32,
    /// raw 2.14 transform words in file order (0, 1, 2 or 4 of them)
    pub transform: Vec<i16>,
}

#[derive(Clone, Debug, PartialEq)]
pub enum OutShape {
    Empty,
    Simple {
        ends: Vec<u16>,
        points: Vec<(i16, i16, bool)>,
        instructions: Vec<u8>,
    },
    Composite {
        components: Vec<OutComponent>,
        instructions: Vec<u8>,
    },
}

#[derive(Clone, Debug, PartialEq)]
pub struct OutGlyph {
    /// header bounding box (xMin, yMin, xMax, yMax); zeros for an empty glyph
    pub bbox: (i16, i16, i16, i16),
    pub shape: OutShape,
}

pub fn read_glyph(rec: &[u8]) -> Result<OutGlyph, String> {
    if rec.is_empty() {
        return Ok(OutGlyph {
            bbox: (0, 0, 0, 0),
            shape: OutShape::Empty,
        });
    }
    let nc = i16at(rec, 0)?;
    let bbox = (i16at(rec, 2)?, i16at(rec, 4)?, i16at(rec, 6)?, i16at(rec, 8)?);
    let mut at = 10usize;
    if nc >= 0 {
        let mut ends = Vec::new();
        for _ in 0..nc {
            ends.push(u16at(rec, at)?);
            at += 2;
        }
        let il = u16at(rec, at)? as usize;
        at += 2;
        let instructions = rec.get(at..at + il).ok_or("instructions beyond record")?.to_vec();
        at += il;
        let n = ends.last().map(|e| *e as usize + 1).unwrap_or(0);
        let mut flags: Vec<u8> = Vec::with_capacity(n);
        while flags.len() < n {
            let f = u8at(rec, at)?;
            at += 1;
            flags.push(f);
            if f & 0x08 != 0 {
                let rep = u8at(rec, at)?;
                at += 1;
                for _ in 0..rep {
                    flags.push(f);
                }
            }
        }
        if flags.len() != n {
            return Err(format!("flag repeat overruns the point count ({} > {})", flags.len(), n));
        }
        let mut xs = Vec::with_capacity(n);
        let mut x = 0i32;
        for f in &flags {
            if f & 0x02 != 0 {
                let v = u8at(rec, at)? as i32;
                at += 1;
                x += if f & 0x10 != 0 { v } else { -v };
            } else if f & 0x10 == 0 {
                x += i16at(rec, at)? as i32;
                at += 2;
            }
            xs.push(x);
        }
        let mut pts = Vec::with_capacity(n);
        let mut y = 0i32;
        for (i, f) in flags.iter().enumerate() {
            if f & 0x04 != 0 {
                let v = u8at(rec, at)? as i32;
                at += 1;
                y += if f & 0x20 != 0 { v } else { -v };
            } else if f & 0x20 == 0 {
                y += i16at(rec, at)? as i32;
                at += 2;
            }
            if xs[i] < i16::MIN as i32 || xs[i] > i16::MAX as i32 || y < i16::MIN as i32 || y > i16::MAX as i32 {
                return Err(format!("point {} out of the 16-bit range", i));
            }
            pts.push((xs[i] as i16, y as i16, f & 1 != 0));
        }
        Ok(OutGlyph {
            bbox,
            shape: OutShape::Simple {
                ends,
                points: pts,
                instructions,
            },
        })
    } else {
        let mut comps = Vec::new();
        let mut have_instr = false;
        loop {
            let flags = u16at(rec, at)?;
            let glyph = u16at(rec, at + 2)?;
            at += 4;
            let xy = flags & 0x0002 != 0;
            let (a1, a2) = if flags & 0x0001 != 0 {
                let r = if xy {
                    (i16at(rec, at)? as i32, i16at(rec, at + 2)? as i32)
                } else {
                    (u16at(rec, at)? as i32, u16at(rec, at + 2)? as i32)
                };
                at += 4;
                r
            } else {
                let r = if xy {
                    (u8at(rec, at)? as i8 as i32, u8at(rec, at + 1)? as i8 as i32)
                } else {
                    (u8at(rec, at)? as i32, u8at(rec, at + 1)? as i32)
                };
                at += 2;
                r
            };
            let nt = if flags & 0x0008 != 0 {
                1
            } else if flags & 0x0040 != 0 {
                2
            } else if flags & 0x0080 != 0 {
                4
            } else {
                0
            };
            let mut transform = Vec::new();
            for _ in 0..nt {
                transform.push(i16at(rec, at)?);
                at += 2;
            }
            if flags & 0x0100 != 0 {
                have_instr = true;
            }
            comps.push(OutComponent {
                flags,
                glyph,
                xy,
                arg1: a1,
                arg2: a2,
                transform,
            });
            if flags & 0x0020 == 0 {
                break;
            }
        }
        let instructions = if have_instr {
            let il = u16at(rec, at)? as usize;
            rec.get(at + 2..at + 2 + il).ok_or("composite instructions beyond record")?.to_vec()
        } else {
            Vec::new()
        };
        Ok(OutGlyph {
            bbox,
            shape: OutShape::Composite {
                components: comps,
                instructions,
            },
        })
    }
}

/// What the check needs from a (source or instanced) TrueType font, read independently.
#[derive(Clone, Debug)]
pub struct ParsedFont {
    pub tags: Vec<[u8; 4]>,
    pub glyphs: Vec<OutGlyph>,
    /// (advance, lsb) per glyph
    pub metrics: Vec<(u16, i16)>,
    pub num_h_metrics: u16,
    pub advance_width_max: u16,
    pub units_per_em: u16,
}

pub fn read_font(data: &[u8]) -> Result<ParsedFont, String> {
    let (_, dir) = crate::fontgen::sfnt::parse_directory(data).ok_or("no sfnt directory")?;
    let tags: Vec<[u8; 4]> = dir.iter().map(|e| e.tag).collect();
    let need = |t: &[u8; 4]| find_table(data, t).ok_or_else(|| format!("table {} missing", String::from_utf8_lossy(t)));
    let head = need(b"head")?;
    let maxp = need(b"maxp")?;
    let hhea = need(b"hhea")?;
    let hmtx = need(b"hmtx")?;
    let loca = need(b"loca")?;
    let glyf = need(b"glyf")?;
    let long = i16at(head, 50)? != 0;
    let upem = u16at(head, 18)?;
    let n = u16at(maxp, 4)? as usize;
    let mut offs = Vec::with_capacity(n + 1);
    for i in 0..=n {
        offs.push(if long { u32at(loca, 4 * i)? as usize } else { u16at(loca, 2 * i)? as usize * 2 });
    }
    let mut glyphs = Vec::with_capacity(n);
    for g in 0..n {
        if offs[g + 1] < offs[g] || offs[g + 1] > glyf.len() {
            return Err(format!("loca entry {} out of order or beyond glyf ({}..{} of {})", g, offs[g], offs[g + 1], glyf.len()));
        }
        glyphs.push(read_glyph(&glyf[offs[g]..offs[g + 1]]).map_err(|e| format!("glyph {}: {}", g, e))?);
    }
    let nhm = u16at(hhea, 34)?;
    if nhm == 0 && n > 0 {
        return Err("numberOfHMetrics is 0".into());
    }
    let mut metrics = Vec::with_capacity(n);
    let mut last_adv = 0u16;
    for g in 0..n {
        if g < nhm as usize {
            last_adv = u16at(hmtx, 4 * g)?;
            metrics.push((last_adv, i16at(hmtx, 4 * g + 2)?));
        } else {
            metrics.push((last_adv, i16at(hmtx, 4 * nhm as usize + 2 * (g - nhm as usize))?));
        }
    }
    Ok(ParsedFont {
        tags,
        glyphs,
        metrics,
        num_h_metrics: nhm,
        advance_width_max: u16at(hhea, 10)?,
        units_per_em: upem,
    })
}

/// (advance, lsb) per glyph from maxp / hhea / hmtx alone (works for CFF-flavoured fonts too).
pub fn read_hmtx(data: &[u8]) -> Result<Vec<(u16, i16)>, String> {
    let maxp = find_table(data, b"maxp").ok_or("maxp missing")?;
    let hhea = find_table(data, b"hhea").ok_or("hhea missing")?;
    let hmtx = find_table(data, b"hmtx").ok_or("hmtx missing")?;
    let n = u16at(maxp, 4)? as usize;
    let nhm = u16at(hhea, 34)? as usize;
    if nhm == 0 && n > 0 {
        return Err("numberOfHMetrics is 0".into());
    }
    let mut v = Vec::with_capacity(n);
    let mut last = 0u16;
    for g in 0..n {
        if g < nhm {
            last = u16at(hmtx, 4 * g)?;
            v.push((last, i16at(hmtx, 4 * g + 2)?));
        } else {
            v.push((last, i16at(hmtx, 4 * nhm + 2 * (g - nhm))?));
        }
    }
    Ok(v)
}

/// Points of a glyph in font units with composites resolved one level or more deep
/// (offsets added, anchor points matched, 2.14 transforms applied as x' = a·x + c·y,
/// y' = b·x + d·y for the file order a b c d; SCALED_COMPONENT_OFFSET multiplies the offset by
/// the diagonal of the transform). None if a reference is out of range or nesting
/// exceeds 8.
pub fn composed_points(glyphs: &[OutGlyph], gid: usize, depth: usize) -> Option<Vec<(f64, f64)>> {
    composed_points_model(glyphs, gid, depth, false)
}

/// As `composed_points`; with `anchors_as_offsets` the *deviation* "point-number arguments are
/// used as if they were x/y offsets" is switched on (a defect model, not the specification).
pub fn composed_points_model(glyphs: &[OutGlyph], gid: usize, depth: usize, anchors_as_offsets: bool) -> Option<Vec<(f64, f64)>> {
    if depth > 8 {
        return None;
    }
    match &glyphs.get(gid)?.shape {
        OutShape::Empty => Some(Vec::new()),
        OutShape::Simple { points, .. } => Some(points.iter().map(|p| (p.0 as f64, p.1 as f64)).collect()),
        OutShape::Composite { components, .. } => {
            let mut acc: Vec<(f64, f64)> = Vec::new();
            for c in components {
                let child = composed_points_model(glyphs, c.glyph as usize, depth + 1, anchors_as_offsets)?;
                let f = |v: i16| v as f64 / 16384.0;
                let (a, b, cc, d) = match c.transform.len() {
                    1 => (f(c.transform[0]), 0.0, 0.0, f(c.transform[0])),
                    2 => (f(c.transform[0]), 0.0, 0.0, f(c.transform[1])),
                    4 => (f(c.transform[0]), f(c.transform[1]), f(c.transform[2]), f(c.transform[3])),
                    _ => (1.0, 0.0, 0.0, 1.0),
                };
                let tr: Vec<(f64, f64)> = child.iter().map(|p| (a * p.0 + cc * p.1, b * p.0 + d * p.1)).collect();
                let (ox, oy) = if c.xy && !c.transform.is_empty() && c.flags & 0x1800 == 0x0800 {
                    // SCALED_COMPONENT_OFFSET: the offset is in the component's (scaled) coordinate
                    // system. Callers only rely on this for positive diagonal scales, where every
                    // reading of the flag gives (xscale * dx, yscale * dy).
                    (a * c.arg1 as f64, d * c.arg2 as f64)
                } else if c.xy || anchors_as_offsets {
                    (c.arg1 as f64, c.arg2 as f64)
                } else {
                    let pp = acc.get(c.arg1 as usize)?;
                    let cp = tr.get(c.arg2 as usize)?;
                    (pp.0 - cp.0, pp.1 - cp.1)
                };
                acc.extend(tr.iter().map(|p| (p.0 + ox, p.1 + oy)));
            }
            Some(acc)
        }
    }
}

pub fn bbox_of(points: &[(f64, f64)]) -> Option<(f64, f64, f64, f64)> {
    if points.is_empty() {
        return None;
    }
    let mut b = (points[0].0, points[0].1, points[0].0, points[0].1);
    for p in points {
        b.0 = b.0.min(p.0);
        b.1 = b.1.min(p.1);
        b.2 = b.2.max(p.0);
        b.3 = b.3.max(p.1);
    }
    Some(b)
}

/// The MVAR-controlled fields of OS/2 (version ≥ 2 layout), hhea and post, by value tag.
pub fn metric_fields(data: &[u8]) -> Result<Vec<([u8; 4], i32)>, String> {
    let os2 = find_table(data, b"OS/2").ok_or("OS/2 missing")?;
    let hhea = find_table(data, b"hhea").ok_or("hhea missing")?;
    let post = find_table(data, b"post").ok_or("post missing")?;
    let mut v: Vec<([u8; 4], i32)> = Vec::new();
    let s = |t: &[u8], at: usize| i16at(t, at).map(|x| x as i32);
    let u = |t: &[u8], at: usize| u16at(t, at).map(|x| x as i32);
    v.push((*b"sbxs", s(os2, 10)?));
    v.push((*b"sbys", s(os2, 12)?));
    v.push((*b"sbxo", s(os2, 14)?));
    v.push((*b"sbyo", s(os2, 16)?));
    v.push((*b"spxs", s(os2, 18)?));
    v.push((*b"spys", s(os2, 20)?));
    v.push((*b"spxo", s(os2, 22)?));
    v.push((*b"spyo", s(os2, 24)?));
    v.push((*b"strs", s(os2, 26)?));
    v.push((*b"stro", s(os2, 28)?));
    // (a version 0 table in the 68 byte form of Apple's TrueType manual ends before these)
    if os2.len() >= 78 {
        v.push((*b"hasc", s(os2, 68)?));
        v.push((*b"hdsc", s(os2, 70)?));
        v.push((*b"hlgp", s(os2, 72)?));
        v.push((*b"hcla", u(os2, 74)?));
        v.push((*b"hcld", u(os2, 76)?));
    }
    if u16at(os2, 0)? >= 2 && os2.len() >= 96 {
        v.push((*b"xhgt", s(os2, 86)?));
        v.push((*b"cpht", s(os2, 88)?));
    }
    v.push((*b"hcrs", s(hhea, 18)?));
    v.push((*b"hcrn", s(hhea, 20)?));
    v.push((*b"hcof", s(hhea, 22)?));
    v.push((*b"undo", s(post, 8)?));
    v.push((*b"unds", s(post, 10)?));
    Ok(v)
}

// ------------------------------------------------------------------ decoders for variation tables

fn read_packed_points(d: &[u8], at: &mut usize) -> Result<Option<Vec<u16>>, String> {
    let b0 = u8at(d, *at)?;
    *at += 1;
    if b0 == 0 {
        return Ok(None);
    }
    let count = if b0 & 0x80 != 0 {
        let b1 = u8at(d, *at)?;
        *at += 1;
        (((b0 & 0x7F) as usize) << 8) | b1 as usize
    } else {
        b0 as usize
    };
    let mut pts: Vec<u16> = Vec::with_capacity(count);
    let mut cur = 0u32;
    while pts.len() < count {
        let c = u8at(d, *at)?;
        *at += 1;
        let run = (c & 0x7F) as usize + 1;
        for _ in 0..run {
            let diff = if c & 0x80 != 0 {
                let v = u16at(d, *at)? as u32;
                *at += 2;
                v
            } else {
                let v = u8at(d, *at)? as u32;
                *at += 1;
                v
            };
            cur += diff;
            if cur > 0xFFFF {
                return Err("point number beyond 65535".into());
            }
            pts.push(cur as u16);
        }
    }
    if pts.len() != count {
        return Err("point runs overrun the count".into());
    }
    Ok(Some(pts))
}

fn read_packed_deltas(d: &[u8], at: &mut usize, n: usize) -> Result<Vec<i16>, String> {
    let mut out = Vec::with_capacity(n);
    while out.len() < n {
        let c = u8at(d, *at)?;
        *at += 1;
        let run = (c & 0x3F) as usize + 1;
        for _ in 0..run {
            if c & 0x80 != 0 {
                out.push(0);
            } else if c & 0x40 != 0 {
                out.push(i16at(d, *at)?);
                *at += 2;
            } else {
                out.push(u8at(d, *at)? as i8 as i16);
                *at += 1;
            }
        }
    }
    if out.len() != n {
        return Err("delta runs overrun the count".into());
    }
    Ok(out)
}

/// Decode a gvar table into per-glyph tuple variations. `n_points[g]` is the number of real
/// points (or components) of glyph g, without phantoms.
pub fn decode_gvar(gvar: &[u8], n_points: &[usize]) -> Result<Vec<Vec<TupleVar>>, String> {
    if u16at(gvar, 0)? != 1 {
        return Err("gvar major version".into());
    }
    let axis_count = u16at(gvar, 4)? as usize;
    let shared_count = u16at(gvar, 6)? as usize;
    let shared_off = u32at(gvar, 8)? as usize;
    let glyph_count = u16at(gvar, 12)? as usize;
    let flags = u16at(gvar, 14)?;
    let array_off = u32at(gvar, 16)? as usize;
    let mut offs = Vec::new();
    for i in 0..=glyph_count {
        offs.push(if flags & 1 != 0 { u32at(gvar, 20 + 4 * i)? as usize } else { u16at(gvar, 20 + 2 * i)? as usize * 2 });
    }
    let tuple_at = |d: &[u8], at: usize| -> Result<Vec<i16>, String> { (0..axis_count).map(|k| i16at(d, at + 2 * k)).collect() };
    let mut shared = Vec::new();
    for i in 0..shared_count {
        shared.push(tuple_at(gvar, shared_off + 2 * axis_count * i)?);
    }
    let mut out = Vec::new();
    for g in 0..glyph_count.min(n_points.len()) {
        let (s, e) = (array_off + offs[g], array_off + offs[g + 1]);
        if e <= s {
            out.push(Vec::new());
            continue;
        }
        let d = gvar.get(s..e).ok_or("glyph variation data beyond table")?;
        let fc = u16at(d, 0)?;
        let count = (fc & 0x0FFF) as usize;
        let mut data_at = u16at(d, 2)? as usize;
        let n_total = n_points[g] + 4;
        let shared_points = if fc & 0x8000 != 0 { Some(read_packed_points(d, &mut data_at)?) } else { None };
        let mut h = 4usize;
        let mut tuples = Vec::new();
        for _ in 0..count {
            let size = u16at(d, h)? as usize;
            let ti = u16at(d, h + 2)?;
            h += 4;
            let peak = if ti & 0x8000 != 0 {
                let p = tuple_at(d, h)?;
                h += 2 * axis_count;
                p
            } else {
                shared.get((ti & 0x0FFF) as usize).cloned().ok_or("shared tuple index out of range")?
            };
            let region: Region = if ti & 0x4000 != 0 {
                let st = tuple_at(d, h)?;
                let en = tuple_at(d, h + 2 * axis_count)?;
                h += 4 * axis_count;
                (0..axis_count).map(|k| AxisRegion { start: st[k], peak: peak[k], end: en[k] }).collect()
            } else {
                peak.iter().map(|p| implied_axis_region(*p)).collect()
            };
            let mut at = data_at;
            let points = if ti & 0x2000 != 0 {
                read_packed_points(d, &mut at)?
            } else {
                shared_points.clone().ok_or("tuple uses shared points but none are present")?
            };
            let n = points.as_ref().map(|p| p.len()).unwrap_or(n_total);
            let xs = read_packed_deltas(d, &mut at, n)?;
            let ys = read_packed_deltas(d, &mut at, n)?;
            if at > data_at + size {
                return Err(format!("glyph {}: tuple data longer than variationDataSize", g));
            }
            data_at += size;
            tuples.push(TupleVar {
                region,
                points,
                deltas: xs.into_iter().zip(ys).collect(),
            });
        }
        out.push(tuples);
    }
    Ok(out)
}

/// Decode a cvar table (deltas are returned as (delta, 0)).
pub fn decode_cvar(cvar: &[u8], axis_count: usize, n_cvts: usize) -> Result<Vec<TupleVar>, String> {
    if u16at(cvar, 0)? != 1 {
        return Err("cvar major version".into());
    }
    let fc = u16at(cvar, 4)?;
    let count = (fc & 0x0FFF) as usize;
    let mut data_at = u16at(cvar, 6)? as usize;
    let tuple_at = |at: usize| -> Result<Vec<i16>, String> { (0..axis_count).map(|k| i16at(cvar, at + 2 * k)).collect() };
    let shared_points = if fc & 0x8000 != 0 { Some(read_packed_points(cvar, &mut data_at)?) } else { None };
    let mut h = 8usize;
    let mut out = Vec::new();
    for _ in 0..count {
        let size = u16at(cvar, h)? as usize;
        let ti = u16at(cvar, h + 2)?;
        h += 4;
        if ti & 0x8000 == 0 {
            return Err("cvar tuple without embedded peak".into());
        }
        let peak = tuple_at(h)?;
        h += 2 * axis_count;
        let region: Region = if ti & 0x4000 != 0 {
            let st = tuple_at(h)?;
            let en = tuple_at(h + 2 * axis_count)?;
            h += 4 * axis_count;
            (0..axis_count).map(|k| AxisRegion { start: st[k], peak: peak[k], end: en[k] }).collect()
        } else {
            peak.iter().map(|p| implied_axis_region(*p)).collect()
        };
        let mut at = data_at;
        let points = if ti & 0x2000 != 0 { read_packed_points(cvar, &mut at)? } else { shared_points.clone().ok_or("cvar tuple uses absent shared points")? };
        let n = points.as_ref().map(|p| p.len()).unwrap_or(n_cvts);
        let ds = read_packed_deltas(cvar, &mut at, n)?;
        if at > data_at + size {
            return Err("cvar tuple data longer than variationDataSize".into());
        }
        data_at += size;
        out.push(TupleVar { region, points, deltas: ds.into_iter().map(|d| (d, 0)).collect() });
    }
    Ok(out)
}

/// cvt values after applying cvar tuple variations at `loc` (no inference: un-referenced CVTs
/// are unchanged)
pub fn eval_cvt(cvt: &[i16], tuples: &[TupleVar], loc: &[i16]) -> Vec<f64> {
    let mut v: Vec<f64> = cvt.iter().map(|c| *c as f64).collect();
    for t in tuples {
        let s = region_scalar(loc, &t.region);
        if s == 0.0 {
            continue;
        }
        match &t.points {
            None => {
                for (i, d) in t.deltas.iter().enumerate().take(v.len()) {
                    v[i] += s * d.0 as f64;
                }
            }
            Some(ps) => {
                for (p, d) in ps.iter().zip(t.deltas.iter()) {
                    if let Some(x) = v.get_mut(*p as usize) {
                        *x += s * d.0 as f64;
                    }
                }
            }
        }
    }
    v
}

pub fn decode_ivs(d: &[u8]) -> Result<IvsModel, String> {
    if u16at(d, 0)? != 1 {
        return Err("ItemVariationStore format".into());
    }
    let rl = u32at(d, 2)? as usize;
    let n = u16at(d, 6)? as usize;
    let axis_count = u16at(d, rl)? as usize;
    let region_count = u16at(d, rl + 2)? as usize;
    let mut regions = Vec::new();
    for r in 0..region_count {
        let mut reg = Vec::new();
        for a in 0..axis_count {
            let at = rl + 4 + 6 * (r * axis_count + a);
            reg.push(AxisRegion { start: i16at(d, at)?, peak: i16at(d, at + 2)?, end: i16at(d, at + 4)? });
        }
        regions.push(reg);
    }
    let mut subtables = Vec::new();
    for i in 0..n {
        let off = u32at(d, 8 + 4 * i)? as usize;
        let item_count = u16at(d, off)? as usize;
        let wdc = u16at(d, off + 2)?;
        let ric = u16at(d, off + 4)? as usize;
        let long = wdc & 0x8000 != 0;
        let words = (wdc & 0x7FFF) as usize;
        let mut ri = Vec::new();
        for k in 0..ric {
            ri.push(u16at(d, off + 6 + 2 * k)?);
        }
        let mut at = off + 6 + 2 * ric;
        let mut rows = Vec::new();
        for _ in 0..item_count {
            let mut row = Vec::new();
            for k in 0..ric {
                let wide = k < words;
                let v = match (long, wide) {
                    (false, true) => {
                        let v = i16at(d, at)? as i32;
                        at += 2;
                        v
                    }
                    (false, false) => {
                        let v = u8at(d, at)? as i8 as i32;
                        at += 1;
                        v
                    }
                    (true, true) => {
                        let v = u32at(d, at)? as i32;
                        at += 4;
                        v
                    }
                    (true, false) => {
                        let v = i16at(d, at)? as i32;
                        at += 2;
                        v
                    }
                };
                row.push(v);
            }
            rows.push(row);
        }
        subtables.push((ri, rows));
    }
    Ok(IvsModel { regions, subtables })
}

/// DeltaSetIndexMap → list of (outer, inner)
pub fn decode_index_map(d: &[u8]) -> Result<Vec<(u16, u16)>, String> {
    let format = u8at(d, 0)?;
    let ef = u8at(d, 1)?;
    let (count, mut at) = match format {
        0 => (u16at(d, 2)? as usize, 4usize),
        1 => (u32at(d, 2)? as usize, 6usize),
        _ => return Err("DeltaSetIndexMap format".into()),
    };
    let size = ((ef >> 4) & 3) as usize + 1;
    let bits = (ef & 0x0F) as u32 + 1;
    let mut out = Vec::new();
    for _ in 0..count {
        let mut v = 0u32;
        for k in 0..size {
            v = (v << 8) | u8at(d, at + k)? as u32;
        }
        at += size;
        out.push(((v >> bits) as u16, (v & ((1u32 << bits) - 1)) as u16));
    }
    Ok(out)
}

#[derive(Clone, Debug)]
pub struct HvarModel {
    pub ivs: IvsModel,
    pub adv_map: Option<Vec<(u16, u16)>>,
    pub lsb_map: Option<Vec<(u16, u16)>>,
}

impl HvarModel {
    fn entry(map: &Option<Vec<(u16, u16)>>, gid: u16) -> Option<(u16, u16)> {
        match map {
            None => Some((0, gid)),
            Some(m) if m.is_empty() => None,
            Some(m) => Some(m[(gid as usize).min(m.len() - 1)]),
        }
    }
    pub fn advance_delta(&self, gid: u16, loc: &[i16]) -> Option<f64> {
        let (o, i) = Self::entry(&self.adv_map, gid)?;
        self.ivs.adjustment(o, i, loc)
    }
    pub fn lsb_delta(&self, gid: u16, loc: &[i16]) -> Option<f64> {
        self.lsb_map.as_ref()?;
        let (o, i) = Self::entry(&self.lsb_map, gid)?;
        self.ivs.adjustment(o, i, loc)
    }
}

pub fn decode_hvar(d: &[u8]) -> Result<HvarModel, String> {
    if u16at(d, 0)? != 1 {
        return Err("HVAR version".into());
    }
    let ivs = decode_ivs(d.get(u32at(d, 4)? as usize..).ok_or("HVAR store offset")?)?;
    let map = |off: u32| -> Result<Option<Vec<(u16, u16)>>, String> {
        if off == 0 {
            Ok(None)
        } else {
            decode_index_map(d.get(off as usize..).ok_or("HVAR map offset")?).map(Some)
        }
    };
    Ok(HvarModel {
        ivs,
        adv_map: map(u32at(d, 8)?)?,
        lsb_map: map(u32at(d, 12)?)?,
    })
}

/// MVAR → (value tag, outer, inner) records and the store
pub fn decode_mvar(d: &[u8]) -> Result<(Vec<([u8; 4], u16, u16)>, Option<IvsModel>), String> {
    if u16at(d, 0)? != 1 {
        return Err("MVAR version".into());
    }
    let size = u16at(d, 6)? as usize;
    let count = u16at(d, 8)? as usize;
    let off = u16at(d, 10)? as usize;
    let mut recs = Vec::new();
    for i in 0..count {
        let at = 12 + i * size;
        let tag: [u8; 4] = d.get(at..at + 4).ok_or("MVAR record")?.try_into().unwrap();
        recs.push((tag, u16at(d, at + 4)?, u16at(d, at + 6)?));
    }
    let ivs = if off != 0 { Some(decode_ivs(d.get(off..).ok_or("MVAR store offset")?)?) } else { None };
    Ok((recs, ivs))
}
