//! Independent CFF / CFF2 table reader and Type 2 charstring INTERPRETER, written from Adobe
//! Technical Notes #5176 / #5177 and the OpenType CFF2 chapters. Nothing here calls allsorts.
//!
//! Used (a) to cross-check allsorts glyph by glyph on real fixture fonts and (b) as a
//! self-check of the generated fonts (model -> my encoder -> bytes -> *this* interpreter must
//! give the model path back before allsorts is blamed for anything).
//!
//! API: [`T2Font::parse_cff`] / [`T2Font::parse_cff2`] read a table; [`T2Font::outline`]
//! interprets one glyph and returns the drawing commands ([`Cmd`]): a `Move` per subpath,
//! `Line`/`Curve` at the accumulated coordinates and one `Close` per subpath (emitted when the
//! next moveto starts, at `endchar`, or at the end of a CFF2 charstring). Arithmetic is f64.
//! [`region_scalar`] / [`VarStore::scalars`] implement the OpenType variation-region scalar.

use crate::fontgen::type2::Cmd;

#[derive(Clone, Debug, Default)]
pub struct VarStore {
    pub axis_count: usize,
    /// per region, per axis: (start, peak, end) as normalised f64
    pub regions: Vec<Vec<(f64, f64, f64)>>,
    /// per ItemVariationData: region indexes
    pub data: Vec<Vec<usize>>,
}

/// Scalar of one region at normalised coordinates `coords` (OpenType "Algorithm for
/// interpolation of instance values"): product over axes of the per-axis tent function.
pub fn region_scalar(region: &[(f64, f64, f64)], coords: &[f64]) -> f64 {
    let mut s = 1.0;
    for (i, (start, peak, end)) in region.iter().enumerate() {
        let v = coords.get(i).copied().unwrap_or(0.0);
        let a = if *peak == 0.0 || start > peak || peak > end || (*start < 0.0 && *end > 0.0) {
            1.0
        } else if v == *peak {
            1.0
        } else if v <= *start || v >= *end {
            0.0
        } else if v < *peak {
            (v - start) / (peak - start)
        } else {
            (end - v) / (end - peak)
        };
        s *= a;
    }
    s
}

impl VarStore {
    pub fn scalars(&self, vsindex: usize, coords: &[f64]) -> Result<Vec<f64>, String> {
        let d = self.data.get(vsindex).ok_or_else(|| format!("vsindex {} out of range", vsindex))?;
        d.iter()
            .map(|r| self.regions.get(*r).map(|reg| region_scalar(reg, coords)).ok_or_else(|| format!("region {} out of range", r)))
            .collect()
    }

    /// parse an ItemVariationStore (format 1)
    pub fn parse(d: &[u8]) -> Result<VarStore, String> {
        let u16a = |p: usize| -> Result<usize, String> {
            d.get(p..p + 2).map(|b| u16::from_be_bytes([b[0], b[1]]) as usize).ok_or_else(|| "ivs: short".to_string())
        };
        let u32a = |p: usize| -> Result<usize, String> {
            d.get(p..p + 4).map(|b| u32::from_be_bytes([b[0], b[1], b[2], b[3]]) as usize).ok_or_else(|| "ivs: short".to_string())
        };
        if u16a(0)? != 1 {
            return Err("ivs: format".into());
        }
        let rl = u32a(2)?;
        let ndata = u16a(6)?;
        let axis_count = u16a(rl)?;
        let nreg = u16a(rl + 2)?;
        let mut regions = Vec::new();
        let mut p = rl + 4;
        for _ in 0..nreg {
            let mut r = Vec::new();
            for _ in 0..axis_count {
                let f = |q: usize| -> Result<f64, String> { Ok((u16a(q)? as u16 as i16) as f64 / 16384.0) };
                r.push((f(p)?, f(p + 2)?, f(p + 4)?));
                p += 6;
            }
            regions.push(r);
        }
        let mut data = Vec::new();
        for i in 0..ndata {
            let o = u32a(8 + 4 * i)?;
            let n = u16a(o + 4)?;
            let mut v = Vec::new();
            for k in 0..n {
                v.push(u16a(o + 6 + 2 * k)?);
            }
            data.push(v);
        }
        Ok(VarStore { axis_count, regions, data })
    }
}

#[derive(Clone, Debug, Default)]
pub struct FdInfo<'a> {
    pub lsubrs: Vec<&'a [u8]>,
    pub vsindex: usize,
}

#[derive(Clone, Debug, Default)]
pub struct T2Font<'a> {
    pub cff2: bool,
    pub cid: bool,
    pub charstrings: Vec<&'a [u8]>,
    pub gsubrs: Vec<&'a [u8]>,
    pub fds: Vec<FdInfo<'a>>,
    /// font dict index per glyph (empty: all 0)
    pub fd_select: Vec<u8>,
    pub vstore: Option<VarStore>,
    /// SID (or CID) per glyph id; empty for predefined charsets other than ISOAdobe
    pub charset: Vec<u16>,
}

/// Deliberate deviations from the specification, used as *defect models* to attribute a
/// failure of allsorts to a specific known finding.
#[derive(Clone, Copy, Debug, Default)]
pub struct Deviations {
    /// CFF2: local subroutines (and the default vsindex) always come from font dict 0
    pub cff2_fd0: bool,
}

type R<T> = Result<T, String>;

fn be(d: &[u8], p: usize, n: usize) -> R<usize> {
    let b = d.get(p..p + n).ok_or_else(|| format!("read of {} bytes at {} beyond {}", n, p, d.len()))?;
    Ok(b.iter().fold(0usize, |a, x| a << 8 | *x as usize))
}

/// Read an INDEX at `p`; returns the objects and the position after it.
pub fn read_index(d: &[u8], p: usize, count32: bool) -> R<(Vec<&[u8]>, usize)> {
    let (count, mut q) = if count32 { (be(d, p, 4)?, p + 4) } else { (be(d, p, 2)?, p + 2) };
    if count == 0 {
        return Ok((Vec::new(), q));
    }
    let os = be(d, q, 1)?;
    q += 1;
    if !(1..=4).contains(&os) {
        return Err(format!("INDEX offSize {}", os));
    }
    let base = q + (count + 1) * os - 1;
    let mut items = Vec::with_capacity(count);
    let mut prev = be(d, q, os)?;
    for i in 1..=count {
        let o = be(d, q + i * os, os)?;
        if o < prev {
            return Err("INDEX offsets decrease".into());
        }
        items.push(d.get(base + prev..base + o).ok_or_else(|| "INDEX object beyond data".to_string())?);
        prev = o;
    }
    Ok((items, base + prev))
}

/// DICT data -> (operator, operands). Two-byte operators are 0x0c00 | b1. A CFF2 DICT `blend`
/// simply drops its operands (only unblended entries are looked at here).
pub fn parse_dict(d: &[u8]) -> R<Vec<(u16, Vec<f64>)>> {
    let mut out = Vec::new();
    let mut st: Vec<f64> = Vec::new();
    let mut p = 0;
    while p < d.len() {
        let b0 = d[p];
        p += 1;
        match b0 {
            12 => {
                let b1 = *d.get(p).ok_or("dict: short")?;
                p += 1;
                out.push((0x0c00 | b1 as u16, std::mem::take(&mut st)));
            }
            23 => st.clear(),
            0..=24 => out.push((b0 as u16, std::mem::take(&mut st))),
            28 => {
                st.push(be(d, p, 2)? as u16 as i16 as f64);
                p += 2;
            }
            29 => {
                st.push(be(d, p, 4)? as u32 as i32 as f64);
                p += 4;
            }
            30 => {
                let mut s = String::new();
                'outer: loop {
                    let b = *d.get(p).ok_or("dict: short real")?;
                    p += 1;
                    for n in [b >> 4, b & 15] {
                        match n {
                            0..=9 => s.push((b'0' + n) as char),
                            0xa => s.push('.'),
                            0xb => s.push('E'),
                            0xc => s.push_str("E-"),
                            0xe => s.push('-'),
                            0xf => break 'outer,
                            _ => return Err("dict: bad nibble".into()),
                        }
                    }
                }
                st.push(s.parse::<f64>().map_err(|_| format!("dict: real {:?}", s))?);
            }
            32..=246 => st.push(b0 as f64 - 139.0),
            247..=250 => {
                st.push((b0 as f64 - 247.0) * 256.0 + be(d, p, 1)? as f64 + 108.0);
                p += 1;
            }
            251..=254 => {
                st.push(-(b0 as f64 - 251.0) * 256.0 - be(d, p, 1)? as f64 - 108.0);
                p += 1;
            }
            _ => return Err(format!("dict: reserved byte {}", b0)),
        }
    }
    Ok(out)
}

fn dict_get<'d>(d: &'d [(u16, Vec<f64>)], op: u16) -> Option<&'d Vec<f64>> {
    d.iter().find(|e| e.0 == op).map(|e| &e.1)
}

fn read_private<'a>(table: &'a [u8], size: usize, off: usize, cff2: bool) -> R<FdInfo<'a>> {
    let pd = table.get(off..off + size).ok_or("private dict beyond table")?;
    let dict = parse_dict(pd)?;
    let mut fd = FdInfo::default();
    if let Some(v) = dict_get(&dict, 19) {
        let so = *v.first().ok_or("Subrs without operand")? as usize;
        fd.lsubrs = read_index(table, off + so, cff2)?.0;
    }
    if let Some(v) = dict_get(&dict, 22) {
        fd.vsindex = *v.first().ok_or("vsindex without operand")? as usize;
    }
    Ok(fd)
}

fn read_fd_select(table: &[u8], p: usize, nglyphs: usize) -> R<Vec<u8>> {
    let fmt = be(table, p, 1)?;
    let mut out = vec![0u8; nglyphs];
    match fmt {
        0 => {
            for g in 0..nglyphs {
                out[g] = be(table, p + 1 + g, 1)? as u8;
            }
        }
        3 | 4 => {
            let (w, fw) = if fmt == 3 { (2, 1) } else { (4, 2) };
            let n = be(table, p + 1, w)?;
            let mut q = p + 1 + w;
            for _ in 0..n {
                let first = be(table, q, w)?;
                let fd = be(table, q + w, fw)?;
                let next = be(table, q + w + fw, w)?;
                for g in first..next.min(nglyphs) {
                    out[g] = fd as u8;
                }
                q += w + fw;
            }
        }
        _ => return Err(format!("FDSelect format {}", fmt)),
    }
    Ok(out)
}

impl<'a> T2Font<'a> {
    /// Parse a `CFF ` table (first font of the FontSet).
    pub fn parse_cff(t: &'a [u8]) -> R<T2Font<'a>> {
        if be(t, 0, 1)? != 1 {
            return Err("CFF major version".into());
        }
        let hdr = be(t, 2, 1)?;
        let (_names, p) = read_index(t, hdr, false)?;
        let (tops, p) = read_index(t, p, false)?;
        let (_strings, p) = read_index(t, p, false)?;
        let (gsubrs, _) = read_index(t, p, false)?;
        let top = parse_dict(tops.first().ok_or("no Top DICT")?)?;
        let cs_off = *dict_get(&top, 17).and_then(|v| v.first()).ok_or("no CharStrings")? as usize;
        let (charstrings, _) = read_index(t, cs_off, false)?;
        let n = charstrings.len();
        let mut f = T2Font { cff2: false, charstrings, gsubrs, ..Default::default() };
        if let Some(fda) = dict_get(&top, 0x0c24) {
            f.cid = true;
            let (fdicts, _) = read_index(t, *fda.first().ok_or("FDArray operand")? as usize, false)?;
            for fd in fdicts {
                let d = parse_dict(fd)?;
                let pr = dict_get(&d, 18).ok_or("Font DICT without Private")?;
                if pr.len() != 2 {
                    return Err("Private operands".into());
                }
                f.fds.push(read_private(t, pr[0] as usize, pr[1] as usize, false)?);
            }
            let fs = *dict_get(&top, 0x0c25).and_then(|v| v.first()).ok_or("no FDSelect")? as usize;
            f.fd_select = read_fd_select(t, fs, n)?;
        } else {
            let pr = dict_get(&top, 18).ok_or("no Private")?;
            if pr.len() != 2 {
                return Err("Private operands".into());
            }
            f.fds.push(read_private(t, pr[0] as usize, pr[1] as usize, false)?);
        }
        // charset (needed for seac only)
        let cso = dict_get(&top, 15).and_then(|v| v.first()).copied().unwrap_or(0.0) as usize;
        match cso {
            0 => f.charset = (0..n.min(229) as u16).collect(),
            1 | 2 => {}
            _ => {
                let mut ids = vec![0u16];
                let fmt = be(t, cso, 1)?;
                let mut p = cso + 1;
                while ids.len() < n {
                    match fmt {
                        0 => {
                            ids.push(be(t, p, 2)? as u16);
                            p += 2;
                        }
                        1 | 2 => {
                            let first = be(t, p, 2)?;
                            let left = be(t, p + 2, fmt)?;
                            p += 2 + fmt;
                            for k in 0..=left {
                                if ids.len() < n {
                                    ids.push((first + k) as u16);
                                }
                            }
                        }
                        _ => return Err("charset format".into()),
                    }
                }
                f.charset = ids;
            }
        }
        Ok(f)
    }

    /// Parse a `CFF2` table.
    pub fn parse_cff2(t: &'a [u8]) -> R<T2Font<'a>> {
        if be(t, 0, 1)? != 2 {
            return Err("CFF2 major version".into());
        }
        let hdr = be(t, 2, 1)?;
        let top_len = be(t, 3, 2)?;
        let top = parse_dict(t.get(hdr..hdr + top_len).ok_or("Top DICT beyond table")?)?;
        let (gsubrs, _) = read_index(t, hdr + top_len, true)?;
        let cs_off = *dict_get(&top, 17).and_then(|v| v.first()).ok_or("no CharStrings")? as usize;
        let (charstrings, _) = read_index(t, cs_off, true)?;
        let n = charstrings.len();
        let mut f = T2Font { cff2: true, charstrings, gsubrs, ..Default::default() };
        let fda = *dict_get(&top, 0x0c24).and_then(|v| v.first()).ok_or("no FDArray")? as usize;
        let (fdicts, _) = read_index(t, fda, true)?;
        for fd in fdicts {
            let d = parse_dict(fd)?;
            let pr = dict_get(&d, 18).ok_or("Font DICT without Private")?;
            if pr.len() != 2 {
                return Err("Private operands".into());
            }
            f.fds.push(read_private(t, pr[0] as usize, pr[1] as usize, true)?);
        }
        if let Some(fs) = dict_get(&top, 0x0c25).and_then(|v| v.first()) {
            f.fd_select = read_fd_select(t, *fs as usize, n)?;
        }
        if let Some(vs) = dict_get(&top, 24).and_then(|v| v.first()) {
            let o = *vs as usize;
            let len = be(t, o, 2)?;
            f.vstore = Some(VarStore::parse(t.get(o + 2..o + 2 + len).ok_or("vstore beyond table")?)?);
        }
        Ok(f)
    }

    pub fn fd_of(&self, gid: usize) -> usize {
        self.fd_select.get(gid).copied().unwrap_or(0) as usize
    }

    /// Interpret glyph `gid`. `coords`: normalised variation coordinates (CFF2 `blend`
    /// needs them; without them a blend is an error).
    pub fn outline(&self, gid: usize, coords: Option<&[f64]>, dev: &Deviations) -> R<Vec<Cmd>> {
        let cs = *self.charstrings.get(gid).ok_or("glyph id out of range")?;
        let fd = if self.cff2 && dev.cff2_fd0 { 0 } else { self.fd_of(gid) };
        let fdi = self.fds.get(fd).ok_or("font dict index out of range")?;
        let mut it = Interp {
            font: self,
            lsubrs: &fdi.lsubrs,
            coords,
            st: Vec::new(),
            x: 0.0,
            y: 0.0,
            open: false,
            nstems: 0,
            width_done: self.cff2,
            cmds: Vec::new(),
            vsindex: fdi.vsindex,
            vsindex_set: false,
            blended: false,
            scalars: None,
            done: false,
            steps: 0,
        };
        it.run(cs, 0)?;
        if !self.cff2 && !it.done {
            return Err("charstring ends without endchar".into());
        }
        if it.open {
            it.cmds.push(Cmd::Close);
        }
        Ok(it.cmds)
    }
}

/// StandardEncoding code -> SID (TN #5176 Appendix B); 0 = .notdef
pub fn standard_encoding_sid(code: u8) -> u16 {
    let c = code as u16;
    match c {
        32..=126 => c - 31,
        161..=175 => c - 161 + 96,
        177..=180 => c - 177 + 111,
        182..=189 => c - 182 + 115,
        191 => 123,
        193..=200 => c - 193 + 124,
        202..=203 => c - 202 + 132,
        205..=208 => c - 205 + 134,
        225 => 138,
        227 => 139,
        232..=235 => c - 232 + 140,
        241 => 144,
        245 => 145,
        248..=251 => c - 248 + 146,
        _ => 0,
    }
}

struct Interp<'f, 'a> {
    font: &'f T2Font<'a>,
    lsubrs: &'f [&'a [u8]],
    coords: Option<&'f [f64]>,
    st: Vec<f64>,
    x: f64,
    y: f64,
    open: bool,
    nstems: usize,
    width_done: bool,
    cmds: Vec<Cmd>,
    vsindex: usize,
    vsindex_set: bool,
    blended: bool,
    scalars: Option<Vec<f64>>,
    done: bool,
    steps: u64,
}

fn bias(n: usize) -> i64 {
    if n < 1240 {
        107
    } else if n < 33900 {
        1131
    } else {
        32768
    }
}

impl<'f, 'a> Interp<'f, 'a> {
    fn limit(&self) -> usize {
        if self.font.cff2 {
            513
        } else {
            48
        }
    }

    fn push(&mut self, v: f64) -> R<()> {
        if self.st.len() >= self.limit() {
            return Err("argument stack overflow".into());
        }
        self.st.push(v);
        Ok(())
    }

    /// remove the optional width (first stack-clearing operator of a CFF charstring)
    fn take_width(&mut self, has_width: bool) {
        if !self.width_done {
            self.width_done = true;
            if has_width && !self.st.is_empty() {
                self.st.remove(0);
            }
        }
    }

    fn moveto(&mut self, dx: f64, dy: f64) {
        if self.open {
            self.cmds.push(Cmd::Close);
        }
        self.x += dx;
        self.y += dy;
        self.cmds.push(Cmd::Move(self.x, self.y));
        self.open = true;
    }

    fn line(&mut self, dx: f64, dy: f64) -> R<()> {
        if !self.open {
            return Err("path operator before moveto".into());
        }
        self.x += dx;
        self.y += dy;
        self.cmds.push(Cmd::Line(self.x, self.y));
        Ok(())
    }

    fn curve(&mut self, a: f64, b: f64, c: f64, d: f64, e: f64, f: f64) -> R<()> {
        if !self.open {
            return Err("path operator before moveto".into());
        }
        let (x1, y1) = (self.x + a, self.y + b);
        let (x2, y2) = (x1 + c, y1 + d);
        self.x = x2 + e;
        self.y = y2 + f;
        self.cmds.push(Cmd::Curve(x1, y1, x2, y2, self.x, self.y));
        Ok(())
    }

    fn call(&mut self, subrs: &[&'a [u8]], depth: u32) -> R<()> {
        let n = self.st.pop().ok_or("call without subroutine number")?;
        if n.fract() != 0.0 {
            return Err("fractional subroutine number".into());
        }
        let idx = n as i64 + bias(subrs.len());
        if idx < 0 || idx as usize >= subrs.len() {
            return Err(format!("subroutine {} out of range ({} subrs)", idx, subrs.len()));
        }
        if depth >= 10 {
            return Err("subroutine nesting deeper than 10".into());
        }
        let body = subrs[idx as usize];
        self.run(body, depth + 1)
    }

    fn run(&mut self, cs: &'a [u8], depth: u32) -> R<()> {
        let mut p = 0usize;
        while p < cs.len() {
            if self.done {
                return Ok(());
            }
            self.steps += 1;
            if self.steps > 5_000_000 {
                return Err("too many steps".into());
            }
            let b0 = cs[p];
            p += 1;
            match b0 {
                1 | 3 | 18 | 23 => {
                    let w = self.st.len() % 2 == 1;
                    self.take_width(w);
                    if self.st.len() % 2 != 0 {
                        return Err("stem operator with odd argument count".into());
                    }
                    self.nstems += self.st.len() / 2;
                    self.st.clear();
                }
                19 | 20 => {
                    let w = self.st.len() % 2 == 1;
                    self.take_width(w);
                    if self.st.len() % 2 != 0 {
                        return Err("mask operator with odd argument count".into());
                    }
                    self.nstems += self.st.len() / 2;
                    self.st.clear();
                    let nb = (self.nstems + 7) / 8;
                    if p + nb > cs.len() {
                        return Err("mask bytes beyond charstring".into());
                    }
                    p += nb;
                }
                21 => {
                    let w = self.st.len() > 2;
                    self.take_width(w);
                    if self.st.len() != 2 {
                        return Err(format!("rmoveto with {} arguments", self.st.len()));
                    }
                    let (a, b) = (self.st[0], self.st[1]);
                    self.moveto(a, b);
                    self.st.clear();
                }
                22 | 4 => {
                    let w = self.st.len() > 1;
                    self.take_width(w);
                    if self.st.len() != 1 {
                        return Err(format!("h/vmoveto with {} arguments", self.st.len()));
                    }
                    let a = self.st[0];
                    if b0 == 22 {
                        self.moveto(a, 0.0)
                    } else {
                        self.moveto(0.0, a)
                    }
                    self.st.clear();
                }
                5 => {
                    if self.st.is_empty() || self.st.len() % 2 != 0 {
                        return Err("rlineto argument count".into());
                    }
                    let a = std::mem::take(&mut self.st);
                    for c in a.chunks(2) {
                        self.line(c[0], c[1])?;
                    }
                }
                6 | 7 => {
                    if self.st.is_empty() {
                        return Err("h/vlineto without arguments".into());
                    }
                    let a = std::mem::take(&mut self.st);
                    let mut h = b0 == 6;
                    for v in a {
                        if h {
                            self.line(v, 0.0)?
                        } else {
                            self.line(0.0, v)?
                        }
                        h = !h;
                    }
                }
                8 => {
                    if self.st.is_empty() || self.st.len() % 6 != 0 {
                        return Err("rrcurveto argument count".into());
                    }
                    let a = std::mem::take(&mut self.st);
                    for c in a.chunks(6) {
                        self.curve(c[0], c[1], c[2], c[3], c[4], c[5])?;
                    }
                }
                24 => {
                    if self.st.len() < 8 || (self.st.len() - 2) % 6 != 0 {
                        return Err("rcurveline argument count".into());
                    }
                    let a = std::mem::take(&mut self.st);
                    let n = a.len() - 2;
                    for c in a[..n].chunks(6) {
                        self.curve(c[0], c[1], c[2], c[3], c[4], c[5])?;
                    }
                    self.line(a[n], a[n + 1])?;
                }
                25 => {
                    if self.st.len() < 8 || (self.st.len() - 6) % 2 != 0 {
                        return Err("rlinecurve argument count".into());
                    }
                    let a = std::mem::take(&mut self.st);
                    let n = a.len() - 6;
                    for c in a[..n].chunks(2) {
                        self.line(c[0], c[1])?;
                    }
                    let c = &a[n..];
                    self.curve(c[0], c[1], c[2], c[3], c[4], c[5])?;
                }
                26 | 27 => {
                    // vvcurveto: dx1? {dya dxb dyb dyc}+ ; hhcurveto: dy1? {dxa dxb dyb dxc}+
                    let a = std::mem::take(&mut self.st);
                    let mut i = 0;
                    let mut lead = 0.0;
                    if a.len() % 4 == 1 {
                        lead = a[0];
                        i = 1;
                    }
                    if a.len() < 4 || (a.len() - i) % 4 != 0 {
                        return Err("hh/vvcurveto argument count".into());
                    }
                    while i < a.len() {
                        if b0 == 27 {
                            self.curve(a[i], lead, a[i + 1], a[i + 2], a[i + 3], 0.0)?;
                        } else {
                            self.curve(lead, a[i], a[i + 1], a[i + 2], 0.0, a[i + 3])?;
                        }
                        lead = 0.0;
                        i += 4;
                    }
                }
                30 | 31 => {
                    let a = std::mem::take(&mut self.st);
                    let n = a.len();
                    if n < 4 || !(n % 4 == 0 || n % 4 == 1) {
                        return Err("hv/vhcurveto argument count".into());
                    }
                    let ncurves = n / 4;
                    let mut hv = b0 == 31;
                    for k in 0..ncurves {
                        let c = &a[4 * k..];
                        let tail = if k + 1 == ncurves && n % 4 == 1 { a[n - 1] } else { 0.0 };
                        if hv {
                            self.curve(c[0], 0.0, c[1], c[2], tail, c[3])?;
                        } else {
                            self.curve(0.0, c[0], c[1], c[2], c[3], tail)?;
                        }
                        hv = !hv;
                    }
                }
                10 => {
                    let l = self.lsubrs;
                    self.call(l, depth)?;
                }
                29 => {
                    let font: &'f T2Font<'a> = self.font;
                    self.call(&font.gsubrs, depth)?;
                }
                11 => {
                    if self.font.cff2 {
                        return Err("return in CFF2".into());
                    }
                    return Ok(());
                }
                14 => {
                    if self.font.cff2 {
                        return Err("endchar in CFF2".into());
                    }
                    let n = self.st.len();
                    let w = n == 1 || n == 5;
                    self.take_width(w);
                    if self.st.len() == 4 {
                        let (adx, ady, bch, ach) = (self.st[0], self.st[1], self.st[2], self.st[3]);
                        self.st.clear();
                        self.seac(adx, ady, bch, ach, depth)?;
                    } else if !self.st.is_empty() {
                        return Err(format!("endchar with {} arguments", self.st.len()));
                    }
                    if self.open {
                        self.cmds.push(Cmd::Close);
                        self.open = false;
                    }
                    self.done = true;
                    return Ok(());
                }
                15 => {
                    if !self.font.cff2 {
                        return Err("vsindex in CFF".into());
                    }
                    if self.vsindex_set || self.blended {
                        return Err("vsindex after blend or repeated".into());
                    }
                    let v = self.st.pop().ok_or("vsindex without operand")?;
                    self.vsindex = v as usize;
                    self.vsindex_set = true;
                }
                16 => {
                    if !self.font.cff2 {
                        return Err("blend in CFF".into());
                    }
                    self.blended = true;
                    if self.scalars.is_none() {
                        let vs = self.font.vstore.as_ref().ok_or("blend without VariationStore")?;
                        let co = self.coords.ok_or("blend without variation coordinates")?;
                        self.scalars = Some(vs.scalars(self.vsindex, co)?);
                    }
                    let sc = self.scalars.clone().unwrap();
                    let k = sc.len();
                    let n = self.st.pop().ok_or("blend without n")? as usize;
                    let need = n * (k + 1);
                    if self.st.len() < need {
                        return Err("blend: not enough operands".into());
                    }
                    let base = self.st.len() - need;
                    for i in 0..n {
                        let mut v = self.st[base + i];
                        for r in 0..k {
                            v += sc[r] * self.st[base + n + i * k + r];
                        }
                        self.st[base + i] = v;
                    }
                    self.st.truncate(base + n);
                }
                12 => {
                    let b1 = *cs.get(p).ok_or("escape at end")?;
                    p += 1;
                    let a = std::mem::take(&mut self.st);
                    match b1 {
                        35 => {
                            if a.len() != 13 {
                                return Err("flex argument count".into());
                            }
                            self.curve(a[0], a[1], a[2], a[3], a[4], a[5])?;
                            self.curve(a[6], a[7], a[8], a[9], a[10], a[11])?;
                        }
                        34 => {
                            if a.len() != 7 {
                                return Err("hflex argument count".into());
                            }
                            self.curve(a[0], 0.0, a[1], a[2], a[3], 0.0)?;
                            self.curve(a[4], 0.0, a[5], -a[2], a[6], 0.0)?;
                        }
                        36 => {
                            if a.len() != 9 {
                                return Err("hflex1 argument count".into());
                            }
                            self.curve(a[0], a[1], a[2], a[3], a[4], 0.0)?;
                            self.curve(a[5], 0.0, a[6], a[7], a[8], -(a[1] + a[3] + a[7]))?;
                        }
                        37 => {
                            if a.len() != 11 {
                                return Err("flex1 argument count".into());
                            }
                            let dx = a[0] + a[2] + a[4] + a[6] + a[8];
                            let dy = a[1] + a[3] + a[5] + a[7] + a[9];
                            self.curve(a[0], a[1], a[2], a[3], a[4], a[5])?;
                            if dx.abs() > dy.abs() {
                                self.curve(a[6], a[7], a[8], a[9], a[10], -dy)?;
                            } else {
                                self.curve(a[6], a[7], a[8], a[9], -dx, a[10])?;
                            }
                        }
                        _ => return Err(format!("unsupported escape operator {}", b1)),
                    }
                }
                28 => {
                    let v = be(cs, p, 2)? as u16 as i16;
                    p += 2;
                    self.push(v as f64)?;
                }
                32..=246 => self.push(b0 as f64 - 139.0)?,
                247..=250 => {
                    let b1 = be(cs, p, 1)? as f64;
                    p += 1;
                    self.push((b0 as f64 - 247.0) * 256.0 + b1 + 108.0)?;
                }
                251..=254 => {
                    let b1 = be(cs, p, 1)? as f64;
                    p += 1;
                    self.push(-(b0 as f64 - 251.0) * 256.0 - b1 - 108.0)?;
                }
                255 => {
                    let v = be(cs, p, 4)? as u32 as i32;
                    p += 4;
                    self.push(v as f64 / 65536.0)?;
                }
                _ => return Err(format!("reserved operator {}", b0)),
            }
        }
        Ok(())
    }

    fn seac(&mut self, adx: f64, ady: f64, bch: f64, ach: f64, depth: u32) -> R<()> {
        let font: &'f T2Font<'a> = self.font;
        let gid_of = |code: f64| -> R<usize> {
            if code.fract() != 0.0 || !(0.0..=255.0).contains(&code) {
                return Err("seac code".into());
            }
            let sid = standard_encoding_sid(code as u8);
            font.charset.iter().position(|s| *s == sid).ok_or_else(|| format!("seac: SID {} not in charset", sid))
        };
        let (b, a) = (gid_of(bch)?, gid_of(ach)?);
        for (gid, ox, oy) in [(b, 0.0, 0.0), (a, adx, ady)] {
            let cs = *font.charstrings.get(gid).ok_or("seac glyph out of range")?;
            if self.open {
                self.cmds.push(Cmd::Close);
                self.open = false;
            }
            self.x = ox;
            self.y = oy;
            // each component is a complete charstring with its own optional width
            self.width_done = false;
            self.nstems = 0;
            self.done = false;
            self.run(cs, depth + 1)?;
            self.done = false;
        }
        Ok(())
    }
}

