//! Independent readers for the tables the C12 extension sections look at in a (source or
//! instanced) font: vhea / vmtx, the MVAR-addressable vhea fields, gasp ranges, the structure of
//! a name table. Written from the OpenType specification; nothing here calls allsorts.

use crate::fontgen::sfnt::find_table;

fn u16at(d: &[u8], at: usize) -> Result<u16, String> {
    d.get(at..at + 2).map(|b| u16::from_be_bytes([b[0], b[1]])).ok_or_else(|| format!("read of 2 bytes at {} beyond {} bytes", at, d.len()))
}
fn i16at(d: &[u8], at: usize) -> Result<i16, String> {
    u16at(d, at).map(|v| v as i16)
}

#[derive(Clone, Debug, PartialEq)]
pub struct VertMetrics {
    /// (advance height, top side bearing) per glyph
    pub metrics: Vec<(u16, i16)>,
    pub num_long: u16,
    pub advance_height_max: u16,
}

/// vhea + vmtx of a font. Ok(None) when the font has neither table.
pub fn read_vertical(data: &[u8]) -> Result<Option<VertMetrics>, String> {
    let (vhea, vmtx) = match (find_table(data, b"vhea"), find_table(data, b"vmtx")) {
        (None, None) => return Ok(None),
        (Some(a), Some(b)) => (a, b),
        (Some(_), None) => return Err("vhea without vmtx".into()),
        (None, Some(_)) => return Err("vmtx without vhea".into()),
    };
    let maxp = find_table(data, b"maxp").ok_or("maxp missing")?;
    let n = u16at(maxp, 4)? as usize;
    if vhea.len() < 36 {
        return Err(format!("vhea has {} bytes", vhea.len()));
    }
    let nl = u16at(vhea, 34)? as usize;
    if (nl == 0 && n > 0) || nl > n {
        return Err(format!("numOfLongVerMetrics {} for {} glyphs", nl, n));
    }
    let need = 4 * nl + 2 * (n - nl);
    if vmtx.len() != need {
        return Err(format!("vmtx has {} bytes, numOfLongVerMetrics {} and {} glyphs need {}", vmtx.len(), nl, n, need));
    }
    let mut metrics = Vec::with_capacity(n);
    let mut last = 0u16;
    for g in 0..n {
        if g < nl {
            last = u16at(vmtx, 4 * g)?;
            metrics.push((last, i16at(vmtx, 4 * g + 2)?));
        } else {
            metrics.push((last, i16at(vmtx, 4 * nl + 2 * (g - nl))?));
        }
    }
    Ok(Some(VertMetrics { metrics, num_long: nl as u16, advance_height_max: u16at(vhea, 10)? }))
}

/// The vhea fields MVAR can address, by value tag.
pub fn vhea_fields(data: &[u8]) -> Result<Vec<([u8; 4], i32)>, String> {
    let vhea = match find_table(data, b"vhea") {
        Some(v) => v,
        None => return Ok(Vec::new()),
    };
    let s = |at: usize| i16at(vhea, at).map(|x| x as i32);
    Ok(vec![(*b"vasc", s(4)?), (*b"vdsc", s(6)?), (*b"vlgp", s(8)?), (*b"vcrs", s(18)?), (*b"vcrn", s(20)?), (*b"vcof", s(22)?)])
}

/// gasp ranges (rangeMaxPPEM, behaviour); Ok(None) without a gasp table.
pub fn gasp_ranges(data: &[u8]) -> Result<Option<Vec<(u16, u16)>>, String> {
    let g = match find_table(data, b"gasp") {
        Some(g) => g,
        None => return Ok(None),
    };
    let n = u16at(g, 2)? as usize;
    let mut v = Vec::new();
    for i in 0..n {
        v.push((u16at(g, 4 + 4 * i)?, u16at(g, 6 + 4 * i)?));
    }
    Ok(Some(v))
}

/// Structural validity of a name table: version 0 or 1, every record's string inside the table.
/// Returns the name ids present.
pub fn check_name_table(name: &[u8]) -> Result<Vec<u16>, String> {
    let version = u16at(name, 0)?;
    if version > 1 {
        return Err(format!("name version {}", version));
    }
    let count = u16at(name, 2)? as usize;
    let storage = u16at(name, 4)? as usize;
    if storage > name.len() || 6 + 12 * count > storage.max(6 + 12 * count) {
        return Err(format!("string storage offset {} beyond the table ({} bytes)", storage, name.len()));
    }
    if storage < 6 + 12 * count {
        return Err(format!("string storage offset {} lies inside the {} name records", storage, count));
    }
    let mut ids = Vec::new();
    for i in 0..count {
        let at = 6 + 12 * i;
        let key = (u16at(name, at)?, u16at(name, at + 2)?, u16at(name, at + 4)?, u16at(name, at + 6)?);
        let len = u16at(name, at + 8)? as usize;
        let off = u16at(name, at + 10)? as usize;
        if storage + off + len > name.len() {
            return Err(format!("record {} (name id {}): string {}+{} beyond the storage area ({} bytes)", i, key.3, off, len, name.len() - storage));
        }
        ids.push(key.3);
    }
    Ok(ids)
}
