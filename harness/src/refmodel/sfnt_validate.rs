//! Independent sfnt VALIDATOR (written from the OpenType specification, "Organization of an
//! OpenType font", and the table chapters head/maxp/hhea/hmtx/loca/glyf/cmap/post; CFF from
//! Adobe TN#5176 / TN#5177; CFF2 from the OpenType CFF2 chapter). Nothing here uses an
//! allsorts reader.
//!
//! Two layers:
//! * `validate_container` — the file level: header, search fields, directory order, alignment,
//!   bounds, overlap, zero padding, per-table checksums, head.checkSumAdjustment.
//! * `validate_tables` — relations between tables: maxp / hhea / hmtx / head / loca / glyf /
//!   cmap / post and the CFF / CFF2 basics.
//!
//! Every issue has a stable `code` (no case data) and a message.

use std::collections::BTreeMap;

pub type Tag = [u8; 4];

#[derive(Clone, Debug, PartialEq)]
pub struct Issue {
    pub code: &'static str,
    pub msg: String,
}

fn issue(v: &mut Vec<Issue>, code: &'static str, msg: String) {
    if v.len() < 64 {
        v.push(Issue { code, msg });
    }
}

fn be16(d: &[u8], at: usize) -> Option<u16> {
    d.get(at..at + 2).map(|b| u16::from_be_bytes([b[0], b[1]]))
}
fn bei16(d: &[u8], at: usize) -> Option<i16> {
    be16(d, at).map(|v| v as i16)
}
fn be32(d: &[u8], at: usize) -> Option<u32> {
    d.get(at..at + 4).map(|b| u32::from_be_bytes([b[0], b[1], b[2], b[3]]))
}

fn tag_str(t: &Tag) -> String {
    t.iter().map(|c| if (0x20..0x7F).contains(c) { *c as char } else { '?' }).collect()
}

/// sum of big-endian u32 words, the tail padded with zeros
pub fn checksum(data: &[u8]) -> u32 {
    let mut sum = 0u32;
    let mut it = data.chunks_exact(4);
    for c in &mut it {
        sum = sum.wrapping_add(u32::from_be_bytes([c[0], c[1], c[2], c[3]]));
    }
    let r = it.remainder();
    if !r.is_empty() {
        let mut w = [0u8; 4];
        w[..r.len()].copy_from_slice(r);
        sum = sum.wrapping_add(u32::from_be_bytes(w));
    }
    sum
}

#[derive(Clone, Debug)]
pub struct Record {
    pub tag: Tag,
    pub checksum: u32,
    pub offset: u32,
    pub length: u32,
}

#[derive(Clone, Debug, Default)]
pub struct ContainerReport<'a> {
    pub flavour: u32,
    pub records: Vec<Record>,
    /// tables whose extent lies inside the file (first record wins for duplicate tags)
    pub tables: BTreeMap<Tag, &'a [u8]>,
    pub issues: Vec<Issue>,
}

/// File-level rules of a bare sfnt.
pub fn validate_container(data: &[u8]) -> ContainerReport<'_> {
    let mut rep = ContainerReport::default();
    let iss = &mut rep.issues;
    if data.len() < 12 {
        issue(iss, "sfnt:short-header", format!("file of {} bytes", data.len()));
        return rep;
    }
    let flavour = be32(data, 0).unwrap();
    rep.flavour = flavour;
    if ![0x0001_0000u32, 0x4F54_544F, 0x7472_7565].contains(&flavour) {
        issue(iss, "sfnt:version", format!("sfntVersion 0x{:08X}", flavour));
    }
    let n = be16(data, 4).unwrap() as usize;
    let (sr, es, rs) = (be16(data, 6).unwrap(), be16(data, 8).unwrap(), be16(data, 10).unwrap());
    // searchRange = (maximum power of 2 <= numTables) * 16, entrySelector = log2 of that power,
    // rangeShift = numTables * 16 - searchRange
    if n > 0 {
        let mut p = 1usize;
        let mut l = 0u16;
        while p * 2 <= n {
            p *= 2;
            l += 1;
        }
        if sr as usize != p * 16 {
            issue(iss, "dir:search-range", format!("searchRange {} for {} tables, expected {}", sr, n, p * 16));
        }
        if es != l {
            issue(iss, "dir:entry-selector", format!("entrySelector {} for {} tables, expected {}", es, n, l));
        }
        if rs as usize != n * 16 - p * 16 {
            issue(iss, "dir:range-shift", format!("rangeShift {} for {} tables, expected {}", rs, n, n * 16 - p * 16));
        }
    }
    let dir_end = 12 + 16 * n;
    if data.len() < dir_end {
        issue(iss, "dir:truncated", format!("{} tables need {} bytes, file has {}", n, dir_end, data.len()));
        return rep;
    }
    for i in 0..n {
        let at = 12 + 16 * i;
        rep.records.push(Record {
            tag: data[at..at + 4].try_into().unwrap(),
            checksum: be32(data, at + 4).unwrap(),
            offset: be32(data, at + 8).unwrap(),
            length: be32(data, at + 12).unwrap(),
        });
    }
    for w in rep.records.windows(2) {
        if w[0].tag >= w[1].tag {
            issue(iss, "dir:not-sorted", format!("record '{}' is followed by '{}'", tag_str(&w[0].tag), tag_str(&w[1].tag)));
            break;
        }
    }
    // coverage map: 0 = free, 1 = directory/table data, 2 = padding
    let mut cover = vec![0u8; data.len()];
    cover[..dir_end].iter_mut().for_each(|c| *c = 1);
    let mut head: Option<(usize, usize)> = None;
    for r in &rep.records {
        let name = tag_str(&r.tag);
        let (o, l) = (r.offset as usize, r.length as usize);
        if o % 4 != 0 {
            issue(iss, "table:unaligned", format!("'{}' at offset {}", name, o));
        }
        if o < dir_end {
            issue(iss, "table:inside-directory", format!("'{}' at offset {} but the directory ends at {}", name, o, dir_end));
        }
        let end = match o.checked_add(l) {
            Some(e) if e <= data.len() => e,
            _ => {
                issue(iss, "table:out-of-file", format!("'{}' offset {} length {} in a file of {} bytes", name, o, l, data.len()));
                continue;
            }
        };
        let padded = (end + 3) / 4 * 4;
        if padded > data.len() {
            issue(iss, "table:padding-missing", format!("'{}' ends at {} and is not padded to {}; file has {} bytes", name, end, padded, data.len()));
        } else if data[end..padded].iter().any(|b| *b != 0) {
            issue(iss, "table:padding-nonzero", format!("'{}' padding bytes {:?}", name, &data[end..padded]));
        }
        let body = &data[o..end];
        if l > 0 && cover[o..end].iter().any(|c| *c == 1) && o >= dir_end {
            issue(iss, "table:overlap", format!("'{}' [{}, {}) overlaps another table", name, o, end));
        }
        cover[o..end].iter_mut().for_each(|c| *c = 1);
        for c in cover[end..padded.min(data.len())].iter_mut() {
            if *c == 0 {
                *c = 2;
            }
        }
        let sum = if &r.tag == b"head" && l >= 12 {
            let mut h = body.to_vec();
            h[8..12].copy_from_slice(&[0; 4]);
            checksum(&h)
        } else {
            checksum(body)
        };
        if sum != r.checksum {
            issue(iss, "table:checksum", format!("'{}' directory checksum 0x{:08X}, computed 0x{:08X}", name, r.checksum, sum));
        }
        if &r.tag == b"head" && head.is_none() {
            head = Some((o, l));
        }
        rep.tables.entry(r.tag).or_insert(body);
    }
    // padding of one table must not be data of another one: handled by cover == 1 winning; any
    // byte covered by nothing must be zero ("any remaining space between tables must be padded with zeros")
    if let Some(p) = (0..data.len()).find(|&i| cover[i] == 0 && data[i] != 0) {
        issue(iss, "gap:nonzero", format!("byte {} (0x{:02X}) belongs to no table and is not zero", p, data[p]));
    }
    if let Some((o, l)) = head {
        if l >= 12 {
            let total = checksum(data);
            if total != 0xB1B0_AFBA {
                let adj = be32(data, o + 8).unwrap();
                issue(
                    iss,
                    "head:checksum-adjustment",
                    format!("whole-file sum 0x{:08X} (expected 0xB1B0AFBA); checkSumAdjustment 0x{:08X}, should be 0x{:08X}", total, adj, adj.wrapping_add(0xB1B0_AFBAu32.wrapping_sub(total))),
                );
            }
        }
    }
    rep
}

// ------------------------------------------------------------------------------------------
// cross-table rules

#[derive(Clone, Copy, Debug)]
pub struct Opts {
    /// hmtx / loca / post lengths must be exactly what the counts imply (tables written by the library)
    pub exact_sizes: bool,
    /// walk every CFF charstring (endchar, subr references)
    pub charstrings: bool,
}

impl Default for Opts {
    fn default() -> Self {
        Opts { exact_sizes: true, charstrings: true }
    }
}

#[derive(Clone, Debug, Default)]
pub struct TablesReport {
    pub issues: Vec<Issue>,
    pub num_glyphs: Option<u16>,
    pub cmap_formats: Vec<u16>,
    pub composite_glyphs: usize,
    pub nonempty_glyphs: usize,
    pub short_loca: Option<bool>,
    pub cff_cid: Option<bool>,
}

pub fn validate_tables(t: &BTreeMap<Tag, &[u8]>, opts: Opts) -> TablesReport {
    let mut rep = TablesReport::default();
    let mut iss: Vec<Issue> = Vec::new();
    let get = |tag: &[u8; 4]| t.get(tag).copied();

    // ---- head
    let mut loc_format: Option<i16> = None;
    match get(b"head") {
        None => issue(&mut iss, "head:missing", "no head table".into()),
        Some(h) if h.len() < 54 => issue(&mut iss, "head:length", format!("head of {} bytes", h.len())),
        Some(h) => {
            if be32(h, 12) != Some(0x5F0F_3CF5) {
                issue(&mut iss, "head:magic", format!("magicNumber {:08X?}", be32(h, 12)));
            }
            let f = bei16(h, 50).unwrap();
            if f != 0 && f != 1 {
                issue(&mut iss, "head:index-to-loc-format", format!("indexToLocFormat {}", f));
            } else {
                loc_format = Some(f);
            }
            if bei16(h, 52) != Some(0) {
                issue(&mut iss, "head:glyph-data-format", format!("glyphDataFormat {:?}", bei16(h, 52)));
            }
            if opts.exact_sizes && h.len() != 54 {
                issue(&mut iss, "head:length", format!("head of {} bytes", h.len()));
            }
        }
    }
    // ---- maxp
    let mut num_glyphs: Option<usize> = None;
    match get(b"maxp") {
        None => issue(&mut iss, "maxp:missing", "no maxp table".into()),
        Some(m) => match be32(m, 0) {
            Some(0x0000_5000) if m.len() >= 6 => num_glyphs = be16(m, 4).map(usize::from),
            Some(0x0001_0000) if m.len() >= 32 => num_glyphs = be16(m, 4).map(usize::from),
            v => issue(&mut iss, "maxp:version-length", format!("maxp version {:08X?} with {} bytes", v, m.len())),
        },
    }
    rep.num_glyphs = num_glyphs.map(|n| n as u16);
    // ---- hhea / hmtx
    match (get(b"hhea"), get(b"hmtx")) {
        (Some(hh), hm) => {
            if hh.len() < 36 {
                issue(&mut iss, "hhea:length", format!("hhea of {} bytes", hh.len()));
            } else {
                if bei16(hh, 32) != Some(0) {
                    issue(&mut iss, "hhea:metric-data-format", format!("metricDataFormat {:?}", bei16(hh, 32)));
                }
                let nhm = be16(hh, 34).unwrap() as usize;
                if let Some(n) = num_glyphs {
                    if nhm > n {
                        issue(&mut iss, "hhea:num-h-metrics>num-glyphs", format!("numberOfHMetrics {} > numGlyphs {}", nhm, n));
                    } else if nhm == 0 && n > 0 && hm.is_some() {
                        issue(&mut iss, "hhea:num-h-metrics-zero", format!("numberOfHMetrics 0 with {} glyphs", n));
                    } else if let Some(hm) = hm {
                        let need = 4 * nhm + 2 * (n - nhm);
                        if hm.len() < need {
                            issue(&mut iss, "hmtx:too-short", format!("hmtx has {} bytes; {} hMetrics + {} bearings need {}", hm.len(), nhm, n - nhm, need));
                        } else if hm.len() > need && opts.exact_sizes {
                            issue(&mut iss, "hmtx:too-long", format!("hmtx has {} bytes; {} hMetrics + {} bearings need {}", hm.len(), nhm, n - nhm, need));
                        }
                    }
                }
                if hm.is_none() {
                    issue(&mut iss, "hmtx:missing", "hhea without hmtx".into());
                }
            }
        }
        (None, Some(_)) => issue(&mut iss, "hhea:missing", "hmtx without hhea".into()),
        (None, None) => issue(&mut iss, "hhea:missing", "no hhea table".into()),
    }
    // ---- loca / glyf
    match (get(b"glyf"), get(b"loca")) {
        (Some(glyf), Some(loca)) => {
            if let (Some(n), Some(f)) = (num_glyphs, loc_format) {
                rep.short_loca = Some(f == 0);
                let w = if f == 0 { 2 } else { 4 };
                let need = (n + 1) * w;
                if loca.len() < need {
                    issue(&mut iss, "loca:too-short", format!("loca has {} bytes; {} glyphs in {} format need {}", loca.len(), n, if f == 0 { "short" } else { "long" }, need));
                } else {
                    if loca.len() > need && opts.exact_sizes {
                        issue(&mut iss, "loca:too-long", format!("loca has {} bytes; {} glyphs need {}", loca.len(), n, need));
                    }
                    let offs: Vec<usize> = (0..=n)
                        .map(|i| if f == 0 { be16(loca, 2 * i).unwrap() as usize * 2 } else { be32(loca, 4 * i).unwrap() as usize })
                        .collect();
                    let mut ok = true;
                    if let Some(i) = (0..n).find(|&i| offs[i] > offs[i + 1]) {
                        issue(&mut iss, "loca:not-monotonic", format!("loca[{}] = {} > loca[{}] = {}", i, offs[i], i + 1, offs[i + 1]));
                        ok = false;
                    }
                    if offs[n] > glyf.len() {
                        issue(&mut iss, "loca:beyond-glyf", format!("last loca offset {} > glyf length {}", offs[n], glyf.len()));
                        ok = false;
                    }
                    if ok {
                        let mut comps: Vec<Vec<u16>> = Vec::with_capacity(n);
                        for g in 0..n {
                            let s = &glyf[offs[g]..offs[g + 1]];
                            if s.is_empty() {
                                comps.push(Vec::new());
                                continue;
                            }
                            rep.nonempty_glyphs += 1;
                            match parse_glyph(s) {
                                Ok(c) => {
                                    if let Some(bad) = c.iter().find(|c| **c as usize >= n) {
                                        issue(&mut iss, "glyf:component-out-of-range", format!("glyph {} references component {} of {} glyphs", g, bad, n));
                                    }
                                    if !c.is_empty() {
                                        rep.composite_glyphs += 1;
                                    }
                                    comps.push(c);
                                }
                                Err(e) => {
                                    issue(&mut iss, "glyf:glyph-malformed", format!("glyph {} ({} bytes): {}", g, s.len(), e));
                                    comps.push(Vec::new());
                                }
                            }
                        }
                        // acyclic
                        let mut state = vec![0u8; n]; // 0 new, 1 active, 2 done
                        for g in 0..n {
                            if state[g] == 0 && has_cycle(g, &comps, &mut state, 0) {
                                issue(&mut iss, "glyf:component-cycle", format!("composite glyph {} is part of a reference cycle (or nests deeper than 64)", g));
                                break;
                            }
                        }
                    }
                }
            }
        }
        (Some(_), None) => issue(&mut iss, "loca:missing", "glyf without loca".into()),
        (None, Some(_)) => issue(&mut iss, "glyf:missing", "loca without glyf".into()),
        (None, None) => {}
    }
    // ---- cmap
    if let Some(cmap) = get(b"cmap") {
        validate_cmap(cmap, num_glyphs, &mut iss, &mut rep.cmap_formats);
    }
    // ---- post
    if let Some(post) = get(b"post") {
        if post.len() < 32 {
            issue(&mut iss, "post:length", format!("post of {} bytes", post.len()));
        } else {
            match be32(post, 0).unwrap() {
                0x0003_0000 | 0x0001_0000 => {
                    if post.len() != 32 && opts.exact_sizes {
                        issue(&mut iss, "post:length", format!("post version {:08X} with {} bytes (header is 32)", be32(post, 0).unwrap(), post.len()));
                    }
                }
                0x0002_0000 => match be16(post, 32) {
                    None => issue(&mut iss, "post:length", "post 2.0 without numGlyphs".into()),
                    Some(pn) => {
                        if let Some(n) = num_glyphs {
                            if pn as usize != n {
                                issue(&mut iss, "post:num-glyphs", format!("post 2.0 numGlyphs {} != maxp.numGlyphs {}", pn, n));
                            }
                        }
                        let pn = pn as usize;
                        if post.len() < 34 + 2 * pn {
                            issue(&mut iss, "post:length", format!("post 2.0 with {} glyphs needs {} bytes of indices, has {}", pn, 34 + 2 * pn, post.len()));
                        } else {
                            // every index >= 258 needs a Pascal string
                            let max_idx = (0..pn).map(|i| be16(post, 34 + 2 * i).unwrap()).max().unwrap_or(0);
                            let mut at = 34 + 2 * pn;
                            let mut strings = 0usize;
                            while at < post.len() {
                                let l = post[at] as usize;
                                if at + 1 + l > post.len() {
                                    issue(&mut iss, "post:string-truncated", format!("Pascal string at {} runs past the table", at));
                                    break;
                                }
                                at += 1 + l;
                                strings += 1;
                            }
                            if max_idx >= 258 && (max_idx as usize - 258) >= strings {
                                issue(&mut iss, "post:name-index-out-of-range", format!("glyphNameIndex {} but only {} strings", max_idx, strings));
                            }
                        }
                    }
                },
                0x0002_5000 | 0x0004_0000 => {}
                v => issue(&mut iss, "post:version", format!("post version {:08X}", v)),
            }
        }
    }
    // ---- CFF / CFF2
    if let Some(cff) = get(b"CFF ") {
        let r = validate_cff(cff, num_glyphs, opts.charstrings);
        rep.cff_cid = r.1;
        iss.extend(r.0);
    }
    if let Some(cff2) = get(b"CFF2") {
        iss.extend(validate_cff2(cff2, num_glyphs, !t.contains_key(b"fvar"), opts.charstrings));
    }
    rep.issues = iss;
    rep
}

fn has_cycle(g: usize, comps: &[Vec<u16>], state: &mut [u8], depth: usize) -> bool {
    if depth > 64 {
        return true;
    }
    state[g] = 1;
    for &c in &comps[g] {
        let c = c as usize;
        if c >= comps.len() {
            continue;
        }
        if state[c] == 1 {
            return true;
        }
        if state[c] == 0 && has_cycle(c, comps, state, depth + 1) {
            return true;
        }
    }
    state[g] = 2;
    false
}

/// Parse one glyf record inside its loca slice. Returns the component glyph ids (empty for a
/// simple glyph).
pub fn parse_glyph(s: &[u8]) -> Result<Vec<u16>, String> {
    if s.len() < 10 {
        return Err("shorter than the 10-byte glyph header".into());
    }
    let nc = bei16(s, 0).unwrap();
    let (x0, y0, x1, y1) = (bei16(s, 2).unwrap(), bei16(s, 4).unwrap(), bei16(s, 6).unwrap(), bei16(s, 8).unwrap());
    let _ = (x0, y0, x1, y1);
    let mut at = 10usize;
    if nc >= 0 {
        let nc = nc as usize;
        if nc == 0 {
            return Ok(Vec::new());
        }
        let mut last: i32 = -1;
        for i in 0..nc {
            let e = be16(s, at).ok_or("endPtsOfContours truncated")? as i32;
            let _ = i;
            if e < last {
                return Err(format!("endPtsOfContours decreasing ({} after {})", e, last));
            }
            last = e;
            at += 2;
        }
        let npts = (last + 1) as usize;
        let il = be16(s, at).ok_or("instructionLength truncated")? as usize;
        at += 2;
        if at + il > s.len() {
            return Err(format!("{} instruction bytes run past the glyph", il));
        }
        at += il;
        let mut flags: Vec<u8> = Vec::with_capacity(npts);
        while flags.len() < npts {
            let f = *s.get(at).ok_or("flags truncated")?;
            at += 1;
            flags.push(f);
            if f & 0x08 != 0 {
                let r = *s.get(at).ok_or("repeat count truncated")? as usize;
                at += 1;
                if flags.len() + r > npts {
                    return Err("flag repeat runs past the number of points".into());
                }
                for _ in 0..r {
                    flags.push(f);
                }
            }
        }
        let xs: usize = flags.iter().map(|f| if f & 0x02 != 0 { 1 } else if f & 0x10 != 0 { 0 } else { 2 }).sum();
        let ys: usize = flags.iter().map(|f| if f & 0x04 != 0 { 1 } else if f & 0x20 != 0 { 0 } else { 2 }).sum();
        if at + xs + ys > s.len() {
            return Err(format!("coordinates need {} bytes, {} available", xs + ys, s.len() - at));
        }
        Ok(Vec::new())
    } else {
        let mut comps = Vec::new();
        loop {
            let flags = be16(s, at).ok_or("component flags truncated")?;
            let gi = be16(s, at + 2).ok_or("component glyphIndex truncated")?;
            at += 4;
            comps.push(gi);
            at += if flags & 0x0001 != 0 { 4 } else { 2 };
            if flags & 0x0008 != 0 {
                at += 2;
            } else if flags & 0x0040 != 0 {
                at += 4;
            } else if flags & 0x0080 != 0 {
                at += 8;
            }
            if at > s.len() {
                return Err("component record truncated".into());
            }
            if flags & 0x0020 == 0 {
                if flags & 0x0100 != 0 {
                    let il = be16(s, at).ok_or("composite instruction length truncated")? as usize;
                    at += 2;
                    if at + il > s.len() {
                        return Err("composite instructions run past the glyph".into());
                    }
                }
                break;
            }
            if comps.len() > 4096 {
                return Err("more than 4096 components".into());
            }
        }
        Ok(comps)
    }
}

fn validate_cmap(cmap: &[u8], num_glyphs: Option<usize>, iss: &mut Vec<Issue>, formats: &mut Vec<u16>) {
    if cmap.len() < 4 {
        issue(iss, "cmap:header", format!("cmap of {} bytes", cmap.len()));
        return;
    }
    if be16(cmap, 0) != Some(0) {
        issue(iss, "cmap:version", format!("cmap version {:?}", be16(cmap, 0)));
    }
    let n = be16(cmap, 2).unwrap() as usize;
    if cmap.len() < 4 + 8 * n {
        issue(iss, "cmap:header", format!("{} encoding records do not fit in {} bytes", n, cmap.len()));
        return;
    }
    let mut prev: Option<(u16, u16)> = None;
    let mut seen: Vec<usize> = Vec::new();
    for i in 0..n {
        let at = 4 + 8 * i;
        let key = (be16(cmap, at).unwrap(), be16(cmap, at + 2).unwrap());
        let off = be32(cmap, at + 4).unwrap() as usize;
        if let Some(p) = prev {
            if key < p {
                issue(iss, "cmap:records-not-sorted", format!("encoding record {:?} after {:?}", key, p));
            }
        }
        prev = Some(key);
        if off < 4 + 8 * n || off + 4 > cmap.len() {
            issue(iss, "cmap:subtable-offset", format!("encoding record {:?} offset {} in a table of {} bytes", key, off, cmap.len()));
            continue;
        }
        if seen.contains(&off) {
            continue;
        }
        seen.push(off);
        validate_cmap_subtable(&cmap[off..], key, num_glyphs, iss, formats);
    }
}

fn validate_cmap_subtable(s: &[u8], key: (u16, u16), num_glyphs: Option<usize>, iss: &mut Vec<Issue>, formats: &mut Vec<u16>) {
    let format = be16(s, 0).unwrap();
    if !formats.contains(&format) {
        formats.push(format);
    }
    let ng = num_glyphs.unwrap_or(usize::MAX);
    let who = format!("cmap ({},{}) format {}", key.0, key.1, format);
    match format {
        0 => {
            if s.len() < 262 || be16(s, 2) != Some(262) {
                issue(iss, "cmap0:length", format!("{}: length field {:?}, {} bytes available", who, be16(s, 2), s.len()));
                return;
            }
            if let Some(c) = (0..256).find(|&c| s[6 + c] as usize >= ng) {
                issue(iss, "cmap:gid-out-of-range", format!("{}: code {} -> glyph {} of {}", who, c, s[6 + c], ng));
            }
        }
        4 => {
            let Some(len) = be16(s, 2).map(usize::from) else { return };
            if len > s.len() || len < 16 {
                issue(iss, "cmap4:length", format!("{}: length field {} with {} bytes available", who, len, s.len()));
                return;
            }
            let s = &s[..len];
            let sc2 = be16(s, 6).unwrap() as usize;
            if sc2 % 2 != 0 || sc2 == 0 {
                issue(iss, "cmap4:seg-count", format!("{}: segCountX2 {}", who, sc2));
                return;
            }
            let sc = sc2 / 2;
            if 16 + 8 * sc > len {
                issue(iss, "cmap4:length", format!("{}: {} segments do not fit in length {}", who, sc, len));
                return;
            }
            let mut p = 1usize;
            let mut l = 0u16;
            while p * 2 <= sc {
                p *= 2;
                l += 1;
            }
            let (sr, es, rs) = (be16(s, 8).unwrap(), be16(s, 10).unwrap(), be16(s, 12).unwrap());
            if sr as usize != 2 * p || es != l || rs as usize != 2 * sc - 2 * p {
                issue(iss, "cmap4:search-fields", format!("{}: searchRange {} entrySelector {} rangeShift {} for {} segments (expected {} {} {})", who, sr, es, rs, sc, 2 * p, l, 2 * sc - 2 * p));
            }
            if be16(s, 14 + sc2) != Some(0) {
                issue(iss, "cmap4:reserved-pad", format!("{}: reservedPad {:?}", who, be16(s, 14 + sc2)));
            }
            let end = |i: usize| be16(s, 14 + 2 * i).unwrap();
            let start = |i: usize| be16(s, 16 + sc2 + 2 * i).unwrap();
            let delta = |i: usize| be16(s, 16 + 2 * sc2 + 2 * i).unwrap();
            let ro_at = |i: usize| 16 + 3 * sc2 + 2 * i;
            if end(sc - 1) != 0xFFFF {
                issue(iss, "cmap4:last-end-code", format!("{}: last endCode {:#06X}", who, end(sc - 1)));
            }
            if (len - (16 + 8 * sc)) % 2 != 0 {
                issue(iss, "cmap4:length", format!("{}: odd glyphIdArray size (length {})", who, len));
            }
            for i in 0..sc {
                if start(i) > end(i) {
                    issue(iss, "cmap4:start>end", format!("{}: segment {} start {:#06X} > end {:#06X}", who, i, start(i), end(i)));
                    return;
                }
                if i > 0 && start(i) <= end(i - 1) {
                    issue(iss, "cmap4:segments-unordered", format!("{}: segment {} starts at {:#06X}, previous ends at {:#06X}", who, i, start(i), end(i - 1)));
                    return;
                }
                let ro = be16(s, ro_at(i)).unwrap() as usize;
                if ro == 0 {
                    // gids start+delta .. end+delta mod 65536
                    let lo = start(i).wrapping_add(delta(i)) as usize;
                    let hi = end(i).wrapping_add(delta(i)) as usize;
                    let is_sentinel = start(i) == 0xFFFF;
                    if !is_sentinel {
                        let wraps = hi < lo;
                        let max = if wraps { 0xFFFF } else { hi };
                        if max >= ng {
                            issue(iss, "cmap:gid-out-of-range", format!("{}: segment {:#06X}..{:#06X} delta {} maps to glyph {} of {}", who, start(i), end(i), delta(i), max, ng));
                        }
                    } else if lo != 0 && lo >= ng {
                        issue(iss, "cmap:gid-out-of-range", format!("{}: 0xFFFF maps to glyph {} of {}", who, lo, ng));
                    }
                } else {
                    if ro % 2 != 0 {
                        issue(iss, "cmap4:id-range-offset", format!("{}: odd idRangeOffset {} in segment {}", who, ro, i));
                        return;
                    }
                    for c in start(i)..=end(i) {
                        let addr = ro_at(i) + ro + 2 * (c - start(i)) as usize;
                        match be16(s, addr) {
                            None => {
                                if !(start(i) == 0xFFFF) {
                                    issue(iss, "cmap4:id-range-offset", format!("{}: segment {} code {:#06X} addresses byte {} beyond length {}", who, i, c, addr, len));
                                }
                                return;
                            }
                            Some(0) => {}
                            Some(g) => {
                                let g = g.wrapping_add(delta(i)) as usize;
                                if g >= ng {
                                    issue(iss, "cmap:gid-out-of-range", format!("{}: code {:#06X} -> glyph {} of {}", who, c, g, ng));
                                    return;
                                }
                            }
                        }
                        if c == 0xFFFF {
                            break;
                        }
                    }
                }
            }
        }
        6 => {
            let Some(len) = be16(s, 2).map(usize::from) else { return };
            let (first, count) = (be16(s, 6).unwrap_or(0) as usize, be16(s, 8).unwrap_or(0) as usize);
            if len > s.len() || len != 10 + 2 * count {
                issue(iss, "cmap6:length", format!("{}: length {} for {} entries ({} bytes available)", who, len, count, s.len()));
                return;
            }
            if first + count > 65536 {
                issue(iss, "cmap6:range", format!("{}: firstCode {} + entryCount {} > 65536", who, first, count));
            }
            if let Some(i) = (0..count).find(|&i| be16(s, 10 + 2 * i).unwrap() as usize >= ng) {
                issue(iss, "cmap:gid-out-of-range", format!("{}: entry {} -> glyph {} of {}", who, i, be16(s, 10 + 2 * i).unwrap(), ng));
            }
        }
        12 | 13 => {
            if s.len() < 16 {
                issue(iss, "cmap12:length", format!("{}: {} bytes", who, s.len()));
                return;
            }
            let len = be32(s, 4).unwrap() as usize;
            let ngroups = be32(s, 12).unwrap() as usize;
            if be16(s, 2) != Some(0) {
                issue(iss, "cmap12:reserved", format!("{}: reserved {:?}", who, be16(s, 2)));
            }
            if len > s.len() || ngroups.checked_mul(12).map(|b| b + 16) != Some(len) {
                issue(iss, "cmap12:length", format!("{}: length {} for {} groups ({} bytes available)", who, len, ngroups, s.len()));
                return;
            }
            let mut prev_end: Option<u32> = None;
            for g in 0..ngroups {
                let at = 16 + 12 * g;
                let (st, en, gid) = (be32(s, at).unwrap(), be32(s, at + 4).unwrap(), be32(s, at + 8).unwrap());
                if st > en {
                    issue(iss, "cmap12:start>end", format!("{}: group {} {:#X}..{:#X}", who, g, st, en));
                    return;
                }
                if let Some(pe) = prev_end {
                    if st <= pe {
                        issue(iss, "cmap12:groups-unordered", format!("{}: group {} starts at {:#X}, previous ends at {:#X}", who, g, st, pe));
                        return;
                    }
                }
                prev_end = Some(en);
                let last = if format == 12 { gid as u64 + (en - st) as u64 } else { gid as u64 };
                if last >= ng as u64 {
                    issue(iss, "cmap:gid-out-of-range", format!("{}: group {:#X}..{:#X} maps to glyph {} of {}", who, st, en, last, ng));
                    return;
                }
            }
        }
        2 | 8 | 10 | 14 => {
            // length only
            let len = if format == 2 { be16(s, 2).map(usize::from) } else if format == 14 { be32(s, 2).map(|v| v as usize) } else { be32(s, 4).map(|v| v as usize) };
            if len.map(|l| l > s.len()).unwrap_or(true) {
                issue(iss, "cmap:subtable-length", format!("{}: length {:?} with {} bytes available", who, len, s.len()));
            }
        }
        _ => issue(iss, "cmap:unknown-format", format!("{}", who)),
    }
}

// ------------------------------------------------------------------------------------------
// CFF

#[derive(Clone, Debug)]
pub struct Index<'a> {
    pub items: Vec<&'a [u8]>,
    /// total size in bytes
    pub size: usize,
}

/// CFF (count: u16) or CFF2 (count: u32) INDEX at `at`.
pub fn parse_index(d: &[u8], at: usize, cff2: bool) -> Result<Index<'_>, String> {
    let (count, mut p) = if cff2 {
        (be32(d, at).ok_or("INDEX count truncated")? as usize, at + 4)
    } else {
        (be16(d, at).ok_or("INDEX count truncated")? as usize, at + 2)
    };
    if count == 0 {
        return Ok(Index { items: Vec::new(), size: p - at });
    }
    let off_size = *d.get(p).ok_or("INDEX offSize truncated")? as usize;
    p += 1;
    if !(1..=4).contains(&off_size) {
        return Err(format!("INDEX offSize {}", off_size));
    }
    let arr_len = (count + 1).checked_mul(off_size).ok_or("INDEX too large")?;
    let arr = d.get(p..p.checked_add(arr_len).ok_or("INDEX too large")?).ok_or("INDEX offset array truncated")?;
    let off = |i: usize| -> usize {
        let mut v = 0usize;
        for k in 0..off_size {
            v = v << 8 | arr[i * off_size + k] as usize;
        }
        v
    };
    let base = p + arr_len - 1;
    if off(0) != 1 {
        return Err(format!("INDEX first offset {}", off(0)));
    }
    let mut items = Vec::with_capacity(count);
    for i in 0..count {
        let (a, b) = (off(i), off(i + 1));
        if b < a {
            return Err(format!("INDEX offsets decrease at {}", i));
        }
        items.push(d.get(base + a..base + b).ok_or(format!("INDEX item {} runs past the data", i))?);
    }
    Ok(Index { items, size: base + off(count) - at })
}

#[derive(Clone, Debug, PartialEq)]
pub enum Num {
    Int(i32),
    Real,
}

/// DICT → list of (operator, operands); two-byte operators are 1200 + second byte.
pub fn parse_dict(d: &[u8], cff2: bool) -> Result<Vec<(u16, Vec<Num>)>, String> {
    let mut out = Vec::new();
    let mut ops: Vec<Num> = Vec::new();
    let mut i = 0;
    while i < d.len() {
        let b = d[i];
        match b {
            0..=21 | 22..=24 if b <= 21 || cff2 => {
                let op = if b == 12 {
                    i += 1;
                    1200 + *d.get(i).ok_or("escape operator truncated")? as u16
                } else {
                    b as u16
                };
                i += 1;
                if (b == 22 || b == 23) && cff2 {
                    // vsindex / blend inside a CFF2 Private DICT
                }
                out.push((op, std::mem::take(&mut ops)));
            }
            28 => {
                ops.push(Num::Int(bei16(d, i + 1).ok_or("operand truncated")? as i32));
                i += 3;
            }
            29 => {
                ops.push(Num::Int(be32(d, i + 1).ok_or("operand truncated")? as i32));
                i += 5;
            }
            30 => {
                i += 1;
                loop {
                    let v = *d.get(i).ok_or("real operand truncated")?;
                    i += 1;
                    if v & 0x0F == 0x0F || v >> 4 == 0x0F {
                        break;
                    }
                }
                ops.push(Num::Real);
            }
            32..=246 => {
                ops.push(Num::Int(b as i32 - 139));
                i += 1;
            }
            247..=250 => {
                let w = *d.get(i + 1).ok_or("operand truncated")? as i32;
                ops.push(Num::Int((b as i32 - 247) * 256 + w + 108));
                i += 2;
            }
            251..=254 => {
                let w = *d.get(i + 1).ok_or("operand truncated")? as i32;
                ops.push(Num::Int(-(b as i32 - 251) * 256 - w - 108));
                i += 2;
            }
            _ => return Err(format!("reserved DICT byte {}", b)),
        }
        if ops.len() > 513 {
            return Err("more than 513 operands".into());
        }
    }
    if !ops.is_empty() {
        return Err("operands without operator at the end of the DICT".into());
    }
    Ok(out)
}

fn dict_int(dict: &[(u16, Vec<Num>)], op: u16, k: usize) -> Option<i32> {
    dict.iter().find(|e| e.0 == op).and_then(|e| match e.1.get(k) {
        Some(Num::Int(v)) => Some(*v),
        _ => None,
    })
}

fn subr_bias(count: usize) -> i32 {
    if count < 1240 {
        107
    } else if count < 33900 {
        1131
    } else {
        32768
    }
}

struct CsEnv<'a> {
    global: &'a [&'a [u8]],
    local: &'a [&'a [u8]],
    cff2: bool,
}

#[derive(PartialEq, Debug)]
enum CsEnd {
    EndChar,
    Return,
    FellOff,
}

struct CsState {
    stack: Vec<Option<i32>>,
    stems: usize,
    steps: usize,
    saw_blend: bool,
}

/// Walk a Type 2 charstring: operand/operator syntax, stem counting for hintmask lengths,
/// subroutine calls. No path semantics.
fn walk_charstring(cs: &[u8], env: &CsEnv<'_>, st: &mut CsState, depth: usize) -> Result<CsEnd, (&'static str, String)> {
    if depth > 10 {
        return Err(("cff:subr-nesting", "subroutine nesting deeper than 10".into()));
    }
    let mut i = 0usize;
    while i < cs.len() {
        st.steps += 1;
        if st.steps > 2_000_000 {
            return Err(("cff:charstring-too-long", "more than 2e6 steps".into()));
        }
        let b = cs[i];
        i += 1;
        match b {
            28 => {
                let v = bei16(cs, i).ok_or(("cff:charstring-truncated", "operand 28 truncated".to_string()))?;
                st.stack.push(Some(v as i32));
                i += 2;
            }
            32..=246 => st.stack.push(Some(b as i32 - 139)),
            247..=250 => {
                let w = *cs.get(i).ok_or(("cff:charstring-truncated", "operand truncated".to_string()))? as i32;
                st.stack.push(Some((b as i32 - 247) * 256 + w + 108));
                i += 1;
            }
            251..=254 => {
                let w = *cs.get(i).ok_or(("cff:charstring-truncated", "operand truncated".to_string()))? as i32;
                st.stack.push(Some(-(b as i32 - 251) * 256 - w - 108));
                i += 1;
            }
            255 => {
                if i + 4 > cs.len() {
                    return Err(("cff:charstring-truncated", "operand 255 truncated".into()));
                }
                st.stack.push(None);
                i += 4;
            }
            1 | 3 | 18 | 23 => {
                st.stems += st.stack.len() / 2;
                st.stack.clear();
            }
            19 | 20 => {
                st.stems += st.stack.len() / 2;
                st.stack.clear();
                let n = (st.stems + 7) / 8;
                if i + n > cs.len() {
                    return Err(("cff:charstring-truncated", format!("hintmask of {} bytes runs past the charstring", n)));
                }
                i += n;
            }
            4 | 5 | 6 | 7 | 8 | 21 | 22 | 24 | 25 | 26 | 27 | 30 | 31 => st.stack.clear(),
            10 | 29 => {
                let subrs = if b == 10 { env.local } else { env.global };
                let idx = match st.stack.pop() {
                    Some(Some(v)) => v,
                    _ => return Err(("cff:callsubr-operand", "callsubr without an integer operand".into())),
                };
                let n = idx + subr_bias(subrs.len());
                if n < 0 || n as usize >= subrs.len() {
                    return Err((
                        "cff:subr-index-out-of-range",
                        format!("{} {} (biased {}) with {} subroutines", if b == 10 { "callsubr" } else { "callgsubr" }, idx, n, subrs.len()),
                    ));
                }
                match walk_charstring(subrs[n as usize], env, st, depth + 1)? {
                    CsEnd::EndChar => return Ok(CsEnd::EndChar),
                    CsEnd::Return | CsEnd::FellOff => {}
                }
            }
            11 if !env.cff2 => return Ok(CsEnd::Return),
            14 if !env.cff2 => return Ok(CsEnd::EndChar),
            15 if env.cff2 => {
                st.stack.clear();
            }
            16 if env.cff2 => {
                st.saw_blend = true;
                // n (top) values remain; the deltas are consumed. Without the region count the
                // exact number is unknown: keep n unknown values.
                let n = match st.stack.pop() {
                    Some(Some(v)) if v >= 0 => v as usize,
                    _ => return Err(("cff2:blend-operand", "blend without count".into())),
                };
                st.stack.clear();
                for _ in 0..n {
                    st.stack.push(None);
                }
            }
            12 => {
                let e = *cs.get(i).ok_or(("cff:charstring-truncated", "escape truncated".to_string()))?;
                i += 1;
                let pop = |st: &mut CsState, k: usize| {
                    let l = st.stack.len();
                    st.stack.truncate(l.saturating_sub(k));
                };
                match e {
                    34 | 35 | 36 | 37 | 0 => st.stack.clear(),
                    3 | 4 | 10 | 11 | 12 | 15 | 24 => {
                        pop(st, 2);
                        st.stack.push(None);
                    }
                    5 | 9 | 14 | 26 | 21 => {
                        pop(st, 1);
                        st.stack.push(None);
                    }
                    18 => pop(st, 1),
                    20 => pop(st, 2),
                    22 => {
                        pop(st, 4);
                        st.stack.push(None);
                    }
                    23 => st.stack.push(None),
                    27 => {
                        let t = st.stack.last().cloned().unwrap_or(None);
                        st.stack.push(t);
                    }
                    28 => {
                        let l = st.stack.len();
                        if l >= 2 {
                            st.stack.swap(l - 1, l - 2);
                        }
                    }
                    29 => {
                        pop(st, 1);
                        st.stack.push(None);
                    }
                    30 => pop(st, 2),
                    _ => return Err(("cff:charstring-operator", format!("reserved escape operator 12 {}", e))),
                }
            }
            _ => return Err(("cff:charstring-operator", format!("reserved charstring operator {}", b))),
        }
        if st.stack.len() > 513 {
            return Err(("cff:charstring-stack", "operand stack deeper than 513".into()));
        }
    }
    Ok(CsEnd::FellOff)
}

/// CFF table basics. Returns (issues, is CID-keyed).
pub fn validate_cff(d: &[u8], num_glyphs: Option<usize>, charstrings: bool) -> (Vec<Issue>, Option<bool>) {
    let mut iss = Vec::new();
    macro_rules! bail {
        ($code:expr, $($fmt:tt)+) => {{
            issue(&mut iss, $code, format!($($fmt)+));
            return (iss, None);
        }};
    }
    if d.len() < 4 {
        bail!("cff:header", "CFF table of {} bytes", d.len());
    }
    if d[0] != 1 {
        bail!("cff:header", "CFF major version {}", d[0]);
    }
    let hdr = d[2] as usize;
    if hdr < 4 || !(1..=4).contains(&d[3]) {
        bail!("cff:header", "hdrSize {} offSize {}", hdr, d[3]);
    }
    let name = match parse_index(d, hdr, false) {
        Ok(i) => i,
        Err(e) => bail!("cff:name-index", "Name INDEX: {}", e),
    };
    if name.items.len() != 1 {
        bail!("cff:name-index", "Name INDEX with {} names", name.items.len());
    }
    let top = match parse_index(d, hdr + name.size, false) {
        Ok(i) => i,
        Err(e) => bail!("cff:top-dict-index", "Top DICT INDEX: {}", e),
    };
    if top.items.len() != 1 {
        bail!("cff:top-dict-index", "Top DICT INDEX with {} dicts for 1 name", top.items.len());
    }
    let strings = match parse_index(d, hdr + name.size + top.size, false) {
        Ok(i) => i,
        Err(e) => bail!("cff:string-index", "String INDEX: {}", e),
    };
    let gsubrs = match parse_index(d, hdr + name.size + top.size + strings.size, false) {
        Ok(i) => i,
        Err(e) => bail!("cff:global-subr-index", "Global Subr INDEX: {}", e),
    };
    let td = match parse_dict(top.items[0], false) {
        Ok(t) => t,
        Err(e) => bail!("cff:top-dict", "Top DICT: {}", e),
    };
    let max_sid = 390 + strings.items.len() as i32;
    for (op, k) in [(0u16, 0usize), (1, 0), (2, 0), (3, 0), (4, 0), (1200, 0), (1221, 0), (1222, 0), (1238, 0), (1230, 0), (1230, 1)] {
        if let Some(sid) = dict_int(&td, op, k) {
            if sid < 0 || sid > max_sid {
                issue(&mut iss, "cff:sid-out-of-range", format!("Top DICT operator {} refers to SID {}, {} strings", op, sid, strings.items.len()));
            }
        }
    }
    if let Some(t) = dict_int(&td, 1206, 0) {
        if t != 2 {
            issue(&mut iss, "cff:charstring-type", format!("CharstringType {}", t));
        }
    }
    let cs_off = match dict_int(&td, 17, 0) {
        Some(o) if o > 0 => o as usize,
        o => bail!("cff:charstrings-offset", "CharStrings offset {:?}", o),
    };
    let cs = match parse_index(d, cs_off, false) {
        Ok(i) => i,
        Err(e) => bail!("cff:charstrings-index", "CharStrings INDEX at {}: {}", cs_off, e),
    };
    let n = cs.items.len();
    if n == 0 {
        issue(&mut iss, "cff:charstrings-index", "CharStrings INDEX is empty".into());
    }
    if let Some(ng) = num_glyphs {
        if ng != n {
            issue(&mut iss, "cff:num-glyphs", format!("CharStrings INDEX has {} entries, maxp.numGlyphs is {}", n, ng));
        }
    }
    let is_cid = td.iter().any(|e| e.0 == 1230);
    // charset
    match dict_int(&td, 15, 0).unwrap_or(0) {
        p @ (0 | 1 | 2) => {
            if is_cid {
                issue(&mut iss, "cff:charset", "CID-keyed font with a predefined charset".into());
            }
            // TN #5176 section 13 / appendix C: a predefined charset stands for a fixed glyph list
            // (.notdef included: ISOAdobe 229, Expert 166, ExpertSubset 87 glyphs); a font "whose charset
            // matches [it] exactly or is a subset" may use it. Glyphs beyond the list have no name.
            let (pname, plen) = [("ISOAdobe", 229usize), ("Expert", 166), ("ExpertSubset", 87)][p as usize];
            if n > plen {
                issue(
                    &mut iss,
                    "cff:predefined-charset-shorter-than-charstrings",
                    format!("predefined charset {} ({}) names glyphs 0..={} only, the CharStrings INDEX has {} glyphs: glyphs {}..={} have no charset entry", p, pname, plen - 1, n, plen, n - 1),
                );
            }
        }
        o => {
            let o = o as usize;
            match d.get(o) {
                None => issue(&mut iss, "cff:charset", format!("charset offset {} beyond the table", o)),
                Some(&f) => {
                    let want = n.saturating_sub(1);
                    let mut covered = 0usize;
                    let mut at = o + 1;
                    let mut ok = true;
                    match f {
                        0 => {
                            for _ in 0..want {
                                match be16(d, at) {
                                    Some(sid) => {
                                        if !is_cid && sid as i32 > max_sid {
                                            issue(&mut iss, "cff:sid-out-of-range", format!("charset SID {} with {} strings", sid, strings.items.len()));
                                            break;
                                        }
                                    }
                                    None => {
                                        ok = false;
                                        break;
                                    }
                                }
                                at += 2;
                                covered += 1;
                            }
                        }
                        1 | 2 => {
                            while covered < want {
                                let first = be16(d, at);
                                let left = if f == 1 { d.get(at + 2).map(|v| *v as usize) } else { be16(d, at + 2).map(usize::from) };
                                match (first, left) {
                                    (Some(first), Some(left)) => {
                                        if !is_cid && first as usize + left > max_sid as usize {
                                            issue(&mut iss, "cff:sid-out-of-range", format!("charset range {}+{} with {} strings", first, left, strings.items.len()));
                                            break;
                                        }
                                        covered += left + 1;
                                        at += if f == 1 { 3 } else { 4 };
                                    }
                                    _ => {
                                        ok = false;
                                        break;
                                    }
                                }
                            }
                        }
                        _ => {
                            issue(&mut iss, "cff:charset", format!("charset format {}", f));
                            ok = true;
                            covered = want;
                        }
                    }
                    if !ok || covered < want {
                        issue(&mut iss, "cff:charset", format!("charset (format {}) covers {} of {} glyphs inside the table", f, covered, want));
                    }
                }
            }
        }
    }
    // Encoding
    if !is_cid {
        match dict_int(&td, 16, 0).unwrap_or(0) {
            0 | 1 => {}
            o => {
                let o = o as usize;
                match d.get(o) {
                    None => issue(&mut iss, "cff:encoding", format!("Encoding offset {} beyond the table", o)),
                    Some(&f) => {
                        let cnt = d.get(o + 1).map(|v| *v as usize);
                        let mut at = match (f & 0x7F, cnt) {
                            (0, Some(c)) => o + 2 + c,
                            (1, Some(c)) => o + 2 + 2 * c,
                            _ => {
                                issue(&mut iss, "cff:encoding", format!("Encoding format {}", f));
                                usize::MAX
                            }
                        };
                        if at != usize::MAX && f & 0x80 != 0 {
                            match d.get(at) {
                                Some(ns) => at += 1 + 3 * *ns as usize,
                                None => at = d.len() + 1,
                            }
                        }
                        if at != usize::MAX && at > d.len() {
                            issue(&mut iss, "cff:encoding", format!("Encoding at {} runs past the table", o));
                        }
                    }
                }
            }
        }
    }
    // Private DICT(s) and local subrs
    let mut read_private = |dict: &[(u16, Vec<Num>)], what: &str, iss: &mut Vec<Issue>| -> Option<Vec<&[u8]>> {
        let e = dict.iter().find(|e| e.0 == 18)?;
        let (size, off) = match (&e.1.get(0), &e.1.get(1)) {
            (Some(Num::Int(s)), Some(Num::Int(o))) if *s >= 0 && *o >= 0 => (*s as usize, *o as usize),
            _ => {
                issue(iss, "cff:private", format!("{}: Private operands {:?}", what, e.1));
                return None;
            }
        };
        let Some(pd) = d.get(off..off + size) else {
            issue(iss, "cff:private", format!("{}: Private DICT [{}, {}) outside the table of {} bytes", what, off, off + size, d.len()));
            return None;
        };
        let pdict = match parse_dict(pd, false) {
            Ok(p) => p,
            Err(e) => {
                issue(iss, "cff:private", format!("{}: Private DICT: {}", what, e));
                return None;
            }
        };
        match dict_int(&pdict, 19, 0) {
            None => Some(Vec::new()),
            Some(so) => match parse_index(d, (off as i64 + so as i64).max(0) as usize, false) {
                Ok(i) => Some(i.items),
                Err(e) => {
                    issue(iss, "cff:local-subrs", format!("{}: Subrs at {}+{}: {}", what, off, so, e));
                    None
                }
            },
        }
    };
    let mut locals: Vec<Option<Vec<&[u8]>>> = Vec::new();
    let mut fd_of: Vec<usize> = vec![0; n];
    if is_cid {
        match dict_int(&td, 1236, 0).map(|o| parse_index(d, o.max(0) as usize, false)) {
            Some(Ok(fda)) => {
                if fda.items.is_empty() {
                    issue(&mut iss, "cff:fdarray", "FDArray is empty".into());
                }
                for (k, fdd) in fda.items.iter().enumerate() {
                    match parse_dict(fdd, false) {
                        Ok(fd) => {
                            if !fd.iter().any(|e| e.0 == 18) {
                                issue(&mut iss, "cff:private", format!("Font DICT {} has no Private entry", k));
                            }
                            locals.push(read_private(&fd, &format!("Font DICT {}", k), &mut iss));
                        }
                        Err(e) => {
                            issue(&mut iss, "cff:fdarray", format!("Font DICT {}: {}", k, e));
                            locals.push(None);
                        }
                    }
                }
                // FDSelect
                match dict_int(&td, 1237, 0) {
                    None => issue(&mut iss, "cff:fdselect", "CID-keyed font without FDSelect".into()),
                    Some(o) => {
                        let o = o.max(0) as usize;
                        match d.get(o) {
                            Some(0) => match d.get(o + 1..o + 1 + n) {
                                Some(fds) => {
                                    for (g, fd) in fds.iter().enumerate() {
                                        fd_of[g] = *fd as usize;
                                    }
                                }
                                None => issue(&mut iss, "cff:fdselect", format!("FDSelect format 0 needs {} bytes", n)),
                            },
                            Some(3) => {
                                let nr = be16(d, o + 1).unwrap_or(0) as usize;
                                let mut ok = nr > 0;
                                let mut prev_first = 0usize;
                                for r in 0..nr {
                                    let at = o + 3 + 3 * r;
                                    let (Some(first), Some(fd), Some(next)) = (be16(d, at), d.get(at + 2), be16(d, at + 3)) else {
                                        ok = false;
                                        break;
                                    };
                                    let (first, next) = (first as usize, next as usize);
                                    if (r == 0 && first != 0) || (r > 0 && first <= prev_first) || next <= first {
                                        ok = false;
                                        break;
                                    }
                                    if r == nr - 1 && next != n {
                                        issue(&mut iss, "cff:fdselect", format!("FDSelect sentinel {} != {} glyphs", next, n));
                                    }
                                    for g in first..next.min(n) {
                                        fd_of[g] = *fd as usize;
                                    }
                                    prev_first = first;
                                }
                                if !ok {
                                    issue(&mut iss, "cff:fdselect", "FDSelect format 3 ranges malformed".into());
                                }
                            }
                            f => issue(&mut iss, "cff:fdselect", format!("FDSelect format {:?} at {}", f, o)),
                        }
                        if let Some(g) = (0..n).find(|&g| fd_of[g] >= fda.items.len()) {
                            issue(&mut iss, "cff:fdselect", format!("glyph {} selects Font DICT {} of {}", g, fd_of[g], fda.items.len()));
                        }
                    }
                }
            }
            Some(Err(e)) => issue(&mut iss, "cff:fdarray", format!("FDArray: {}", e)),
            None => issue(&mut iss, "cff:fdarray", "CID-keyed font without FDArray".into()),
        }
    } else {
        if !td.iter().any(|e| e.0 == 18) {
            issue(&mut iss, "cff:private", "Top DICT has no Private entry".into());
        }
        locals.push(read_private(&td, "Top DICT", &mut iss));
    }
    // charstrings
    if charstrings {
        let empty: Vec<&[u8]> = Vec::new();
        for (g, c) in cs.items.iter().enumerate() {
            let local = match locals.get(fd_of[g]) {
                Some(Some(l)) => l,
                _ => &empty,
            };
            let env = CsEnv { global: &gsubrs.items, local, cff2: false };
            let mut st = CsState { stack: Vec::new(), stems: 0, steps: 0, saw_blend: false };
            match walk_charstring(c, &env, &mut st, 0) {
                Ok(CsEnd::EndChar) => {}
                Ok(e) => {
                    issue(&mut iss, "cff:charstring-no-endchar", format!("glyph {} ({} bytes) ends with {:?} instead of endchar", g, c.len(), e));
                    break;
                }
                Err((code, m)) => {
                    issue(&mut iss, code, format!("glyph {}: {}", g, m));
                    break;
                }
            }
        }
    }
    (iss, Some(is_cid))
}

/// CFF2 table basics. `static_font`: the font has no fvar, so charstrings must not blend unless
/// a VariationStore is present.
pub fn validate_cff2(d: &[u8], num_glyphs: Option<usize>, static_font: bool, charstrings: bool) -> Vec<Issue> {
    let mut iss = Vec::new();
    macro_rules! bail {
        ($code:expr, $($fmt:tt)+) => {{
            issue(&mut iss, $code, format!($($fmt)+));
            return iss;
        }};
    }
    if d.len() < 5 || d[0] != 2 {
        bail!("cff2:header", "CFF2 header {:?}", &d[..d.len().min(5)]);
    }
    let hdr = d[2] as usize;
    let tdl = be16(d, 3).unwrap() as usize;
    if hdr < 5 {
        bail!("cff2:header", "headerSize {}", hdr);
    }
    let Some(tdd) = d.get(hdr..hdr + tdl) else { bail!("cff2:top-dict", "Top DICT of {} bytes outside the table", tdl) };
    let td = match parse_dict(tdd, true) {
        Ok(t) => t,
        Err(e) => bail!("cff2:top-dict", "Top DICT: {}", e),
    };
    let gsubrs = match parse_index(d, hdr + tdl, true) {
        Ok(i) => i,
        Err(e) => bail!("cff2:global-subr-index", "Global Subr INDEX: {}", e),
    };
    let cs = match dict_int(&td, 17, 0).map(|o| parse_index(d, o.max(0) as usize, true)) {
        Some(Ok(i)) => i,
        Some(Err(e)) => bail!("cff2:charstrings-index", "CharStrings INDEX: {}", e),
        None => bail!("cff2:charstrings-index", "no CharStrings operator"),
    };
    let n = cs.items.len();
    if let Some(ng) = num_glyphs {
        if ng != n {
            issue(&mut iss, "cff2:num-glyphs", format!("CharStrings INDEX has {} entries, maxp.numGlyphs is {}", n, ng));
        }
    }
    let has_vstore = match dict_int(&td, 24, 0) {
        Some(o) => {
            let o = o.max(0) as usize;
            match be16(d, o) {
                Some(l) if o + 2 + l as usize <= d.len() => {}
                _ => issue(&mut iss, "cff2:vstore", format!("VariationStore at {} runs past the table", o)),
            }
            true
        }
        None => false,
    };
    let fda = match dict_int(&td, 1236, 0).map(|o| parse_index(d, o.max(0) as usize, true)) {
        Some(Ok(i)) => i,
        Some(Err(e)) => bail!("cff2:fdarray", "FDArray: {}", e),
        None => bail!("cff2:fdarray", "no FDArray operator"),
    };
    if fda.items.is_empty() {
        issue(&mut iss, "cff2:fdarray", "FDArray is empty".into());
    }
    let mut locals: Vec<Vec<&[u8]>> = Vec::new();
    for (k, fdd) in fda.items.iter().enumerate() {
        let mut l: Vec<&[u8]> = Vec::new();
        match parse_dict(fdd, true) {
            Ok(fd) => match fd.iter().find(|e| e.0 == 18) {
                Some(e) => match (e.1.get(0), e.1.get(1)) {
                    (Some(Num::Int(s)), Some(Num::Int(o))) if *s >= 0 && *o >= 0 => {
                        let (s, o) = (*s as usize, *o as usize);
                        match d.get(o..o + s).map(|pd| parse_dict(pd, true)) {
                            Some(Ok(pd)) => {
                                if let Some(so) = dict_int(&pd, 19, 0) {
                                    match parse_index(d, (o as i64 + so as i64).max(0) as usize, true) {
                                        Ok(i) => l = i.items,
                                        Err(e) => issue(&mut iss, "cff2:local-subrs", format!("Font DICT {} Subrs: {}", k, e)),
                                    }
                                }
                            }
                            Some(Err(e)) => issue(&mut iss, "cff2:private", format!("Font DICT {} Private DICT: {}", k, e)),
                            None => issue(&mut iss, "cff2:private", format!("Font DICT {} Private DICT [{}, {}) outside the table", k, o, o + s)),
                        }
                    }
                    _ => issue(&mut iss, "cff2:private", format!("Font DICT {} Private operands {:?}", k, e.1)),
                },
                None => issue(&mut iss, "cff2:private", format!("Font DICT {} has no Private entry", k)),
            },
            Err(e) => issue(&mut iss, "cff2:fdarray", format!("Font DICT {}: {}", k, e)),
        }
        locals.push(l);
    }
    let mut fd_of = vec![0usize; n];
    match dict_int(&td, 1237, 0) {
        None => {
            if fda.items.len() > 1 {
                issue(&mut iss, "cff2:fdselect", format!("{} Font DICTs without FDSelect", fda.items.len()));
            }
        }
        Some(o) => {
            let o = o.max(0) as usize;
            match d.get(o) {
                Some(0) => match d.get(o + 1..o + 1 + n) {
                    Some(f) => f.iter().enumerate().for_each(|(g, fd)| fd_of[g] = *fd as usize),
                    None => issue(&mut iss, "cff2:fdselect", "FDSelect format 0 truncated".into()),
                },
                Some(3) => {
                    let nr = be16(d, o + 1).unwrap_or(0) as usize;
                    for r in 0..nr {
                        let at = o + 3 + 3 * r;
                        match (be16(d, at), d.get(at + 2), be16(d, at + 3)) {
                            (Some(first), Some(fd), Some(next)) => {
                                for g in (first as usize)..(next as usize).min(n) {
                                    fd_of[g] = *fd as usize;
                                }
                            }
                            _ => {
                                issue(&mut iss, "cff2:fdselect", "FDSelect format 3 truncated".into());
                                break;
                            }
                        }
                    }
                }
                Some(4) => {}
                f => issue(&mut iss, "cff2:fdselect", format!("FDSelect format {:?}", f)),
            }
            if let Some(g) = (0..n).find(|&g| fd_of[g] >= fda.items.len().max(1)) {
                issue(&mut iss, "cff2:fdselect", format!("glyph {} selects Font DICT {} of {}", g, fd_of[g], fda.items.len()));
            }
        }
    }
    if charstrings {
        let empty: Vec<&[u8]> = Vec::new();
        for (g, c) in cs.items.iter().enumerate() {
            let local = locals.get(fd_of[g]).unwrap_or(&empty);
            let env = CsEnv { global: &gsubrs.items, local, cff2: true };
            let mut st = CsState { stack: Vec::new(), stems: 0, steps: 0, saw_blend: false };
            match walk_charstring(c, &env, &mut st, 0) {
                Ok(_) => {
                    if st.saw_blend && !has_vstore && static_font {
                        issue(&mut iss, "cff2:blend-without-vstore", format!("glyph {} uses blend but the table has no VariationStore", g));
                        break;
                    }
                }
                Err((code, m)) => {
                    issue(&mut iss, code, format!("glyph {}: {}", g, m));
                    break;
                }
            }
        }
    }
    iss
}
