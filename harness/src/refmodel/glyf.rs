//! Glyph model for the TrueType `glyf`/`loca` tables, an independent reader (bytes → model)
//! and the outline semantics of the TrueType / OpenType specification (model → drawing
//! commands). Nothing here calls allsorts.
//!
//! # Model
//!
//! * [`Glyph`] is `Empty` (zero-length record), `Simple` ([`SimpleGlyph`]: contours of
//!   [`Pt`] = `(x, y, on_curve)` in absolute font units, instructions, bounding box) or
//!   `Composite` ([`CompositeGlyph`]: a list of [`Component`]s, instructions, bounding box).
//! * A [`Component`] names a child glyph, an [`Anchor`] (x/y offset or a pair of point numbers),
//!   a [`Transform`] (raw F2Dot14 values in *file order*) and the remaining flag bits.
//!
//! The same model is the input of the encoder `fontgen::glyf`, so
//! `read_glyph(encode_glyph(g)) ≈ g` (modulo the encoding form the encoder was asked to use).
//!
//! # Reader
//!
//! [`read_loca`], [`read_glyph`], [`read_glyf_table`] decode the tables as described in the
//! OpenType specification ("glyf — Glyph Data", "loca — Index to Location"). They never panic;
//! malformed input gives a [`ReadError`].
//!
//! # Outline semantics
//!
//! [`path_of`] / [`outline_of`] turn glyph `gid` of a glyph list into a list of [`Cmd`]s
//! ([`flattened_contours`] gives the transformed points instead):
//!
//! * every non-empty contour becomes `MoveTo … Close`; the sub-path starts at the first point
//!   if that is on-curve, else at the last point if that is on-curve, else at the midpoint of
//!   last and first (the convention of FreeType's outline decomposer); the contour's points
//!   are visited in order; two consecutive off-curve points imply an on-curve point at their
//!   midpoint (also across the closing edge); an off-curve point followed by an on-curve point
//!   is a quadratic segment; the closing straight edge is left to `Close`;
//! * a component contributes the outline of its child transformed by
//!   `x' = xscale·x + scale10·y + dx`, `y' = scale01·x + yscale·y + dy` where the four values
//!   of a 2×2 transform are, in file order, `xscale, scale01, scale10, yscale` (OpenType
//!   "glyf", composite glyph description; identical to FreeType, HarfBuzz and fontTools);
//!   transforms of nested composites compose (the parent's transform applies to the whole
//!   child outline); offsets are *not* scaled unless `SCALED_COMPONENT_OFFSET` is set alone
//!   (see [`OffsetScaling`]);
//! * components positioned by point matching are handled by [`PathOptions::point_matching`]
//!   (default: reported as [`PathError::PointMatching`] — callers exclude those glyphs).
//!
//! The reader and these semantics were cross-checked once against FreeType 2
//! (`FT_Load_Glyph(FT_LOAD_NO_SCALE)` + `FT_Outline_Decompose`) on all 42 052 glyphs of the 65
//! `.ttf` fixtures of the repository: no mismatch (modulo FreeType's integer rounding and its
//! horizontal shift to the left side bearing).
//!
//! [`segments_of`] converts a command list into closed sub-paths of explicit segments, which
//! allows comparing outlines independently of the start point chosen for each contour
//! ([`same_geometry`]).

use std::fmt;

/// One contour point: `(x, y, on_curve)`, absolute coordinates in font units.
pub type Pt = (i16, i16, bool);

/// `(x_min, y_min, x_max, y_max)` in the order the glyph header stores them.
pub type BBox = (i16, i16, i16, i16);

// ------------------------------------------------------------------------------------ flags

pub mod flag {
    //! Flag bits of simple-glyph points and of composite components (OpenType "glyf").
    pub const ON_CURVE_POINT: u8 = 0x01;
    pub const X_SHORT_VECTOR: u8 = 0x02;
    pub const Y_SHORT_VECTOR: u8 = 0x04;
    pub const REPEAT_FLAG: u8 = 0x08;
    pub const X_IS_SAME_OR_POSITIVE_X_SHORT_VECTOR: u8 = 0x10;
    pub const Y_IS_SAME_OR_POSITIVE_Y_SHORT_VECTOR: u8 = 0x20;
    pub const OVERLAP_SIMPLE: u8 = 0x40;

    pub const ARG_1_AND_2_ARE_WORDS: u16 = 0x0001;
    pub const ARGS_ARE_XY_VALUES: u16 = 0x0002;
    pub const ROUND_XY_TO_GRID: u16 = 0x0004;
    pub const WE_HAVE_A_SCALE: u16 = 0x0008;
    pub const MORE_COMPONENTS: u16 = 0x0020;
    pub const WE_HAVE_AN_X_AND_Y_SCALE: u16 = 0x0040;
    pub const WE_HAVE_A_TWO_BY_TWO: u16 = 0x0080;
    pub const WE_HAVE_INSTRUCTIONS: u16 = 0x0100;
    pub const USE_MY_METRICS: u16 = 0x0200;
    pub const OVERLAP_COMPOUND: u16 = 0x0400;
    pub const SCALED_COMPONENT_OFFSET: u16 = 0x0800;
    pub const UNSCALED_COMPONENT_OFFSET: u16 = 0x1000;

    /// The component flag bits that are determined by the structure of the record (argument
    /// size/kind, transform kind, continuation, instructions). [`super::Component::flags`]
    /// never contains them; the encoder derives them, the reader strips them.
    pub const STRUCTURAL: u16 = ARG_1_AND_2_ARE_WORDS
        | ARGS_ARE_XY_VALUES
        | WE_HAVE_A_SCALE
        | MORE_COMPONENTS
        | WE_HAVE_AN_X_AND_Y_SCALE
        | WE_HAVE_A_TWO_BY_TWO
        | WE_HAVE_INSTRUCTIONS;
}

// ------------------------------------------------------------------------------------ model

#[derive(Clone, Debug, PartialEq, Default)]
pub struct SimpleGlyph {
    /// Bounding box as stored in / to be stored in the glyph header. `None` when building a
    /// model: the encoder then computes it from the points.
    pub bbox: Option<BBox>,
    /// Contours in order; every contour has at least one point when read from a file. The
    /// encoder skips empty contours. A glyph with no contours is encoded as a header with
    /// `numberOfContours = 0`.
    pub contours: Vec<Vec<Pt>>,
    pub instructions: Vec<u8>,
    /// OVERLAP_SIMPLE (bit 6) of the first flag byte.
    pub overlap_simple: bool,
}

/// Component transform; raw F2Dot14 values (`value / 16384`) in file order.
#[derive(Clone, Copy, Debug, PartialEq)]
pub enum Transform {
    /// no transform flags: identity
    None,
    /// WE_HAVE_A_SCALE
    Scale(i16),
    /// WE_HAVE_AN_X_AND_Y_SCALE: xscale, yscale
    XY(i16, i16),
    /// WE_HAVE_A_TWO_BY_TWO: xscale, scale01, scale10, yscale
    Matrix(i16, i16, i16, i16),
}

/// How a component is positioned.
#[derive(Clone, Copy, Debug, PartialEq)]
pub enum Anchor {
    /// ARGS_ARE_XY_VALUES set: x and y offset
    Offset(i16, i16),
    /// ARGS_ARE_XY_VALUES clear: (point number in the parent so far, point number in the child)
    Points(u16, u16),
}

#[derive(Clone, Debug, PartialEq)]
pub struct Component {
    pub glyph: u16,
    pub anchor: Anchor,
    pub transform: Transform,
    /// Non-structural flag bits only (ROUND_XY_TO_GRID, USE_MY_METRICS, OVERLAP_COMPOUND,
    /// SCALED_COMPONENT_OFFSET, UNSCALED_COMPONENT_OFFSET, reserved bits). See
    /// [`flag::STRUCTURAL`].
    pub flags: u16,
}

#[derive(Clone, Debug, PartialEq, Default)]
pub struct CompositeGlyph {
    /// see [`SimpleGlyph::bbox`]; `None` is encoded as (0,0,0,0)
    pub bbox: Option<BBox>,
    /// at least one component
    pub components: Vec<Component>,
    /// `Some` ⇔ WE_HAVE_INSTRUCTIONS is set on the last component (the list may be empty)
    pub instructions: Option<Vec<u8>>,
}

#[derive(Clone, Debug, PartialEq)]
pub enum Glyph {
    /// zero-length glyf record
    Empty,
    Simple(SimpleGlyph),
    Composite(CompositeGlyph),
}

impl SimpleGlyph {
    pub fn from_contours(contours: Vec<Vec<Pt>>) -> SimpleGlyph {
        SimpleGlyph {
            bbox: None,
            contours,
            instructions: Vec::new(),
            overlap_simple: false,
        }
    }
    /// all points in file order
    pub fn points(&self) -> impl Iterator<Item = &Pt> {
        self.contours.iter().flatten()
    }
    pub fn num_points(&self) -> usize {
        self.contours.iter().map(|c| c.len()).sum()
    }
    /// bounding box of the points (all zero when there is none)
    pub fn computed_bbox(&self) -> BBox {
        let mut it = self.points();
        let first = match it.next() {
            Some(p) => *p,
            None => return (0, 0, 0, 0),
        };
        let mut b = (first.0, first.1, first.0, first.1);
        for p in it {
            b.0 = b.0.min(p.0);
            b.1 = b.1.min(p.1);
            b.2 = b.2.max(p.0);
            b.3 = b.3.max(p.1);
        }
        b
    }
}

impl Transform {
    /// The matrix `[a, b, c, d]` with `x' = a·x + c·y`, `y' = b·x + d·y` as defined by the
    /// specification (a = xscale, b = scale01, c = scale10, d = yscale).
    pub fn matrix(&self) -> [f64; 4] {
        let f = |v: i16| v as f64 / 16384.0;
        match *self {
            Transform::None => [1.0, 0.0, 0.0, 1.0],
            Transform::Scale(s) => [f(s), 0.0, 0.0, f(s)],
            Transform::XY(x, y) => [f(x), 0.0, 0.0, f(y)],
            Transform::Matrix(a, b, c, d) => [f(a), f(b), f(c), f(d)],
        }
    }
    pub fn is_identity(&self) -> bool {
        self.matrix() == [1.0, 0.0, 0.0, 1.0]
    }
    pub fn kind(&self) -> &'static str {
        match self {
            Transform::None => "none",
            Transform::Scale(_) => "scale",
            Transform::XY(..) => "xy",
            Transform::Matrix(..) => "2x2",
        }
    }
}

impl Component {
    pub fn new(glyph: u16, dx: i16, dy: i16) -> Component {
        Component {
            glyph,
            anchor: Anchor::Offset(dx, dy),
            transform: Transform::None,
            flags: 0,
        }
    }
    pub fn with_transform(mut self, t: Transform) -> Component {
        self.transform = t;
        self
    }
    pub fn scaled_offset_flag(&self) -> bool {
        self.flags & flag::SCALED_COMPONENT_OFFSET != 0
    }
    pub fn unscaled_offset_flag(&self) -> bool {
        self.flags & flag::UNSCALED_COMPONENT_OFFSET != 0
    }
}

impl Glyph {
    pub fn is_composite(&self) -> bool {
        matches!(self, Glyph::Composite(_))
    }
    /// numberOfContours as the header stores it (−1 for composites, 0 for empty)
    pub fn number_of_contours(&self) -> i16 {
        match self {
            Glyph::Empty => 0,
            Glyph::Simple(s) => s.contours.len() as i16,
            Glyph::Composite(_) => -1,
        }
    }
    pub fn stored_bbox(&self) -> Option<BBox> {
        match self {
            Glyph::Empty => None,
            Glyph::Simple(s) => s.bbox,
            Glyph::Composite(c) => c.bbox,
        }
    }
}

/// Nesting depth of glyph `gid`: 0 for simple/empty glyphs, 1 + the deepest component for a
/// composite. `None` if the tree contains a cycle, a missing glyph, or is deeper than `cap`.
pub fn composite_depth(glyphs: &[Glyph], gid: u16, cap: u32) -> Option<u32> {
    fn go(glyphs: &[Glyph], gid: u16, budget: u32) -> Option<u32> {
        match glyphs.get(gid as usize)? {
            Glyph::Composite(c) => {
                if budget == 0 {
                    return None;
                }
                let mut d = 0;
                for comp in &c.components {
                    d = d.max(go(glyphs, comp.glyph, budget - 1)?);
                }
                Some(d + 1)
            }
            _ => Some(0),
        }
    }
    go(glyphs, gid, cap)
}

// ------------------------------------------------------------------------------------ reader

#[derive(Clone, Debug, PartialEq)]
pub enum ReadError {
    /// ran off the end of the record / table
    Eof(&'static str),
    /// loca offsets decrease or point outside the glyf table
    BadLoca(String),
    /// structurally invalid glyph (e.g. decreasing endPtsOfContours, coordinate overflow)
    BadGlyph(String),
}

impl fmt::Display for ReadError {
    fn fmt(&self, f: &mut fmt::Formatter<'_>) -> fmt::Result {
        write!(f, "{:?}", self)
    }
}

struct Cur<'a> {
    b: &'a [u8],
    at: usize,
}

impl<'a> Cur<'a> {
    fn u8(&mut self, what: &'static str) -> Result<u8, ReadError> {
        let v = *self.b.get(self.at).ok_or(ReadError::Eof(what))?;
        self.at += 1;
        Ok(v)
    }
    fn u16(&mut self, what: &'static str) -> Result<u16, ReadError> {
        let hi = self.u8(what)? as u16;
        let lo = self.u8(what)? as u16;
        Ok(hi << 8 | lo)
    }
    fn i16(&mut self, what: &'static str) -> Result<i16, ReadError> {
        Ok(self.u16(what)? as i16)
    }
    fn bytes(&mut self, n: usize, what: &'static str) -> Result<&'a [u8], ReadError> {
        let end = self.at.checked_add(n).ok_or(ReadError::Eof(what))?;
        let s = self.b.get(self.at..end).ok_or(ReadError::Eof(what))?;
        self.at = end;
        Ok(s)
    }
}

/// Decode a `loca` table into `num_glyphs + 1` byte offsets (short offsets are doubled).
/// Extra trailing bytes are ignored.
pub fn read_loca(loca: &[u8], long: bool, num_glyphs: usize) -> Result<Vec<u32>, ReadError> {
    let mut c = Cur { b: loca, at: 0 };
    let mut v = Vec::with_capacity(num_glyphs + 1);
    for _ in 0..=num_glyphs {
        if long {
            let hi = c.u16("loca")? as u32;
            let lo = c.u16("loca")? as u32;
            v.push(hi << 16 | lo);
        } else {
            v.push(c.u16("loca")? as u32 * 2);
        }
    }
    Ok(v)
}

/// Decode one glyf record. `bytes` is the span `loca[i]..loca[i+1]` (trailing padding is
/// ignored); an empty span is [`Glyph::Empty`].
pub fn read_glyph(bytes: &[u8]) -> Result<Glyph, ReadError> {
    read_glyph_len(bytes).map(|(g, _)| g)
}

/// Like [`read_glyph`], also returning the number of bytes the glyph description occupies
/// (the rest of the span is padding).
pub fn read_glyph_len(bytes: &[u8]) -> Result<(Glyph, usize), ReadError> {
    if bytes.is_empty() {
        return Ok((Glyph::Empty, 0));
    }
    let mut c = Cur { b: bytes, at: 0 };
    let n_contours = c.i16("numberOfContours")?;
    let bbox = (c.i16("xMin")?, c.i16("yMin")?, c.i16("xMax")?, c.i16("yMax")?);
    let g = if n_contours >= 0 {
        Glyph::Simple(read_simple(&mut c, n_contours as usize, bbox)?)
    } else {
        Glyph::Composite(read_composite(&mut c, bbox)?)
    };
    Ok((g, c.at))
}

fn read_simple(c: &mut Cur<'_>, n_contours: usize, bbox: BBox) -> Result<SimpleGlyph, ReadError> {
    let mut ends = Vec::with_capacity(n_contours);
    for _ in 0..n_contours {
        ends.push(c.u16("endPtsOfContours")? as usize);
    }
    let n_instr = c.u16("instructionLength")? as usize;
    let instructions = c.bytes(n_instr, "instructions")?.to_vec();
    let n_points = ends.last().map_or(0, |e| e + 1);
    // flags, with repeats resolved
    let mut flags: Vec<u8> = Vec::with_capacity(n_points);
    while flags.len() < n_points {
        let f = c.u8("flags")?;
        flags.push(f);
        if f & flag::REPEAT_FLAG != 0 {
            let n = c.u8("repeat count")? as usize;
            if flags.len() + n > n_points {
                return Err(ReadError::BadGlyph("flag repeat runs past the last point".into()));
            }
            for _ in 0..n {
                flags.push(f);
            }
        }
    }
    let mut coord = |short: u8, same_or_pos: u8, what: &'static str| -> Result<Vec<i16>, ReadError> {
        let mut out = Vec::with_capacity(n_points);
        let mut cur: i32 = 0;
        for f in &flags {
            let delta: i32 = if f & short != 0 {
                let v = c.u8(what)? as i32;
                if f & same_or_pos != 0 {
                    v
                } else {
                    -v
                }
            } else if f & same_or_pos != 0 {
                0
            } else {
                c.i16(what)? as i32
            };
            cur += delta;
            if cur < i16::MIN as i32 || cur > i16::MAX as i32 {
                return Err(ReadError::BadGlyph("coordinate leaves the int16 range".into()));
            }
            out.push(cur as i16);
        }
        Ok(out)
    };
    let xs = coord(flag::X_SHORT_VECTOR, flag::X_IS_SAME_OR_POSITIVE_X_SHORT_VECTOR, "xCoordinates")?;
    let ys = coord(flag::Y_SHORT_VECTOR, flag::Y_IS_SAME_OR_POSITIVE_Y_SHORT_VECTOR, "yCoordinates")?;
    let mut contours = Vec::with_capacity(n_contours);
    let mut start = 0usize;
    for (i, e) in ends.iter().enumerate() {
        if *e + 1 <= start {
            return Err(ReadError::BadGlyph(format!(
                "endPtsOfContours not strictly increasing at contour {}",
                i
            )));
        }
        contours.push(
            (start..=*e)
                .map(|k| (xs[k], ys[k], flags[k] & flag::ON_CURVE_POINT != 0))
                .collect::<Vec<Pt>>(),
        );
        start = *e + 1;
    }
    Ok(SimpleGlyph {
        bbox: Some(bbox),
        contours,
        instructions,
        overlap_simple: flags.first().map_or(false, |f| f & flag::OVERLAP_SIMPLE != 0),
    })
}

fn read_composite(c: &mut Cur<'_>, bbox: BBox) -> Result<CompositeGlyph, ReadError> {
    let mut components = Vec::new();
    let mut last_flags;
    loop {
        let fl = c.u16("component flags")?;
        last_flags = fl;
        let glyph = c.u16("component glyphIndex")?;
        let words = fl & flag::ARG_1_AND_2_ARE_WORDS != 0;
        let xy = fl & flag::ARGS_ARE_XY_VALUES != 0;
        let anchor = match (words, xy) {
            (true, true) => Anchor::Offset(c.i16("argument1")?, c.i16("argument2")?),
            (true, false) => Anchor::Points(c.u16("argument1")?, c.u16("argument2")?),
            (false, true) => Anchor::Offset(c.u8("argument1")? as i8 as i16, c.u8("argument2")? as i8 as i16),
            (false, false) => Anchor::Points(c.u8("argument1")? as u16, c.u8("argument2")? as u16),
        };
        // the specification's pseudo-code tests the three transform flags in this order
        let transform = if fl & flag::WE_HAVE_A_SCALE != 0 {
            Transform::Scale(c.i16("scale")?)
        } else if fl & flag::WE_HAVE_AN_X_AND_Y_SCALE != 0 {
            Transform::XY(c.i16("xscale")?, c.i16("yscale")?)
        } else if fl & flag::WE_HAVE_A_TWO_BY_TWO != 0 {
            Transform::Matrix(c.i16("xscale")?, c.i16("scale01")?, c.i16("scale10")?, c.i16("yscale")?)
        } else {
            Transform::None
        };
        components.push(Component {
            glyph,
            anchor,
            transform,
            flags: fl & !flag::STRUCTURAL,
        });
        if fl & flag::MORE_COMPONENTS == 0 {
            break;
        }
    }
    let instructions = if last_flags & flag::WE_HAVE_INSTRUCTIONS != 0 {
        let n = c.u16("numInstr")? as usize;
        Some(c.bytes(n, "composite instructions")?.to_vec())
    } else {
        None
    };
    Ok(CompositeGlyph {
        bbox: Some(bbox),
        components,
        instructions,
    })
}

/// Decode a whole glyf table: one [`Glyph`] per glyph id `0..num_glyphs`.
pub fn read_glyf_table(glyf: &[u8], loca: &[u8], long: bool, num_glyphs: usize) -> Result<Vec<Glyph>, ReadError> {
    let offsets = read_loca(loca, long, num_glyphs)?;
    let mut out = Vec::with_capacity(num_glyphs);
    for i in 0..num_glyphs {
        let (s, e) = (offsets[i] as usize, offsets[i + 1] as usize);
        if e < s {
            return Err(ReadError::BadLoca(format!("loca[{}] = {} > loca[{}] = {}", i, s, i + 1, e)));
        }
        let span = glyf
            .get(s..e)
            .ok_or_else(|| ReadError::BadLoca(format!("glyph {} spans {}..{} in a table of {} bytes", i, s, e, glyf.len())))?;
        out.push(read_glyph(span)?);
    }
    Ok(out)
}

// ------------------------------------------------------------------------------------ paths

/// A drawing command in font units.
#[derive(Clone, Copy, Debug, PartialEq)]
pub enum Cmd {
    MoveTo(f64, f64),
    LineTo(f64, f64),
    /// control point, end point
    QuadTo(f64, f64, f64, f64),
    /// control 1, control 2, end point (never produced from glyf data; present so that a
    /// recording sink can represent everything an outline visitor may be sent)
    CubicTo(f64, f64, f64, f64, f64, f64),
    Close,
}

impl Cmd {
    /// the coordinates carried by the command, flattened
    pub fn coords(&self) -> Vec<f64> {
        match *self {
            Cmd::MoveTo(x, y) | Cmd::LineTo(x, y) => vec![x, y],
            Cmd::QuadTo(a, b, c, d) => vec![a, b, c, d],
            Cmd::CubicTo(a, b, c, d, e, f) => vec![a, b, c, d, e, f],
            Cmd::Close => vec![],
        }
    }
    pub fn name(&self) -> &'static str {
        match self {
            Cmd::MoveTo(..) => "M",
            Cmd::LineTo(..) => "L",
            Cmd::QuadTo(..) => "Q",
            Cmd::CubicTo(..) => "C",
            Cmd::Close => "Z",
        }
    }
}

/// compact rendering, e.g. `M10,0 L10,20 Q5,5 0,0 Z`
pub fn render(cmds: &[Cmd]) -> String {
    let mut s = String::new();
    for c in cmds {
        if !s.is_empty() {
            s.push(' ');
        }
        s.push_str(c.name());
        let co = c.coords();
        for (i, v) in co.iter().enumerate() {
            if i > 0 {
                s.push(if i % 2 == 0 { ' ' } else { ',' });
            }
            s.push_str(&format!("{}", (v * 1000.0).round() / 1000.0));
        }
    }
    s
}

/// What to do with offsets of transformed components.
#[derive(Clone, Copy, Debug, PartialEq)]
pub enum OffsetScaling {
    /// Offsets are never transformed by the component's own matrix (the default behaviour of
    /// Microsoft and Apple rasterisers according to the OpenType specification, and what
    /// UNSCALED_COMPONENT_OFFSET requests).
    Never,
    /// SCALED_COMPONENT_OFFSET set (and UNSCALED_COMPONENT_OFFSET clear) ⇒ the offset is
    /// multiplied by the component's 2×2 matrix ("the x and y offset values are deemed to be
    /// in the component glyph's coordinate system, and the scale transformation is applied to
    /// both values"). Platforms differ on details; callers that compare against another
    /// implementation should exclude such components instead.
    HonourFlag,
}

/// What to do with components positioned by point numbers.
#[derive(Clone, Copy, Debug, PartialEq)]
pub enum PointMatching {
    /// return [`PathError::PointMatching`]
    Reject,
    /// treat the arguments as a zero offset (documented limitation of some readers)
    ZeroOffset,
}

/// Deliberate deviations from the specification, used as *defect models* to attribute an
/// observed discrepancy to a specific known defect. All `false` = the specification.
#[derive(Clone, Copy, Debug, PartialEq, Default)]
pub struct Deviations {
    /// use the 2×2 matrix transposed: `x' = xscale·x + scale01·y`, `y' = scale10·x + yscale·y`
    pub transposed_2x2: bool,
    /// a component that is itself a composite is drawn as if it had been requested directly:
    /// the transform and offset given by its parent are dropped
    pub drop_parent_transform: bool,
}

#[derive(Clone, Copy, Debug, PartialEq)]
pub struct PathOptions {
    /// Deepest permitted nesting: visiting the requested glyph is depth 0, its components
    /// depth 1, …; reaching a glyph at a depth greater than this gives
    /// [`PathError::DepthExceeded`]. `None` = only cycles are rejected (as depth > 64).
    pub max_depth: Option<u32>,
    pub offset_scaling: OffsetScaling,
    pub point_matching: PointMatching,
    pub deviations: Deviations,
}

impl Default for PathOptions {
    fn default() -> Self {
        PathOptions {
            max_depth: None,
            offset_scaling: OffsetScaling::Never,
            point_matching: PointMatching::Reject,
            deviations: Deviations::default(),
        }
    }
}

#[derive(Clone, Debug, PartialEq)]
pub enum PathError {
    /// glyph id (requested or referenced by a component) not in the glyph list
    MissingGlyph(u16),
    DepthExceeded,
    /// a component uses point matching and `PointMatching::Reject` is in force
    PointMatching,
}

/// An outline with, per command, a bound on the magnitude of the intermediate values that
/// went into its coordinates (Σ |matrix|·|coordinate| + |offsets| through all nesting levels).
/// A single-precision implementation can be expected to agree within a small multiple of
/// `f32::EPSILON × magnitude`.
#[derive(Clone, Debug, PartialEq, Default)]
pub struct Outline {
    pub cmds: Vec<Cmd>,
    pub magnitude: Vec<f64>,
}

/// 2-D affine map `p ↦ (a·x + c·y + e, b·x + d·y + f)`.
#[derive(Clone, Copy, Debug, PartialEq)]
pub struct Affine {
    pub a: f64,
    pub b: f64,
    pub c: f64,
    pub d: f64,
    pub e: f64,
    pub f: f64,
}

impl Affine {
    pub const IDENTITY: Affine = Affine {
        a: 1.0,
        b: 0.0,
        c: 0.0,
        d: 1.0,
        e: 0.0,
        f: 0.0,
    };
    pub fn apply(&self, x: f64, y: f64) -> (f64, f64) {
        (self.a * x + self.c * y + self.e, self.b * x + self.d * y + self.f)
    }
    /// `self ∘ inner`: apply `inner` first, then `self`
    pub fn after(&self, inner: &Affine) -> Affine {
        let (e, f) = self.apply(inner.e, inner.f);
        Affine {
            a: self.a * inner.a + self.c * inner.b,
            b: self.b * inner.a + self.d * inner.b,
            c: self.a * inner.c + self.c * inner.d,
            d: self.b * inner.c + self.d * inner.d,
            e,
            f,
        }
    }
    fn abs(&self) -> Affine {
        Affine {
            a: self.a.abs(),
            b: self.b.abs(),
            c: self.c.abs(),
            d: self.d.abs(),
            e: self.e.abs(),
            f: self.f.abs(),
        }
    }
}

/// The affine map of one component as the specification defines it (with `opts` deciding the
/// offset scaling and the deviations). `None` for point-matched components.
pub fn component_affine(comp: &Component, opts: &PathOptions) -> Option<Affine> {
    let (dx, dy) = match comp.anchor {
        Anchor::Offset(dx, dy) => (dx as f64, dy as f64),
        Anchor::Points(..) => return None,
    };
    Some(component_affine_with_offset(comp, opts, dx, dy))
}

fn component_affine_with_offset(comp: &Component, opts: &PathOptions, dx: f64, dy: f64) -> Affine {
    let [a, mut b, mut c, d] = comp.transform.matrix();
    if opts.deviations.transposed_2x2 {
        std::mem::swap(&mut b, &mut c);
    }
    let mut m = Affine { a, b, c, d, e: 0.0, f: 0.0 };
    let scale_offset = opts.offset_scaling == OffsetScaling::HonourFlag
        && comp.scaled_offset_flag()
        && !comp.unscaled_offset_flag();
    let (e, f) = if scale_offset { m.apply(dx, dy) } else { (dx, dy) };
    m.e = e;
    m.f = f;
    m
}

/// The drawing commands of one contour under the affine map `xf` (see the module
/// documentation for the rules). An empty contour produces nothing.
pub fn contour_path(points: &[Pt], xf: &Affine) -> Vec<Cmd> {
    let mut out = Outline::default();
    emit_contour(points, xf, &xf.abs(), &mut out);
    out.cmds
}

fn emit_contour(points: &[Pt], xf: &Affine, axf: &Affine, out: &mut Outline) {
    let n = points.len();
    if n == 0 {
        return;
    }
    let raw = |p: &Pt| (p.0 as f64, p.1 as f64);
    let mid = |p: (f64, f64), q: (f64, f64)| ((p.0 + q.0) / 2.0, (p.1 + q.1) / 2.0);
    let map = |p: (f64, f64)| xf.apply(p.0, p.1);
    let mag = |p: (f64, f64)| {
        let (mx, my) = axf.apply(p.0.abs(), p.1.abs());
        mx.max(my)
    };
    // start point and the points that remain to be visited, in contour order
    let (start, rest): ((f64, f64), &[Pt]) = if points[0].2 {
        (raw(&points[0]), &points[1..])
    } else if points[n - 1].2 {
        (raw(&points[n - 1]), &points[..n - 1])
    } else {
        (mid(raw(&points[n - 1]), raw(&points[0])), points)
    };
    let (sx, sy) = map(start);
    out.cmds.push(Cmd::MoveTo(sx, sy));
    out.magnitude.push(mag(start));
    let mut pending: Option<(f64, f64)> = None;
    let quad = |ctrl: (f64, f64), to: (f64, f64), out: &mut Outline| {
        let (cx, cy) = map(ctrl);
        let (tx, ty) = map(to);
        out.cmds.push(Cmd::QuadTo(cx, cy, tx, ty));
        out.magnitude.push(mag(ctrl).max(mag(to)));
    };
    for p in rest {
        let q = raw(p);
        match (pending, p.2) {
            (None, true) => {
                let (x, y) = map(q);
                out.cmds.push(Cmd::LineTo(x, y));
                out.magnitude.push(mag(q));
            }
            (None, false) => pending = Some(q),
            (Some(c), true) => {
                quad(c, q, out);
                pending = None;
            }
            (Some(c), false) => {
                quad(c, mid(c, q), out);
                pending = Some(q);
            }
        }
    }
    if let Some(c) = pending {
        quad(c, start, out);
    }
    out.cmds.push(Cmd::Close);
    out.magnitude.push(0.0);
}

/// Drawing commands of glyph `gid`. See the module documentation.
pub fn path_of(glyphs: &[Glyph], gid: u16, opts: &PathOptions) -> Result<Vec<Cmd>, PathError> {
    outline_of(glyphs, gid, opts).map(|o| o.cmds)
}

/// Like [`path_of`], with per-command magnitude bounds (see [`Outline`]).
pub fn outline_of(glyphs: &[Glyph], gid: u16, opts: &PathOptions) -> Result<Outline, PathError> {
    let mut out = Outline::default();
    walk(glyphs, gid, &Affine::IDENTITY, &Affine::IDENTITY, 0, opts, &mut |c, xf, axf| {
        emit_contour(c, xf, axf, &mut out)
    })?;
    Ok(out)
}

/// The contours of glyph `gid` with all component transforms applied (composites flattened,
/// contours in drawing order, empty contours kept): `(x, y, on_curve)` per point. This is the
/// point-level view of the same semantics as [`path_of`]; useful to compare two fonts whose
/// composite structure differs (subsetting, instancing, WOFF2 round trips).
pub fn flattened_contours(
    glyphs: &[Glyph],
    gid: u16,
    opts: &PathOptions,
) -> Result<Vec<Vec<(f64, f64, bool)>>, PathError> {
    let mut out = Vec::new();
    walk(glyphs, gid, &Affine::IDENTITY, &Affine::IDENTITY, 0, opts, &mut |c, xf, _| {
        out.push(
            c.iter()
                .map(|p| {
                    let (x, y) = xf.apply(p.0 as f64, p.1 as f64);
                    (x, y, p.2)
                })
                .collect(),
        )
    })?;
    Ok(out)
}

fn walk(
    glyphs: &[Glyph],
    gid: u16,
    xf: &Affine,
    axf: &Affine,
    depth: u32,
    opts: &PathOptions,
    sink: &mut dyn FnMut(&[Pt], &Affine, &Affine),
) -> Result<(), PathError> {
    if depth > opts.max_depth.unwrap_or(64) {
        return Err(PathError::DepthExceeded);
    }
    match glyphs.get(gid as usize).ok_or(PathError::MissingGlyph(gid))? {
        Glyph::Empty => Ok(()),
        Glyph::Simple(s) => {
            for c in &s.contours {
                sink(c, xf, axf);
            }
            Ok(())
        }
        Glyph::Composite(comp) => {
            let (base, abase) = if opts.deviations.drop_parent_transform {
                (Affine::IDENTITY, Affine::IDENTITY)
            } else {
                (*xf, *axf)
            };
            for k in &comp.components {
                let m = match k.anchor {
                    Anchor::Offset(dx, dy) => component_affine_with_offset(k, opts, dx as f64, dy as f64),
                    Anchor::Points(..) => match opts.point_matching {
                        PointMatching::Reject => return Err(PathError::PointMatching),
                        PointMatching::ZeroOffset => component_affine_with_offset(k, opts, 0.0, 0.0),
                    },
                };
                // the parent's map applies to the whole (already transformed) child outline
                let child = base.after(&m);
                let achild = abase.after(&m.abs());
                walk(glyphs, k.glyph, &child, &achild, depth + 1, opts, sink)?;
            }
            Ok(())
        }
    }
}

// ------------------------------------------------------------------------------------ geometry

/// One explicit segment of a closed sub-path.
#[derive(Clone, Copy, Debug, PartialEq)]
pub enum Seg {
    Line((f64, f64), (f64, f64)),
    Quad((f64, f64), (f64, f64), (f64, f64)),
    Cubic((f64, f64), (f64, f64), (f64, f64), (f64, f64)),
}

/// Split a command list into sub-paths of explicit segments. `Close` (or a following `MoveTo`,
/// or the end of the list) adds the straight closing segment when the current point is
/// further than `tol` from the sub-path's start. *Line* segments not longer than `tol` (in
/// both coordinates) are dropped. A sub-path without segments (a lone point) is kept as an
/// empty list together with its start point.
pub fn segments_of(cmds: &[Cmd], tol: f64) -> Vec<((f64, f64), Vec<Seg>)> {
    type Open = ((f64, f64), (f64, f64), Vec<Seg>); // start, current point, segments
    let far = move |a: (f64, f64), b: (f64, f64)| (a.0 - b.0).abs() > tol || (a.1 - b.1).abs() > tol;
    let mut out: Vec<((f64, f64), Vec<Seg>)> = Vec::new();
    let mut cur: Option<Open> = None;
    let finish = |out: &mut Vec<((f64, f64), Vec<Seg>)>, cur: &mut Option<Open>| {
        if let Some((start, at, mut segs)) = cur.take() {
            if far(at, start) {
                segs.push(Seg::Line(at, start));
            }
            out.push((start, segs));
        }
    };
    for c in cmds {
        match *c {
            Cmd::MoveTo(x, y) => {
                finish(&mut out, &mut cur);
                cur = Some(((x, y), (x, y), Vec::new()));
            }
            Cmd::Close => finish(&mut out, &mut cur),
            Cmd::LineTo(x, y) => {
                let st = cur.get_or_insert(((0.0, 0.0), (0.0, 0.0), Vec::new()));
                if far(st.1, (x, y)) {
                    st.2.push(Seg::Line(st.1, (x, y)));
                    st.1 = (x, y);
                }
            }
            Cmd::QuadTo(cx, cy, x, y) => {
                let st = cur.get_or_insert(((0.0, 0.0), (0.0, 0.0), Vec::new()));
                st.2.push(Seg::Quad(st.1, (cx, cy), (x, y)));
                st.1 = (x, y);
            }
            Cmd::CubicTo(ax, ay, bx, by, x, y) => {
                let st = cur.get_or_insert(((0.0, 0.0), (0.0, 0.0), Vec::new()));
                st.2.push(Seg::Cubic(st.1, (ax, ay), (bx, by), (x, y)));
                st.1 = (x, y);
            }
        }
    }
    finish(&mut out, &mut cur);
    out
}

fn seg_coords(s: &Seg) -> (u8, Vec<f64>) {
    match *s {
        Seg::Line(a, b) => (0, vec![a.0, a.1, b.0, b.1]),
        Seg::Quad(a, c, b) => (1, vec![a.0, a.1, c.0, c.1, b.0, b.1]),
        Seg::Cubic(a, c, d, b) => (2, vec![a.0, a.1, c.0, c.1, d.0, d.1, b.0, b.1]),
    }
}

/// True if the two command lists describe the same closed sub-paths in the same order, each
/// with the same cyclic sequence of segments (the start point of a sub-path may be any of its
/// segment joints), all coordinates within `tol`; straight segments shorter than `tol` are
/// ignored, so an explicit closing line or a repeated point does not matter.
pub fn same_geometry(a: &[Cmd], b: &[Cmd], tol: f64) -> bool {
    let (sa, sb) = (segments_of(a, tol), segments_of(b, tol));
    if sa.len() != sb.len() {
        return false;
    }
    let close = |x: f64, y: f64| (x - y).abs() <= tol;
    let seg_eq = |p: &Seg, q: &Seg| {
        let (kp, cp) = seg_coords(p);
        let (kq, cq) = seg_coords(q);
        kp == kq && cp.iter().zip(cq.iter()).all(|(x, y)| close(*x, *y))
    };
    for ((pa, xa), (pb, xb)) in sa.iter().zip(sb.iter()) {
        if xa.len() != xb.len() {
            return false;
        }
        if xa.is_empty() {
            if !(close(pa.0, pb.0) && close(pa.1, pb.1)) {
                return false;
            }
            continue;
        }
        let n = xa.len();
        let ok = (0..n).any(|rot| (0..n).all(|i| seg_eq(&xa[i], &xb[(i + rot) % n])));
        if !ok {
            return false;
        }
    }
    true
}

/// First index at which two command lists differ (different command kind, or a coordinate
/// further apart than `tol(i)`), or `None` if they agree.
pub fn first_difference(a: &[Cmd], b: &[Cmd], tol: impl Fn(usize) -> f64) -> Option<usize> {
    for i in 0..a.len().max(b.len()) {
        match (a.get(i), b.get(i)) {
            (Some(x), Some(y)) => {
                if x.name() != y.name() {
                    return Some(i);
                }
                let t = tol(i);
                if x.coords().iter().zip(y.coords().iter()).any(|(p, q)| !((p - q).abs() <= t)) {
                    return Some(i);
                }
            }
            _ => return Some(i),
        }
    }
    None
}

#[cfg(test)]
mod tests {
    use super::*;

    #[test]
    fn contour_rules() {
        let id = Affine::IDENTITY;
        // all on
        assert_eq!(
            render(&contour_path(&[(0, 0, true), (10, 0, true), (10, 10, true)], &id)),
            "M0,0 L10,0 L10,10 Z"
        );
        // first off, last on
        assert_eq!(
            render(&contour_path(&[(0, 0, false), (10, 0, true), (10, 10, true)], &id)),
            "M10,10 Q0,0 10,0 Z"
        );
        // all off
        assert_eq!(
            render(&contour_path(&[(0, 0, false), (10, 0, false)], &id)),
            "M5,0 Q0,0 5,0 Q10,0 5,0 Z"
        );
        // single off-curve point
        assert_eq!(render(&contour_path(&[(3, 4, false)], &id)), "M3,4 Q3,4 3,4 Z");
    }
}
