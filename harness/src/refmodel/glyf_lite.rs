//! Minimal independent readers for the TrueType glyph and metrics tables, written from the
//! OpenType specification (glyf, loca, head, maxp, hhea, hmtx). Used by C07 to compare the
//! glyphs of a subset font with the glyphs of its source font. No allsorts code is used here.
//!
//! Everything is bounds-checked and returns `Err(String)` / `None` instead of panicking.

use std::collections::{BTreeMap, BTreeSet};

fn u16_at(d: &[u8], at: usize) -> Option<u16> {
    let s = d.get(at..at.checked_add(2)?)?;
    Some(u16::from_be_bytes([s[0], s[1]]))
}

fn i16_at(d: &[u8], at: usize) -> Option<i16> {
    u16_at(d, at).map(|v| v as i16)
}

fn u32_at(d: &[u8], at: usize) -> Option<u32> {
    let s = d.get(at..at.checked_add(4)?)?;
    Some(u32::from_be_bytes([s[0], s[1], s[2], s[3]]))
}

/// maxp.numGlyphs (both table versions keep it at offset 4)
pub fn maxp_num_glyphs(maxp: &[u8]) -> Option<u16> {
    u16_at(maxp, 4)
}

/// hhea.numberOfHMetrics (last field of the 36 byte table)
pub fn hhea_num_h_metrics(hhea: &[u8]) -> Option<u16> {
    u16_at(hhea, 34)
}

/// head.indexToLocFormat: Some(false) = short offsets, Some(true) = long offsets
pub fn head_long_loca(head: &[u8]) -> Option<bool> {
    match i16_at(head, 50)? {
        0 => Some(false),
        1 => Some(true),
        _ => None,
    }
}

/// (advanceWidth, leftSideBearing) of glyph `gid`: glyphs past numberOfHMetrics take the
/// advance of the last long metric and their own entry of the trailing lsb array.
pub fn hmtx_metric(hmtx: &[u8], num_h_metrics: u16, gid: u16) -> Option<(u16, i16)> {
    let nhm = num_h_metrics as usize;
    let g = gid as usize;
    if nhm == 0 {
        return None;
    }
    if g < nhm {
        Some((u16_at(hmtx, 4 * g)?, i16_at(hmtx, 4 * g + 2)?))
    } else {
        let adv = u16_at(hmtx, 4 * (nhm - 1))?;
        let lsb = i16_at(hmtx, 4 * nhm + 2 * (g - nhm))?;
        Some((adv, lsb))
    }
}

/// Byte range of glyph `gid` inside glyf according to loca.
pub fn loca_range(loca: &[u8], long: bool, gid: u16) -> Option<(usize, usize)> {
    let g = gid as usize;
    let (a, b) = if long {
        (u32_at(loca, 4 * g)? as usize, u32_at(loca, 4 * g + 4)? as usize)
    } else {
        (u16_at(loca, 2 * g)? as usize * 2, u16_at(loca, 2 * g + 2)? as usize * 2)
    };
    if a <= b {
        Some((a, b))
    } else {
        None
    }
}

/// Number of glyphs a loca table of this length describes.
pub fn loca_glyph_count(loca: &[u8], long: bool) -> usize {
    (loca.len() / if long { 4 } else { 2 }).saturating_sub(1)
}

// composite flag bits (OpenType glyf table)
pub const ARG_1_AND_2_ARE_WORDS: u16 = 0x0001;
pub const ARGS_ARE_XY_VALUES: u16 = 0x0002;
pub const ROUND_XY_TO_GRID: u16 = 0x0004;
pub const WE_HAVE_A_SCALE: u16 = 0x0008;
pub const MORE_COMPONENTS: u16 = 0x0020;
pub const WE_HAVE_AN_X_AND_Y_SCALE: u16 = 0x0040;
pub const WE_HAVE_A_TWO_BY_TWO: u16 = 0x0080;
pub const WE_HAVE_INSTRUCTIONS: u16 = 0x0100;
pub const USE_MY_METRICS: u16 = 0x0200;
pub const OVERLAP_COMPOUND: u16 = 0x0400;
pub const SCALED_COMPONENT_OFFSET: u16 = 0x0800;
pub const UNSCALED_COMPONENT_OFFSET: u16 = 0x1000;

/// The flag bits that carry meaning beyond the encoding of the record itself.
pub const SEMANTIC_FLAGS: u16 =
    ROUND_XY_TO_GRID | USE_MY_METRICS | OVERLAP_COMPOUND | SCALED_COMPONENT_OFFSET | UNSCALED_COMPONENT_OFFSET;

#[derive(Clone, Copy, Debug, PartialEq, Eq)]
pub enum Args {
    /// x/y offsets
    Xy(i16, i16),
    /// parent point number, child point number
    Points(u16, u16),
}

/// raw F2Dot14 values
#[derive(Clone, Copy, Debug, PartialEq, Eq)]
pub enum Transform {
    None,
    Scale(i16),
    XY(i16, i16),
    Matrix([i16; 4]),
}

#[derive(Clone, Debug, PartialEq, Eq)]
pub struct Component {
    pub glyph: u16,
    /// flags & SEMANTIC_FLAGS
    pub flags: u16,
    pub args: Args,
    pub transform: Transform,
}

pub type Bbox = (i16, i16, i16, i16);

#[derive(Clone, Debug, PartialEq, Eq)]
pub enum GlyphLite {
    /// zero-length record
    Empty,
    Simple {
        bbox: Bbox,
        /// per contour: (x, y, on_curve) absolute
        contours: Vec<Vec<(i32, i32, bool)>>,
        instructions: Vec<u8>,
    },
    Composite {
        bbox: Bbox,
        components: Vec<Component>,
        instructions: Vec<u8>,
    },
}

impl GlyphLite {
    pub fn is_composite(&self) -> bool {
        matches!(self, GlyphLite::Composite { .. })
    }
    /// true if the glyph draws nothing by itself (no record, or a record with no points)
    pub fn is_blank(&self) -> bool {
        match self {
            GlyphLite::Empty => true,
            GlyphLite::Simple { contours, .. } => contours.iter().all(|c| c.is_empty()),
            GlyphLite::Composite { .. } => false,
        }
    }
    pub fn num_points(&self) -> usize {
        match self {
            GlyphLite::Simple { contours, .. } => contours.iter().map(|c| c.len()).sum(),
            _ => 0,
        }
    }
}

struct Cur<'a> {
    d: &'a [u8],
    at: usize,
}

impl<'a> Cur<'a> {
    fn u8(&mut self) -> Result<u8, String> {
        let v = *self.d.get(self.at).ok_or_else(|| format!("glyph record ends at byte {}", self.at))?;
        self.at += 1;
        Ok(v)
    }
    fn u16(&mut self) -> Result<u16, String> {
        let v = u16_at(self.d, self.at).ok_or_else(|| format!("glyph record ends at byte {}", self.at))?;
        self.at += 2;
        Ok(v)
    }
    fn i16(&mut self) -> Result<i16, String> {
        self.u16().map(|v| v as i16)
    }
    fn bytes(&mut self, n: usize) -> Result<&'a [u8], String> {
        let end = self.at.checked_add(n).ok_or("overflow")?;
        let s = self.d.get(self.at..end).ok_or_else(|| format!("glyph record ends before byte {}", end))?;
        self.at = end;
        Ok(s)
    }
}

/// Parse one glyph record (the bytes loca delimits; trailing padding is ignored).
pub fn parse_glyph(rec: &[u8]) -> Result<GlyphLite, String> {
    if rec.is_empty() {
        return Ok(GlyphLite::Empty);
    }
    let mut c = Cur { d: rec, at: 0 };
    let n = c.i16()?;
    let bbox = (c.i16()?, c.i16()?, c.i16()?, c.i16()?);
    if n >= 0 {
        let n = n as usize;
        let mut ends = Vec::with_capacity(n);
        for _ in 0..n {
            ends.push(c.u16()? as usize);
        }
        for w in ends.windows(2) {
            if w[1] < w[0] {
                return Err("endPtsOfContours not monotone".into());
            }
        }
        let ilen = c.u16()? as usize;
        let instructions = c.bytes(ilen)?.to_vec();
        let npts = ends.last().map(|e| e + 1).unwrap_or(0);
        let mut flags = Vec::with_capacity(npts);
        while flags.len() < npts {
            let f = c.u8()?;
            flags.push(f);
            if f & 0x08 != 0 {
                let r = c.u8()? as usize;
                if flags.len() + r > npts {
                    return Err("flag repeat count runs past the last point".into());
                }
                for _ in 0..r {
                    flags.push(f);
                }
            }
        }
        let mut xs = Vec::with_capacity(npts);
        let mut v = 0i32;
        for f in &flags {
            if f & 0x02 != 0 {
                let d = c.u8()? as i32;
                v += if f & 0x10 != 0 { d } else { -d };
            } else if f & 0x10 == 0 {
                v += c.i16()? as i32;
            }
            xs.push(v);
        }
        let mut ys = Vec::with_capacity(npts);
        v = 0;
        for f in &flags {
            if f & 0x04 != 0 {
                let d = c.u8()? as i32;
                v += if f & 0x20 != 0 { d } else { -d };
            } else if f & 0x20 == 0 {
                v += c.i16()? as i32;
            }
            ys.push(v);
        }
        let mut contours = Vec::with_capacity(n);
        let mut start = 0usize;
        for e in ends {
            let mut pts = Vec::new();
            for i in start..=e {
                pts.push((xs[i], ys[i], flags[i] & 1 != 0));
            }
            start = e + 1;
            contours.push(pts);
        }
        Ok(GlyphLite::Simple {
            bbox,
            contours,
            instructions,
        })
    } else {
        let mut components = Vec::new();
        // instructions follow the last component when WE_HAVE_INSTRUCTIONS is set on ANY component
        // (the specification does not tie the flag to the last record)
        let mut any_flags = 0u16;
        loop {
            let flags = c.u16()?;
            any_flags |= flags;
            let glyph = c.u16()?;
            let args = match (flags & ARG_1_AND_2_ARE_WORDS != 0, flags & ARGS_ARE_XY_VALUES != 0) {
                (true, true) => Args::Xy(c.i16()?, c.i16()?),
                (true, false) => Args::Points(c.u16()?, c.u16()?),
                (false, true) => Args::Xy(c.u8()? as i8 as i16, c.u8()? as i8 as i16),
                (false, false) => Args::Points(c.u8()? as u16, c.u8()? as u16),
            };
            let transform = if flags & WE_HAVE_A_SCALE != 0 {
                Transform::Scale(c.i16()?)
            } else if flags & WE_HAVE_AN_X_AND_Y_SCALE != 0 {
                Transform::XY(c.i16()?, c.i16()?)
            } else if flags & WE_HAVE_A_TWO_BY_TWO != 0 {
                Transform::Matrix([c.i16()?, c.i16()?, c.i16()?, c.i16()?])
            } else {
                Transform::None
            };
            components.push(Component {
                glyph,
                flags: flags & SEMANTIC_FLAGS,
                args,
                transform,
            });
            if flags & MORE_COMPONENTS == 0 {
                break;
            }
            if components.len() > 4096 {
                return Err("more than 4096 components".into());
            }
        }
        let instructions = if any_flags & WE_HAVE_INSTRUCTIONS != 0 {
            let n = c.u16()? as usize;
            c.bytes(n)?.to_vec()
        } else {
            Vec::new()
        };
        Ok(GlyphLite::Composite {
            bbox,
            components,
            instructions,
        })
    }
}

/// The tables of a TrueType font that matter for outlines and horizontal metrics.
#[derive(Clone, Debug)]
pub struct TtTables {
    pub num_glyphs: u16,
    pub num_h_metrics: u16,
    pub long_loca: bool,
    pub loca: Vec<u8>,
    pub glyf: Vec<u8>,
    pub hmtx: Vec<u8>,
}

impl TtTables {
    /// `get(tag)` returns the bytes of a table
    pub fn from_tables<'a>(get: impl Fn(&[u8; 4]) -> Option<Vec<u8>>) -> Result<TtTables, String> {
        let need = |t: &[u8; 4]| get(t).ok_or_else(|| format!("table {} missing", String::from_utf8_lossy(t)));
        let head = need(b"head")?;
        let maxp = need(b"maxp")?;
        let hhea = need(b"hhea")?;
        Ok(TtTables {
            num_glyphs: maxp_num_glyphs(&maxp).ok_or("maxp too short")?,
            num_h_metrics: hhea_num_h_metrics(&hhea).ok_or("hhea too short")?,
            long_loca: head_long_loca(&head).ok_or("bad head.indexToLocFormat")?,
            loca: need(b"loca")?,
            glyf: need(b"glyf")?,
            hmtx: need(b"hmtx")?,
        })
    }

    pub fn record(&self, gid: u16) -> Result<&[u8], String> {
        if gid >= self.num_glyphs {
            return Err(format!("glyph {} >= numGlyphs {}", gid, self.num_glyphs));
        }
        let (a, b) = loca_range(&self.loca, self.long_loca, gid).ok_or_else(|| format!("loca entry of glyph {} missing or decreasing", gid))?;
        self.glyf
            .get(a..b)
            .ok_or_else(|| format!("glyph {}: loca range {}..{} outside glyf ({} bytes)", gid, a, b, self.glyf.len()))
    }

    pub fn glyph(&self, gid: u16) -> Result<GlyphLite, String> {
        parse_glyph(self.record(gid)?).map_err(|e| format!("glyph {}: {}", gid, e))
    }

    pub fn metric(&self, gid: u16) -> Option<(u16, i16)> {
        if gid >= self.num_glyphs {
            return None;
        }
        hmtx_metric(&self.hmtx, self.num_h_metrics, gid)
    }

    /// Component glyph ids of `gid` (empty for non-composites), read without decoding points.
    pub fn components_of(&self, gid: u16) -> Result<Vec<u16>, String> {
        let rec = self.record(gid)?;
        match i16_at(rec, 0) {
            Some(n) if n < 0 => match parse_glyph(rec).map_err(|e| format!("glyph {}: {}", gid, e))? {
                GlyphLite::Composite { components, .. } => Ok(components.iter().map(|c| c.glyph).collect()),
                _ => Ok(Vec::new()),
            },
            _ => Ok(Vec::new()),
        }
    }

    /// All glyphs reachable from `seeds` through composite references (including the seeds).
    pub fn closure(&self, seeds: &[u16]) -> Result<BTreeSet<u16>, String> {
        let mut seen: BTreeSet<u16> = BTreeSet::new();
        let mut stack: Vec<u16> = seeds.to_vec();
        while let Some(g) = stack.pop() {
            if !seen.insert(g) {
                continue;
            }
            for c in self.components_of(g)? {
                if c >= self.num_glyphs {
                    return Err(format!("glyph {} references component {} >= numGlyphs", g, c));
                }
                if !seen.contains(&c) {
                    stack.push(c);
                }
            }
        }
        Ok(seen)
    }

    /// Maximum nesting depth below `gid` (0 for a non-composite); None on a reference cycle.
    pub fn depth(&self, gid: u16, memo: &mut BTreeMap<u16, Option<u32>>, active: &mut BTreeSet<u16>) -> Option<u32> {
        if let Some(d) = memo.get(&gid) {
            return *d;
        }
        if !active.insert(gid) {
            return None;
        }
        let comps = self.components_of(gid).unwrap_or_default();
        let mut d = Some(0u32);
        for c in comps {
            match (d, self.depth(c, memo, active)) {
                (Some(a), Some(b)) => d = Some(a.max(b + 1)),
                _ => d = None,
            }
        }
        active.remove(&gid);
        memo.insert(gid, d);
        d
    }

    /// The order in which a subsetter that walks the list front to back and appends every
    /// component it has not met yet would emit the glyphs (list first, then appended ids).
    /// Used only to *classify* the observed order, never asserted.
    pub fn append_discovery_order(&self, list: &[u16]) -> Result<Vec<u16>, String> {
        let mut out = list.to_vec();
        let mut seen: BTreeSet<u16> = list.iter().copied().collect();
        let mut i = 0;
        while i < out.len() {
            for c in self.components_of(out[i])? {
                if seen.insert(c) {
                    out.push(c);
                }
            }
            i += 1;
        }
        Ok(out)
    }
}

/// Minimal independent CFF (version 1) reader: just enough structure (INDEX, DICT, FDSelect,
/// Private DICT, subroutine bias) to extract the *advance width* a Type 2 charstring declares.
/// Written from Adobe Technical Notes #5176 (CFF) and #5177 (Type 2 charstrings).
pub mod cff_width {
    /// (start, end) byte ranges of the objects of an INDEX starting at `at`, and the position
    /// just after the INDEX.
    pub fn index(d: &[u8], at: usize) -> Result<(Vec<(usize, usize)>, usize), String> {
        let count = super::u16_at(d, at).ok_or("INDEX count out of bounds")? as usize;
        if count == 0 {
            return Ok((Vec::new(), at + 2));
        }
        let off_size = *d.get(at + 2).ok_or("INDEX offSize out of bounds")? as usize;
        if !(1..=4).contains(&off_size) {
            return Err(format!("INDEX offSize {}", off_size));
        }
        let offs_at = at + 3;
        let mut offs = Vec::with_capacity(count + 1);
        for i in 0..=count {
            let p = offs_at + i * off_size;
            let s = d.get(p..p + off_size).ok_or("INDEX offset array out of bounds")?;
            offs.push(s.iter().fold(0usize, |a, b| (a << 8) | *b as usize));
        }
        let base = offs_at + (count + 1) * off_size - 1; // offsets are relative to the byte before the data
        let mut out = Vec::with_capacity(count);
        for w in offs.windows(2) {
            if w[0] < 1 || w[1] < w[0] || base + w[1] > d.len() {
                return Err("INDEX offsets not monotone or out of bounds".into());
            }
            out.push((base + w[0], base + w[1]));
        }
        Ok((out, base + offs[count]))
    }

    /// DICT data → (operator, operands); two-byte operators are 0x0c00 | second byte.
    pub fn dict(d: &[u8]) -> Result<Vec<(u16, Vec<f64>)>, String> {
        let mut out = Vec::new();
        let mut ops: Vec<f64> = Vec::new();
        let mut i = 0;
        while i < d.len() {
            let b0 = d[i];
            match b0 {
                // 22-24 are CFF2 operators (vsindex, blend, vstore); a CFF2->CFF conversion may
                // leave them behind, which is not this reader's business
                0..=24 => {
                    let op = if b0 == 12 {
                        i += 1;
                        0x0c00 | *d.get(i).ok_or("DICT ends inside escape operator")? as u16
                    } else {
                        b0 as u16
                    };
                    out.push((op, std::mem::take(&mut ops)));
                    i += 1;
                }
                28 => {
                    let s = d.get(i + 1..i + 3).ok_or("DICT ends inside operand")?;
                    ops.push(i16::from_be_bytes([s[0], s[1]]) as f64);
                    i += 3;
                }
                29 => {
                    let s = d.get(i + 1..i + 5).ok_or("DICT ends inside operand")?;
                    ops.push(i32::from_be_bytes([s[0], s[1], s[2], s[3]]) as f64);
                    i += 5;
                }
                30 => {
                    let mut txt = String::new();
                    i += 1;
                    'real: loop {
                        let b = *d.get(i).ok_or("DICT ends inside real operand")?;
                        i += 1;
                        for nib in [b >> 4, b & 15] {
                            match nib {
                                0..=9 => txt.push((b'0' + nib) as char),
                                10 => txt.push('.'),
                                11 => txt.push('E'),
                                12 => txt.push_str("E-"),
                                14 => txt.push('-'),
                                15 => break 'real,
                                _ => return Err("reserved nibble in real operand".into()),
                            }
                        }
                    }
                    ops.push(txt.parse::<f64>().map_err(|_| format!("real operand {:?}", txt))?);
                }
                32..=246 => {
                    ops.push(b0 as f64 - 139.0);
                    i += 1;
                }
                247..=250 => {
                    let b1 = *d.get(i + 1).ok_or("DICT ends inside operand")? as f64;
                    ops.push((b0 as f64 - 247.0) * 256.0 + b1 + 108.0);
                    i += 2;
                }
                251..=254 => {
                    let b1 = *d.get(i + 1).ok_or("DICT ends inside operand")? as f64;
                    ops.push(-(b0 as f64 - 251.0) * 256.0 - b1 - 108.0);
                    i += 2;
                }
                _ => return Err(format!("reserved DICT byte {}", b0)),
            }
        }
        Ok(out)
    }

    fn get<'a>(dict: &'a [(u16, Vec<f64>)], op: u16) -> Option<&'a [f64]> {
        dict.iter().find(|e| e.0 == op).map(|e| e.1.as_slice())
    }

    struct Private {
        default_width: f64,
        nominal_width: f64,
        subrs: Vec<(usize, usize)>,
    }

    fn private(d: &[u8], size: f64, offset: f64) -> Result<Private, String> {
        let (size, offset) = (size as usize, offset as usize);
        let bytes = d.get(offset..offset.checked_add(size).ok_or("overflow")?).ok_or("Private DICT out of bounds")?;
        let pd = dict(bytes)?;
        let subrs = match get(&pd, 19) {
            Some([o]) => index(d, offset + *o as usize)?.0,
            _ => Vec::new(),
        };
        Ok(Private {
            default_width: get(&pd, 20).and_then(|v| v.first().copied()).unwrap_or(0.0),
            nominal_width: get(&pd, 21).and_then(|v| v.first().copied()).unwrap_or(0.0),
            subrs,
        })
    }

    pub struct CffLite<'a> {
        d: &'a [u8],
        pub cid: bool,
        pub char_strings: Vec<(usize, usize)>,
        gsubrs: Vec<(usize, usize)>,
        privates: Vec<Private>,
        /// per glyph index into `privates`
        fd_of: Vec<u8>,
    }

    fn bias(n: usize) -> i64 {
        if n < 1240 {
            107
        } else if n < 33900 {
            1131
        } else {
            32768
        }
    }

    impl<'a> CffLite<'a> {
        pub fn parse(d: &'a [u8]) -> Result<CffLite<'a>, String> {
            if d.len() < 4 || d[0] != 1 {
                return Err("not a CFF version 1 table".into());
            }
            let hdr = d[2] as usize;
            let (_names, p) = index(d, hdr)?;
            let (tops, p) = index(d, p)?;
            let (_strings, p) = index(d, p)?;
            let (gsubrs, _) = index(d, p)?;
            let (a, b) = *tops.first().ok_or("no Top DICT")?;
            let top = dict(&d[a..b])?;
            if let Some([t]) = get(&top, 0x0c06) {
                if *t != 2.0 {
                    return Err("CharstringType is not 2".into());
                }
            }
            let cs_off = get(&top, 17).and_then(|v| v.first().copied()).ok_or("no CharStrings operator")? as usize;
            let (char_strings, _) = index(d, cs_off)?;
            let n = char_strings.len();
            let cid = get(&top, 0x0c1e).is_some();
            let (privates, fd_of) = if cid {
                let fda = get(&top, 0x0c24).and_then(|v| v.first().copied()).ok_or("CID font without FDArray")? as usize;
                let fds = get(&top, 0x0c25).and_then(|v| v.first().copied()).ok_or("CID font without FDSelect")? as usize;
                let (fonts, _) = index(d, fda)?;
                let mut privates = Vec::new();
                for (a, b) in fonts {
                    let fd = dict(&d[a..b])?;
                    match get(&fd, 18) {
                        Some([size, off]) => privates.push(private(d, *size, *off)?),
                        _ => return Err("Font DICT without Private".into()),
                    }
                }
                let mut fd_of = vec![0u8; n];
                match *d.get(fds).ok_or("FDSelect out of bounds")? {
                    0 => {
                        let s = d.get(fds + 1..fds + 1 + n).ok_or("FDSelect format 0 too short")?;
                        fd_of.copy_from_slice(s);
                    }
                    3 => {
                        let nr = super::u16_at(d, fds + 1).ok_or("FDSelect 3 header")? as usize;
                        for r in 0..nr {
                            let at = fds + 3 + 3 * r;
                            let first = super::u16_at(d, at).ok_or("FDSelect 3 range")? as usize;
                            let fd = *d.get(at + 2).ok_or("FDSelect 3 range")?;
                            let next = super::u16_at(d, at + 3).ok_or("FDSelect 3 sentinel")? as usize;
                            for g in first..next.min(n) {
                                fd_of[g] = fd;
                            }
                        }
                    }
                    f => return Err(format!("FDSelect format {}", f)),
                }
                (privates, fd_of)
            } else {
                let p = match get(&top, 18) {
                    Some([size, off]) => private(d, *size, *off)?,
                    _ => Private {
                        default_width: 0.0,
                        nominal_width: 0.0,
                        subrs: Vec::new(),
                    },
                };
                (vec![p], vec![0u8; n])
            };
            Ok(CffLite {
                d,
                cid,
                char_strings,
                gsubrs,
                privates,
                fd_of,
            })
        }

        /// The advance width glyph `g`'s charstring declares (nominalWidthX + first operand, or
        /// defaultWidthX). Err if the charstring does anything before its first stack-clearing
        /// operator that this reader does not model (arithmetic operators, path operators).
        pub fn width(&self, g: u16) -> Result<f64, String> {
            let (a, b) = *self.char_strings.get(g as usize).ok_or("glyph out of range")?;
            let pr = self.privates.get(*self.fd_of.get(g as usize).ok_or("no FD")? as usize).ok_or("FD index out of range")?;
            let mut stack: Vec<f64> = Vec::new();
            match self.run(&self.d[a..b], pr, &mut stack, 0)? {
                Some(Some(delta)) => Ok(pr.nominal_width + delta),
                Some(None) => Ok(pr.default_width),
                None => Err("charstring ends without a stack-clearing operator".into()),
            }
        }

        /// Some(width operand or None) once the first stack-clearing operator is met; None if
        /// the (sub)charstring returned before that.
        fn run(&self, cs: &[u8], pr: &Private, stack: &mut Vec<f64>, depth: u32) -> Result<Option<Option<f64>>, String> {
            if depth > 10 {
                return Err("subroutine nesting deeper than 10".into());
            }
            let mut i = 0;
            while i < cs.len() {
                let b0 = cs[i];
                match b0 {
                    28 => {
                        let s = cs.get(i + 1..i + 3).ok_or("charstring ends inside operand")?;
                        stack.push(i16::from_be_bytes([s[0], s[1]]) as f64);
                        i += 3;
                    }
                    32..=246 => {
                        stack.push(b0 as f64 - 139.0);
                        i += 1;
                    }
                    247..=250 => {
                        let b1 = *cs.get(i + 1).ok_or("charstring ends inside operand")? as f64;
                        stack.push((b0 as f64 - 247.0) * 256.0 + b1 + 108.0);
                        i += 2;
                    }
                    251..=254 => {
                        let b1 = *cs.get(i + 1).ok_or("charstring ends inside operand")? as f64;
                        stack.push(-(b0 as f64 - 251.0) * 256.0 - b1 - 108.0);
                        i += 2;
                    }
                    255 => {
                        let s = cs.get(i + 1..i + 5).ok_or("charstring ends inside operand")?;
                        stack.push(i32::from_be_bytes([s[0], s[1], s[2], s[3]]) as f64 / 65536.0);
                        i += 5;
                    }
                    // hstem vstem hstemhm vstemhm hintmask cntrmask: an even number of operands
                    1 | 3 | 18 | 23 | 19 | 20 => {
                        return Ok(Some(if stack.len() % 2 == 1 { Some(stack[0]) } else { None }));
                    }
                    21 => return Ok(Some(if stack.len() > 2 { Some(stack[0]) } else { None })),
                    4 | 22 => return Ok(Some(if stack.len() > 1 { Some(stack[0]) } else { None })),
                    14 => return Ok(Some(if stack.len() == 1 || stack.len() == 5 { Some(stack[0]) } else { None })),
                    10 | 29 => {
                        let subrs = if b0 == 10 { &pr.subrs } else { &self.gsubrs };
                        let n = stack.pop().ok_or("callsubr on an empty stack")? as i64 + bias(subrs.len());
                        let (a, b) = *subrs.get(usize::try_from(n).map_err(|_| "negative subr index")?).ok_or("subr index out of range")?;
                        if let Some(w) = self.run(&self.d[a..b], pr, stack, depth + 1)? {
                            return Ok(Some(w));
                        }
                        i += 1;
                    }
                    11 => return Ok(None),
                    other => return Err(format!("operator {} before the first stack-clearing operator", other)),
                }
            }
            Ok(None)
        }
    }
}
